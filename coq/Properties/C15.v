(* Properties/C15.v — normalizing flows are bijections with exact log-determinants.
   Model: Model/Flow.v (mirrors deeprob/flows/{utils,layers/autoregressive,layers/coupling,
   models/base,models/realnvp}.py and deeprob/torch/utils.py MaskedLinear).
   All statements are for every size, every degree list / ordering, every parameter value and an
   ARBITRARY conditioner function.  The determinant step is closed at the end of the file: for the
   autoregressive and the (affine) coupling layer EVERY matrix of partial derivatives of
   apply_backward at x has determinant exp(reported ildj) (C15_ar_logdet, C15_coupling_logdet; the
   entries above the ranked diagonal are 0 and the diagonal is exp(-s_i) by Coquelicot derivatives,
   det of a rank-triangular matrix = product of its diagonal by the Leibniz formula,
   C15_det_rank_triangular, over any commutative ring).  Not formalised: that a conditioner which is a
   neural network is differentiable (not needed: the theorems quantify over every matrix of partial
   derivatives that exists) and the change-of-variables formula of integration itself. *)
From Coq Require Import List Arith Bool Reals Ring Field.
From Coquelicot Require Import Coquelicot.
From DV Require Import Model.Flow Proofs.FlowFacts Proofs.FlowReal.
Import ListNotations.
Close Scope R_scope.
Open Scope nat_scope.

(* ---------------- masks, orderings, index maps (nat / bool) ---------------- *)

(* for ANY degree lists (sequential, reversed, random; any depth, any width, any features): in the
   product of the masks built by build_masks, input j reaches output r only if deg j < deg r *)
Theorem C15_masks_autoregressive : forall (d0 : list nat) (rest : list (list nat)) r j,
  mget (conn (length d0) (build_masks (d0 :: rest))) r j = true -> nth j d0 0 < nth r d0 0.
Proof. exact masks_autoregressive. Qed.

(* the network actually built tiles the last mask twice: rows i and D+i (t_i and s_i) *)
Theorem C15_masks_autoregressive_tiled : forall (d0 : list nat) (rest : list (list nat)) r j,
  mget (conn (length d0) (tile_last (build_masks (d0 :: rest)))) r j = true ->
  r < 2 * length d0 /\ nth j d0 0 < nth (r mod length d0) d0 0.
Proof. exact masks_autoregressive_tiled. Qed.

(* soundness of the per-run certificate evaluated on the mask buffers extracted from the modules *)
Theorem C15_masks_certificate_sound : forall n ord C, autoreg_ok n ord C = true ->
  forall r j, mget C r j = true -> j < n -> nth j ord 0 < nth (r mod n) ord 0.
Proof. exact autoreg_ok_sound. Qed.

(* coupling masks: the reversed mask is the complement (1-D alternating and 2-D checkerboard) *)
Theorem C15_masks_complementary : forall D H W r,
  alt_mask D (negb r) = map negb (alt_mask D r) /\ checker_mask H W (negb r) = map negb (checker_mask H W r).
Proof. intros. split; [apply alt_mask_compl|apply checker_mask_compl]. Qed.

(* inv_ordering = argsort(ordering) visits coordinates in increasing degree, for every permutation *)
Theorem C15_ordering_inverse : forall ord : list nat, (forall k, k < length ord -> In k ord) ->
  length (inv_ordering ord) = length ord /\
  (forall k, k < length ord -> nth k (inv_ordering ord) 0 < length ord /\ nth (nth k (inv_ordering ord) 0) ord 0 = k) /\
  (forall i, i < length ord -> nth i ord 0 < length ord /\ nth (nth i ord 0) (inv_ordering ord) 0 = i).
Proof. exact inv_ordering_spec. Qed.

(* squeeze_depth2d / unsqueeze_depth2d are mutually inverse index maps, for all C, H, W *)
Theorem C15_squeeze_inverse : forall C H W,
  (forall p, in3 C (2 * H) (2 * W) p -> in3 (4 * C) H W (unsq_src p) /\ sq_src (unsq_src p) = p) /\
  (forall o, in3 (4 * C) H W o -> in3 C (2 * H) (2 * W) (sq_src o) /\ unsq_src (sq_src o) = o).
Proof. intros. split; [apply squeeze_then_unsqueeze|apply unsqueeze_then_squeeze]. Qed.

(* the down-scaling convolution with build_permutation_matrix is a permutation of the positions
   (its transpose convolution is the inverse), for all C, H, W *)
Theorem C15_perm_is_permutation : forall C H W,
  (forall k i oh ow, k < 4 -> i < C -> oh < H -> ow < W ->
     in3 C (2 * H) (2 * W) (perm_src (k, i, oh, ow)) /\ perm_dst (perm_src (k, i, oh, ow)) = (k, i, oh, ow)) /\
  (forall p, in3 C (2 * H) (2 * W) p ->
     (let '(k, i, oh, ow) := perm_dst p in k < 4 /\ i < C /\ oh < H /\ ow < W) /\ perm_src (perm_dst p) = p).
Proof. intros. split; [apply perm_src_dst|apply perm_dst_src]. Qed.

(* ---------------- layer algebra: any commutative ring with an exponential ---------------- *)
Section C15_ring.
  Variable T : Type.
  Variables (t0 t1 : T) (tadd tmul tsub : T -> T -> T) (topp : T -> T) (texp : T -> T).
  Hypothesis Rth : ring_theory t0 t1 tadd tmul tsub topp (@eq T).
  Hypothesis exp_add : forall a b, texp (tadd a b) = tmul (texp a) (texp b).
  Hypothesis exp_0 : texp t0 = t1.

  (* affine and additive coupling (1-D, and 2-D checkerboard after flattening), arbitrary
     conditioner: mutual inverses, and ldj(forward) = -ildj(backward) along the round trip *)
  Theorem C15_coupling_inverse : forall affine n mask imask (cond : condT T),
    compl_masks T t0 t1 n mask imask ->
    (forall x, length x = n ->
      coupling_fwd T t0 tadd tmul texp affine n mask imask cond
        (fst (coupling_bwd T t0 tadd tmul tsub topp texp affine n mask imask cond x)) =
      (x, topp (snd (coupling_bwd T t0 tadd tmul tsub topp texp affine n mask imask cond x)))) /\
    (forall u, length u = n ->
      coupling_bwd T t0 tadd tmul tsub topp texp affine n mask imask cond
        (fst (coupling_fwd T t0 tadd tmul texp affine n mask imask cond u)) =
      (u, topp (snd (coupling_fwd T t0 tadd tmul texp affine n mask imask cond u)))).
  Proof. intros. split; intros; [apply (coupling_fwd_bwd T t0 t1)|apply (coupling_bwd_fwd T t0 t1)]; auto. Qed.

  (* the 0/1 buffers obtained from the model's boolean masks satisfy the hypothesis above *)
  Theorem C15_coupling_masks_ok : forall n (m : list bool), length m = n ->
    compl_masks T t0 t1 n (map (b2t T t0 t1) m) (map (b2t T t0 t1) (map negb m)).
  Proof. exact (bool_masks_compl T t0 t1 tadd tmul texp exp_add). Qed.

  (* channel-wise coupling (chunk / cat form), both values of `reverse`, affine and additive *)
  Theorem C15_channel_coupling_inverse : forall affine reverse m (cond : condT T) x, length x = m + m ->
    chan_fwd T t0 tadd tmul texp affine reverse m cond
      (fst (chan_bwd T t0 tadd tmul tsub topp texp affine reverse m cond x)) =
    (x, topp (snd (chan_bwd T t0 tadd tmul tsub topp texp affine reverse m cond x))) /\
    chan_bwd T t0 tadd tmul tsub topp texp affine reverse m cond
      (fst (chan_fwd T t0 tadd tmul texp affine reverse m cond x)) =
    (x, topp (snd (chan_fwd T t0 tadd tmul texp affine reverse m cond x))).
  Proof. intros. split; [apply (chan_fwd_bwd T t0 t1)|apply (chan_bwd_fwd T t0 t1)]; auto. Qed.

  (* output i of the masked conditioner depends only on the inputs connected to it in the product of
     its masks (MaskedLinear.forward = F.linear(x, mask * weight, bias), any weights, any activations) *)
  Theorem C15_conditioner_connectivity : forall n (Ls : list (mlayer T)) (x x' : list T) i,
    length x = n -> length x' = n ->
    (forall j, mget (conn n (map (l_mask T) Ls)) i j = true -> nth j x t0 = nth j x' t0) ->
    nth i (mlp T t0 t1 tadd tmul Ls x) t0 = nth i (mlp T t0 t1 tadd tmul Ls x') t0.
  Proof. exact (mlp_connectivity T t0 t1 tadd tmul tsub topp texp Rth exp_add). Qed.

  (* autoregressive layer with an abstract autoregressive conditioner: the D-step forward loop in
     degree order and apply_backward are mutual inverses with opposite log-determinants *)
  Theorem C15_ar_inverse : forall n (deg : nat -> nat) (order : list nat) (cond : condT T),
    length order = n ->
    (forall k, k < n -> nth k order 0 < n /\ deg (nth k order 0) = k) ->
    (forall i, i < n -> deg i < n /\ nth (deg i) order 0 = i) ->
    (forall x x' i, length x = n -> length x' = n -> i < n ->
       (forall j, j < n -> deg j < deg i -> nth j x t0 = nth j x' t0) ->
       nth i (fst (cond x)) t0 = nth i (fst (cond x')) t0 /\ nth i (snd (cond x)) t0 = nth i (snd (cond x')) t0) ->
    (forall x, length x = n ->
       ar_fwd T t0 tadd tmul texp n cond order (fst (ar_bwd T t0 tadd tmul tsub topp texp n cond x)) =
       (x, topp (snd (ar_bwd T t0 tadd tmul tsub topp texp n cond x)))) /\
    (forall u, length u = n ->
       ar_bwd T t0 tadd tmul tsub topp texp n cond (fst (ar_fwd T t0 tadd tmul texp n cond order u)) =
       (u, topp (snd (ar_fwd T t0 tadd tmul texp n cond order u)))).
  Proof. intros. split; intros; [eapply (ar_fwd_bwd T t0 t1)|eapply (ar_bwd_fwd T t0 t1)]; eauto. Qed.

  (* end to end for one MAF layer: masks built from ANY degree lists whose input degrees are a
     permutation, any weights / activations / scale activation *)
  Theorem C15_maf_layer_inverse : forall (d0 : list nat) (rest : list (list nat)) (Ls : list (mlayer T)) sact,
    map (l_mask T) Ls = tile_last (build_masks (d0 :: rest)) ->
    (forall k, k < length d0 -> In k d0) ->
    let n := length d0 in
    let cond := ar_cond T t0 t1 tadd tmul n Ls sact in
    (forall x, length x = n ->
       ar_fwd T t0 tadd tmul texp n cond (inv_ordering d0) (fst (ar_bwd T t0 tadd tmul tsub topp texp n cond x)) =
       (x, topp (snd (ar_bwd T t0 tadd tmul tsub topp texp n cond x)))) /\
    (forall u, length u = n ->
       ar_bwd T t0 tadd tmul tsub topp texp n cond (fst (ar_fwd T t0 tadd tmul texp n cond (inv_ordering d0) u)) =
       (u, topp (snd (ar_fwd T t0 tadd tmul texp n cond (inv_ordering d0) u)))).
  Proof. exact (maf_layer_inverse T t0 t1 tadd tmul tsub topp texp Rth exp_add exp_0). Qed.

  (* functional triangularity of the autoregressive map (coordinate i of apply_backward depends only on
     inputs of degree <= deg i), over any number type; the determinant step over the reals is
     C15_ar_logdet below *)
  Theorem C15_ar_triangular : forall n (deg : nat -> nat) (cond : condT T),
    (forall x x' i, length x = n -> length x' = n -> i < n ->
       (forall j, j < n -> deg j < deg i -> nth j x t0 = nth j x' t0) ->
       nth i (fst (cond x)) t0 = nth i (fst (cond x')) t0 /\ nth i (snd (cond x)) t0 = nth i (snd (cond x')) t0) ->
    forall x x' i, length x = n -> length x' = n -> i < n ->
    (forall j, j < n -> deg j <= deg i -> nth j x t0 = nth j x' t0) ->
    nth i (fst (ar_bwd T t0 tadd tmul tsub topp texp n cond x)) t0 =
    nth i (fst (ar_bwd T t0 tadd tmul tsub topp texp n cond x')) t0.
  Proof. exact (ar_bwd_triangular T t0 t1 tadd tmul tsub topp texp exp_add). Qed.

  (* NormalizingFlow.apply_backward / apply_forward over any list of correct layers *)
  Theorem C15_flow_composition : forall (X : Type) (D : X -> Prop) (bs : list (bij T X)),
    List.Forall (bij_ok T topp X D) bs -> forall x, D x ->
    D (fst (flow_bwd T t0 tadd bs x)) /\
    flow_fwd T t0 tadd bs (fst (flow_bwd T t0 tadd bs x)) = (x, topp (snd (flow_bwd T t0 tadd bs x))).
  Proof. exact (flow_fwd_bwd T t0 t1 tadd tmul tsub topp Rth). Qed.

  (* RealNVP2d multi-scale wiring (down-scale, split, recurse, concatenate, up-scale), any depth *)
  Theorem C15_multiscale_composition : forall (X : Type) (split : X -> X * X) (cat : X * X -> X),
    (forall p, split (cat p) = p) -> (forall x, cat (split x) = x) ->
    forall (lvs : list (level T X)) (last : bij T X),
    List.Forall (level_ok T topp X) lvs -> bij_ok' T topp X last -> forall x,
    ms_fwd T tadd X split cat lvs last (fst (ms_bwd T tadd X split cat lvs last x)) =
    (x, topp (snd (ms_bwd T tadd X split cat lvs last x))).
  Proof. exact (ms_fwd_bwd T t0 t1 tadd tmul tsub topp Rth). Qed.
End C15_ring.

(* ---------------- BatchNorm in evaluation mode: any field with an exponential ---------------- *)
Section C15_field.
  Variable T : Type.
  Variables (t0 t1 : T) (tadd tmul tsub : T -> T -> T) (topp : T -> T) (tdiv : T -> T -> T) (tinv : T -> T).
  Variables (texp tln tsqrt : T -> T).
  Hypothesis Fth : field_theory t0 t1 tadd tmul tsub topp tdiv tinv (@eq T).
  Hypothesis exp_add : forall a b, texp (tadd a b) = tmul (texp a) (texp b).
  Hypothesis exp_0 : texp t0 = t1.
  Theorem C15_bn_inverse : forall n eps w b rvar rmean,
    (forall i, i < n -> tsqrt (tadd (nth i rvar t0) eps) <> t0) ->
    (forall x, length x = n ->
      bn_fwd T t0 t1 tadd tmul tsub topp tdiv texp tln tsqrt n eps w b rvar rmean
        (fst (bn_bwd T t0 t1 tadd tmul tsub tdiv texp tln tsqrt n eps w b rvar rmean x)) =
      (x, topp (snd (bn_bwd T t0 t1 tadd tmul tsub tdiv texp tln tsqrt n eps w b rvar rmean x)))) /\
    (forall u, length u = n ->
      bn_bwd T t0 t1 tadd tmul tsub tdiv texp tln tsqrt n eps w b rvar rmean
        (fst (bn_fwd T t0 t1 tadd tmul tsub topp tdiv texp tln tsqrt n eps w b rvar rmean u)) =
      (u, topp (snd (bn_fwd T t0 t1 tadd tmul tsub topp tdiv texp tln tsqrt n eps w b rvar rmean u)))).
  Proof. intros. split; intros;
    [apply (bn_fwd_bwd T t0 t1 tadd tmul tsub topp tdiv tinv)|apply (bn_bwd_fwd T t0 t1 tadd tmul tsub topp tdiv tinv)]; auto. Qed.
End C15_field.

(* ---------------- over the reals: the reported log-determinants are exact ---------------- *)
Open Scope R_scope.

(* logit pre-processing, one coordinate, alpha in (0, 1/2), x in [0, 1] *)
Theorem C15_logit_inverse : forall a x u, 0 < a < 1/2 -> 0 <= x <= 1 ->
  (Rlogit_fwd1 a (Rlogit_bwd1 a x) = x /\ Rlogit_ldj1 a (Rlogit_bwd1 a x) = - Rlogit_ildj1 a x) /\
  (Rlogit_bwd1 a (Rlogit_fwd1 a u) = u /\ Rlogit_ildj1 a (Rlogit_fwd1 a u) = - Rlogit_ldj1 a u).
Proof. intros. split; [now apply logit_fwd_bwd1|now apply logit_bwd_fwd1]. Qed.

Theorem C15_logit_derivative : forall a x u, 0 < a < 1/2 -> 0 <= x <= 1 ->
  is_derive (Rlogit_bwd1 a) x (exp (Rlogit_ildj1 a x)) /\ is_derive (Rlogit_fwd1 a) u (exp (Rlogit_ldj1 a u)).
Proof. intros. split; [now apply logit_bwd_derive|now apply logit_fwd_derive]. Qed.

(* affine coupling / autoregressive coordinate: d/dx (x - t) e^{-s} = e^{-s} = exp(reported ildj term),
   d/du (u e^{s} + t) = e^{s} *)
Theorem C15_affine_derivative : forall t s x,
  is_derive (fun x => (x - t) * exp (- s)) x (exp (- s)) /\ is_derive (fun u => u * exp s + t) x (exp s).
Proof. intros. split; [apply affine_bwd_derive|apply affine_fwd_derive]. Qed.

(* BatchNorm coordinate, v = running_var + eps > 0: derivative = exp(weight - 0.5 log v) *)
Theorem C15_bn_derivative : forall w b m v x, 0 < v ->
  is_derive (fun x => (x - m) / sqrt v * exp w + b) x (exp (w - 1 / (1 + 1) * ln v)) /\
  is_derive (fun u => (u - b) * exp (- w) * sqrt v + m) x (exp (- w + 1 / (1 + 1) * ln v)).
Proof. intros. split; [now apply bn_bwd_derive|now apply bn_fwd_derive]. Qed.

(* ---------------- the determinant step (mathcomp matrices; the reals as a commutative ring) ---------------- *)
From mathcomp Require Import all_ssreflect all_fingroup all_algebra.
From DV Require Import Proofs.DetRank Proofs.FlowJacobian Proofs.FlowLogDet Proofs.MafCond Proofs.MafLogDet.

(* any commutative ring: if J i j = 0 whenever i <> j and rank i <= rank j then det J is the product of
   the diagonal (rank = position in the ordering: autoregressive; rank = 0/1 by the mask: coupling;
   constant rank: element-wise layers) *)
Theorem C15_det_rank_triangular : forall (K : comRingType) n (J : 'M[K]_n) (rank : 'I_n -> nat),
  (forall i j, i != j -> (rank i <= rank j)%N -> J i j = 0%R) -> (\det J = \prod_i J i i)%R.
Proof. exact det_ranked. Qed.

(* autoregressive layer, conditioner = ANY function whose outputs for coordinate i depend only on inputs of
   lower degree: every matrix of partial derivatives of apply_backward at x has determinant exp(ildj) *)
Theorem C15_ar_logdet : forall (n : nat) (deg : nat -> nat) (cond : condT R),
  (forall x x' i, length x = n -> length x' = n -> (i < n)%coq_nat ->
     (forall j, (j < n)%coq_nat -> (deg j < deg i)%coq_nat -> List.nth j x 0%R = List.nth j x' 0%R) ->
     List.nth i (fst (cond x)) 0%R = List.nth i (fst (cond x')) 0%R /\
     List.nth i (snd (cond x)) 0%R = List.nth i (snd (cond x')) 0%R) ->
  (forall i j, (i < n)%coq_nat -> (j < n)%coq_nat -> deg i = deg j -> i = j) ->
  forall (x : list R) (J : 'M[R_comRingType]_n), length x = n ->
  (forall i j : 'I_n, is_derive (partial (ar_map n cond) x i j) (List.nth j x 0%R) (J i j)) ->
  (\det J)%R = exp (snd (Rar_bwd n cond x)).
Proof. exact ar_logdet. Qed.

(* end to end for one MAF layer: the masked network with the masks of build_masks (ANY degree lists whose input degrees are
   a permutation: sequential, reversed or random orderings), any weights, biases, activations and scale activation *)
Theorem C15_maf_logdet : forall (d0 : list nat) (rest : list (list nat)) (Ls : list (mlayer R)) (sact : nat -> R -> R),
  List.map (@l_mask R) Ls = tile_last (build_masks (d0 :: rest)) ->
  (forall k, (k < length d0)%coq_nat -> List.In k d0) ->
  let n := length d0 in
  let cond := ar_cond R (IZR 0) (IZR 1) Rplus Rmult n Ls sact in
  forall (x : list R) (J : 'M[R_comRingType]_n), length x = n ->
  (forall i j : 'I_n, is_derive (partial (ar_map n cond) x i j) (List.nth j x 0%R) (J i j)) ->
  (\det J)%R = exp (snd (Rar_bwd n cond x)).
Proof. exact maf_logdet. Qed.

(* affine coupling layer (1d alternating / 2d checkerboard masks as 0/1 vectors), conditioner = ANY function *)
Theorem C15_coupling_logdet : forall (n : nat) (mask : nat -> bool) (cond : condT R)
  (x : list R) (J : 'M[R_comRingType]_n), length x = n ->
  (forall i j : 'I_n, is_derive (partial (cp_map n mask cond) x i j) (List.nth j x 0%R) (J i j)) ->
  (\det J)%R = exp (snd (Rcoupling_bwd true n (vec R n (fun i => if mask i then 1%R else 0%R))
                                               (vec R n (fun i => if mask i then 0%R else 1%R)) cond x)).
Proof. exact coupling_logdet. Qed.

(* additive coupling layer: unit-triangular Jacobian, reported log-det 0 *)
Theorem C15_coupling_additive_logdet : forall (n : nat) (mask : nat -> bool) (cond : condT R)
  (x : list R) (J : 'M[R_comRingType]_n), length x = n ->
  (forall i j : 'I_n, is_derive (partial (cpa_map n mask cond) x i j) (List.nth j x 0%R) (J i j)) ->
  (\det J)%R = exp (snd (Rcoupling_bwd false n (vec R n (fun i => if mask i then 1%R else 0%R))
                                                (vec R n (fun i => if mask i then 0%R else 1%R)) cond x)).
Proof. exact coupling_additive_logdet. Qed.

(* batch normalisation in evaluation mode (running variance + eps > 0): an element-wise map, diagonal Jacobian *)
Theorem C15_bn_logdet : forall (n : nat) (eps : R) (w b rvar rmean : list R),
  (forall i, (i < n)%coq_nat -> Rlt (IZR 0) (Rplus (List.nth i rvar (IZR 0)) eps)) ->
  forall (x : list R) (J : 'M[R_comRingType]_n), length x = n ->
  (forall i j : 'I_n, is_derive (partial (bn_map n eps w b rvar rmean) x i j) (List.nth j x 0%R) (J i j)) ->
  (\det J)%R = exp (snd (Rbn_bwd n eps w b rvar rmean x)).
Proof. exact bn_logdet. Qed.

(* logit preprocessing, alpha in (0, 1/2), data in the unit cube; the reported ildj includes the registered constant
   -dims*log(1 - 2 alpha) *)
Theorem C15_logit_logdet : forall (n : nat) (a : R), Rlt (IZR 0) a /\ Rlt a (Rdiv (IZR 1) (IZR 2)) ->
  forall (x : list R) (J : 'M[R_comRingType]_n), length x = n ->
  (forall i, (i < n)%coq_nat -> Rle (IZR 0) (List.nth i x (IZR 0)) /\ Rle (List.nth i x (IZR 0)) (IZR 1)) ->
  (forall i j : 'I_n, is_derive (partial (logit_map n a) x i j) (List.nth j x 0%R) (J i j)) ->
  (\det J)%R = exp (snd (Rlogit_bwd n a (Rlogit_ldjc n a) x)).
Proof. exact logit_logdet. Qed.

(* a flow is a composition: determinants multiply, the fixed permutations contribute +-1 *)
Theorem C15_det_chain : forall (K : comRingType) n (A B : 'M[K]_n), (\det (A *m B) = \det A * \det B)%R.
Proof. exact det_chain. Qed.
Theorem C15_det_permutation : forall (K : comRingType) n (s : 'S_n), (\det (perm_mx s : 'M[K]_n) = (-1) ^+ s)%R.
Proof. exact det_permutation. Qed.

Print Assumptions C15_masks_autoregressive.
Print Assumptions C15_masks_autoregressive_tiled.
Print Assumptions C15_masks_certificate_sound.
Print Assumptions C15_masks_complementary.
Print Assumptions C15_ordering_inverse.
Print Assumptions C15_squeeze_inverse.
Print Assumptions C15_perm_is_permutation.
Print Assumptions C15_coupling_inverse.
Print Assumptions C15_coupling_masks_ok.
Print Assumptions C15_channel_coupling_inverse.
Print Assumptions C15_conditioner_connectivity.
Print Assumptions C15_ar_inverse.
Print Assumptions C15_maf_layer_inverse.
Print Assumptions C15_ar_triangular.
Print Assumptions C15_flow_composition.
Print Assumptions C15_multiscale_composition.
Print Assumptions C15_bn_inverse.
Print Assumptions C15_logit_inverse.
Print Assumptions C15_logit_derivative.
Print Assumptions C15_affine_derivative.
Print Assumptions C15_bn_derivative.
Print Assumptions C15_det_rank_triangular.
Print Assumptions C15_ar_logdet.
Print Assumptions C15_coupling_logdet.
Print Assumptions C15_det_chain.
Print Assumptions C15_det_permutation.
Print Assumptions C15_bn_logdet.
Print Assumptions C15_logit_logdet.
Print Assumptions C15_maf_logdet.
Print Assumptions C15_coupling_additive_logdet.
