(* Properties/C10.v — structural marginalisation equals marginal inference. *)
From Coq Require Import List Arith ZArith Ring Bool.
From DV Require Import Model.Core Model.Clt Model.Leaves Model.Check Model.Marg
  Proofs.CoreFacts Proofs.HeapFacts Proofs.ToPcFacts Proofs.MargFacts Proofs.MargClt Proofs.MargValid.
Import ListNotations.

Section C10.
  Variable T : Type.
  Variables (t0 t1 : T) (tadd tmul : T -> T -> T).
  Hypothesis SRth : semi_ring_theory t0 t1 tadd tmul (@eq T).
  Variable dom : nat -> list Z.
  Let lval := leaf_val T t0 t1 tadd tmul.
  Let tbl := table T (leaf T).

  (* For every valid, normalised DAG table (shared sub-circuits included), every keep set K and every
     row whose cells outside K are missing: the marginalised-and-pruned circuit evaluates to the
     original circuit's value on that row — i.e. complete-evidence likelihood of the marginalised
     circuit = marginal likelihood of the original.  Chow-Liu leaves enter through `node_pre`, which
     asks the CLT handler (to_pc + marginalise + prune) to be value-preserving on the rows
     considered (discharged separately); for circuits without CLT leaves the premise is only
     "univariate leaves carry their variable as scope and sums have children". *)
  Theorem C10_eval : forall (K : list nat) (rowok : row -> Prop) (t : tbl),
      valid T t0 tadd dom (leaf T) lval t -> normalised T t0 t1 tadd (leaf T) lval t ->
      Forall (node_pre T t0 t1 tadd tmul K rowok) t -> 0 < length t ->
      forall res root, marginalize T t0 t1 tadd tmul K t = Some (res, root) ->
      forall r, outside_missing K rowok r ->
        val T t0 t1 tadd tmul (leaf T) lval res root r = val T t0 t1 tadd tmul (leaf T) lval t (length t - 1) r.
  Proof. exact (marginalize_eval T t0 t1 tadd tmul SRth dom). Qed.

  (* the result exists whenever the keep set passes the guard and meets the root scope *)
  Theorem C10_defined : forall (K : list nat) (rowok : row -> Prop) (t : tbl),
      valid T t0 tadd dom (leaf T) lval t -> normalised T t0 t1 tadd (leaf T) lval t ->
      Forall (node_pre T t0 t1 tadd tmul K rowok) t -> 0 < length t ->
      marg_guard K (nscope (nth (length t - 1) t (dummy_node T (leaf T)))) = MOk ->
      ~ disj K (scope_of T (leaf T) t (length t - 1)) ->
      exists res root, marginalize T t0 t1 tadd tmul K t = Some (res, root).
  Proof. exact (marginalize_defined T t0 t1 tadd tmul SRth dom). Qed.

  (* the invariant of the rebuilding pass, for every prefix of the table *)
  Theorem C10_pass_invariant : forall (K : list nat) (rowok : row -> Prop) (t : tbl),
      valid T t0 tadd dom (leaf T) lval t -> normalised T t0 t1 tadd (leaf T) lval t ->
      Forall (node_pre T t0 t1 tadd tmul K rowok) t ->
      MInv T t0 t1 tadd tmul K rowok t (marg_state T t0 t1 tadd tmul K t).
  Proof. exact (marg_inv T t0 t1 tadd tmul SRth dom). Qed.

  (* the premise about Chow-Liu leaves is discharged for every well-formed leaf (distinct binary
     variables = its scope, normalised CPT rows, equal root rows) on rows that are binary on its
     variables: to_pc + marginalise + prune returns a well-formed sub-table with the leaf's value *)
  Theorem C10_clt_handler : forall (K : list nat) (rowok : row -> Prop) (c : clt T),
      clt_wf T t0 t1 tadd dom c ->
      (forall r, rowok r -> binary_on (vars T (clt_tree T t0 c)) r) ->
      clt_handler_ok T t0 t1 tadd tmul K rowok c.
  Proof. exact (clt_handler_discharged T t0 t1 tadd tmul SRth dom). Qed.

  (* the result is a VALID circuit (children first, smooth sums, decomposable products) whose root scope is
     exactly the kept part of the original root scope — for every valid, normalised DAG table, including the
     sub-circuits spliced in for partly marginalised Chow-Liu leaves (premise node_pre_v, discharged below) *)
  Theorem C10_valid : forall (K : list nat) (rowok : row -> Prop) (t : tbl),
      valid T t0 tadd dom (leaf T) lval t -> normalised T t0 t1 tadd (leaf T) lval t ->
      Forall (node_pre T t0 t1 tadd tmul K rowok) t -> Forall (node_pre_v T t0 t1 tadd tmul dom K) t -> 0 < length t ->
      forall res root, marginalize T t0 t1 tadd tmul K t = Some (res, root) ->
      valid T t0 tadd dom (leaf T) lval res /\ root < length res /\
      forall v, In v (scope_of T (leaf T) res root) <-> In v (scope_of T (leaf T) t (length t - 1)) /\ In v K.
  Proof. exact (marginalize_valid T t0 t1 tadd tmul SRth dom). Qed.

  (* ... hence, the guard having accepted the kept set, a circuit over exactly the kept variables *)
  Theorem C10_scope_is_keep : forall (K : list nat) (rowok : row -> Prop) (t : tbl),
      valid T t0 tadd dom (leaf T) lval t -> normalised T t0 t1 tadd (leaf T) lval t ->
      Forall (node_pre T t0 t1 tadd tmul K rowok) t -> Forall (node_pre_v T t0 t1 tadd tmul dom K) t -> 0 < length t ->
      forall res root, marginalize T t0 t1 tadd tmul K t = Some (res, root) ->
      forall v, In v (scope_of T (leaf T) res root) <-> In v K.
  Proof. exact (marginalize_scope_is_keep T t0 t1 tadd tmul SRth dom). Qed.

  (* the validity premise about Chow-Liu leaves holds for every well-formed leaf *)
  Theorem C10_clt_handler_valid : forall (K : list nat) (c : clt T),
      clt_wf T t0 t1 tadd dom c -> clt_handler_valid T t0 t1 tadd tmul dom K c.
  Proof. intros K c. exact (clt_handler_valid_discharged T t0 t1 tadd tmul SRth dom K (fun _ => True) c). Qed.
End C10.

(* keep sets: empty, duplicated or out-of-scope sets are rejected, all others accepted *)
Theorem C10_guard : forall keep root_scope,
    marg_guard keep root_scope = MOk <->
    keep <> [] /\ NoDup keep /\ (forall v, In v keep -> In v root_scope).
Proof.
  intros keep sc. unfold marg_guard. destruct keep as [|k keep].
  - split; [discriminate | intros [H _]; congruence].
  - destruct (Clt.nodupb (k :: keep) && subsetb (k :: keep) sc) eqn:E.
    + apply andb_true_iff in E. destruct E as [E1 E2]. split; [intros _|reflexivity].
      split; [discriminate|]. split; [now apply nodupb_iff|].
      unfold subsetb in E2. rewrite forallb_forall in E2. intros v Hv. now apply memb_In', E2.
    + split; [discriminate|]. intros (_ & Hn & Hs). exfalso.
      apply andb_false_iff in E. destruct E as [E|E].
      * apply nodupb_iff in Hn. congruence.
      * assert (subsetb (k :: keep) sc = true); [|congruence].
        unfold subsetb. rewrite forallb_forall. intros v Hv. now apply memb_In', Hs.
Qed.

Print Assumptions C10_eval.
Print Assumptions C10_defined.
Print Assumptions C10_pass_invariant.
Print Assumptions C10_guard.
Print Assumptions C10_clt_handler.
Print Assumptions C10_valid.
Print Assumptions C10_scope_is_keep.
Print Assumptions C10_clt_handler_valid.
