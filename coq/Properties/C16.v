(* Properties/C16.v — RAT-SPNs: region graph, padding and un-padding index logic, completion,
   marginalisation, sum over completions and normalisation of every class output, sampler measure. *)
From Coq Require Import List Arith ZArith Bool Permutation Sorted Ring.
From DV Require Import Model.Core Model.Leaves Model.Sample Model.Rat Model.RatSample
  Proofs.SampleFacts Proofs.RatRegion Proofs.RatUnpad Proofs.RatMarg Proofs.RatLift Proofs.RatSampleFacts.
Import ListNotations.

(* For every feature count n, every depth with 2^depth <= n (the constructor's admission test
   depth <= int(log2 n)) and EVERY answer of the permutation oracle: at every level consecutive region
   pairs partition their parent into two non-empty sorted regions; the 2^depth leaf regions partition
   0..n-1; every leaf has dimension-1 or dimension variables and at least one; the number of dummy
   positions equals pad = -n mod 2^depth. *)
Theorem C16_regions_partition : forall n perms,
  adm [items n] perms -> 2 ^ length perms <= n ->
  let d := length perms in
  let leaves := leaves_of [items n] perms in
  levels_ok [items n] perms /\
  Permutation (concat leaves) (items n) /\
  length leaves = 2 ^ d /\
  Forall (fun r => 1 <= length r /\ length r <= dim_of n d /\ dim_of n d <= S (length r)) leaves /\
  list_sum (map (fun r => dim_of n d - length r) leaves) = pad_of n d.
Proof. intros n perms Ha Hn. split; [exact (regions_levels n perms Ha Hn) | exact (regions_leaves n perms Ha Hn)]. Qed.

(* un-padding (RegionGraphLayer.unpad_samples) for one repetition, for ANY sorting permutation the
   argsort may return (ties between a variable and its dummies in any order): the row has the input
   width n and cell v is the sample taken at the real (non-dummy) mask position holding variable v *)
Theorem C16_unpad : forall (A : Type) (dflt : A) n perms,
  adm [items n] perms -> 2 ^ length perms <= n ->
  let d := length perms in
  let D := dim_of n d in
  let regs := leaves_of [items n] perms in
  let m := concat (mask_of D regs) in
  let pm := concat (padm_of D regs) in
  forall inv, Permutation inv (seq 0 (length m)) -> StronglySorted le (gather 0 m inv) ->
  forall x : list A,
  let out := unpad dflt (pad_of n d) x inv (gather false pm inv) in
  length out = n /\
  forall v, v < n -> exists p, p < length m /\ nth p m 0 = v /\ nth p pm false = false /\
                               nth v out dflt = nth p x dflt.
Proof. exact @unpad_rat. Qed.

(* the admissibility test of the recorded argsort that every run evaluates is sound *)
Theorem C16_argsort_check_sound : forall m inv, is_argsort_b m inv = true ->
  Permutation inv (seq 0 (length m)) /\ StronglySorted le (gather 0 m inv).
Proof. exact is_argsort_sound. Qed.

(* completion (torch.where(isnan(x), samples, x)): same width, no missing cell left, observed cells
   unchanged, missing cells take the un-padded sample of their own variable *)
Theorem C16_mpe_preserves : forall x s, length s = length x ->
  length (fill x s) = length x /\
  forall v, v < length x ->
    nth v (fill x s) None <> None /\
    (nth v x None <> None -> nth v (fill x s) None = nth v x None) /\
    (nth v x None = None -> nth v (fill x s) None = Some (nth v s 0%Z)).
Proof. exact fill_spec. Qed.

(* top-down pass (RootLayer/SumLayer/ProductLayer .mpe/.sample index arithmetic, any weights, any
   number type, any comparison): the selected leaf regions are exactly the 2^depth consecutive regions
   g*2^depth .. of ONE repetition g, each once and in order — so idx_group[:,0] // 2^depth is that
   repetition and the flattened samples line up with its flattened mask *)
Theorem C16_topdown_groups : forall (T : Type) (t0 : T) (tadd tmul : T -> T -> T) (tleb tnear : T -> T -> bool)
  Ws x wy, exists g,
  map fst (fst (inner_down T t0 tadd tmul tleb tnear Ws x wy)) = seq (g * 2 ^ S (length Ws)) (2 ^ S (length Ws)).
Proof. exact inner_down_groups. Qed.

(* (name kept for the MANIFEST claim; no longer partial: C16_marginal below is the full statement)
   The per-node steps behind C16_marginal, for every commutative semiring (`good sc f` = f ignores cells
   outside sc and sums out a missing cell of sc): (1) one entry x1[a]*x2[b] of ProductLayer over disjoint
   scopes, (2) one output node of SumLayer/RootLayer (ANY weights) over nodes of a common scope, (3) a
   univariate leaf factor with a table normalised over the variable's domain (NaN -> one). *)
Theorem C16_marginal_partial : forall (T : Type) (t0 t1 : T) (tadd tmul : T -> T -> T),
  semi_ring_theory t0 t1 tadd tmul (@eq T) -> forall dom : nat -> list Z,
  (forall sa sb f g, good T t0 tadd dom sa f -> good T t0 tadd dom sb g -> (forall v, In v sa -> ~ In v sb) ->
     good T t0 tadd dom (sa ++ sb) (fun r => tmul (f r) (g r))) /\
  (forall sc w fs, Forall (good T t0 tadd dom sc) fs ->
     good T t0 tadd dom sc (fun r => dotT T t0 tadd tmul w (map (fun f => f r) fs))) /\
  (forall v tab, sumT T t0 tadd (map (lookup T t0 tab) (dom v)) = t1 ->
     good T t0 tadd dom [v] (fun r => cell T t0 t1 tab (r v))).
Proof.
  intros T t0 t1 tadd tmul SRth dom. split; [|split].
  - exact (good_mul T t0 t1 tadd tmul SRth dom).
  - exact (good_dot T t0 t1 tadd tmul SRth dom).
  - exact (good_cell T t0 t1 tadd tmul SRth dom).
Qed.

Section C16_semiring.
  Variable T : Type.
  Variables (t0 t1 : T) (tadd tmul : T -> T -> T).
  Hypothesis SRth : semi_ring_theory t0 t1 tadd tmul (@eq T).
  Variable dom : nat -> list Z.

  (* Every class output of the model that RatSpn.__init__ + forward build (rat_model: leaf regions from the
     oracle permutations, masks, pad masks, base layer, Product,(Sum,Product)*, root), for every feature
     count n, depth d = 1 + number of sum layers with 2^d <= n, any number of repetitions, EVERY admissible
     answer of the permutation oracle, leaf tables of the right shape that are normalised over the variables'
     domains (channels per region arbitrary), sum layers with one weight block per region (ANY weights, any
     numbers of sum nodes) and ANY root weights:
     (1) cells of variables outside 0..n-1 are ignored; (2) a NaN cell of any variable v < n is summed out
     exactly; (3) with any duplicate-free list of NaN variables the value is the sum over all their completions. *)
  Theorem C16_marginal : forall n d permss tabs Ws Wroot,
    d = S (length Ws) -> 2 ^ d <= n ->
    Forall (fun perms => length perms = d /\ adm [items n] perms) permss ->
    length tabs = length permss * 2 ^ d -> tabs_ok T t0 t1 tadd dom (dim_of n d) tabs ->
    wlen T (length permss) Ws ->
    forall c, let out := fun r => nth c (rat_model T t0 t1 tadd tmul n d permss tabs Ws Wroot r) t0 in
    (forall r v x, n <= v -> out (upd r v x) = out r) /\
    (forall r v, v < n -> r v = None ->
       out r = sumT T t0 tadd (map (fun x => out (upd r v (Some x))) (dom v))) /\
    (forall vs, NoDup vs -> forall r, (forall v, In v vs -> v < n /\ r v = None) ->
       out r = sum_compl T t0 tadd dom vs out r).
  Proof.
    intros n d permss tabs Ws Wroot Hd Hn Hp Hl Hok Hw c out.
    pose proof (rat_good T t0 t1 tadd tmul SRth dom n d permss tabs Ws Wroot Hd Hn Hp Hl Hok Hw c) as G.
    change (good T t0 tadd dom (items n) out) in G. pose proof G as [GL GM].
    split; [|split].
    - intros r v x Hv. apply (GL r v x). intro Hin. apply items_in in Hin. exact (Nat.lt_irrefl _ (Nat.lt_le_trans _ _ _ Hin Hv)).
    - intros r v Hv Hnone. apply (GM r v); [|exact Hnone]. now apply items_in.
    - intros vs Hnd r Hall. apply (good_iter T t0 tadd dom (items n) out G vs Hnd r).
      intros v Hin. destruct (Hall v Hin) as [Hv Hnone]. split; [|exact Hnone]. now apply items_in.
  Qed.

  (* With the weight shapes RatSpn.__init__ allocates (wshape: one block per region, in_nodes = square of
     the child node count, root rows of length repetitions * in_nodes), every weight row summing to one and B
     channels per leaf region: the all-NaN input has value one at every class, and the values of every class
     sum to one over all complete assignments of 0..n-1. *)
  Theorem C16_normalised : forall n d permss B tabs Ws Wroot,
    d = S (length Ws) -> 2 ^ d <= n ->
    Forall (fun perms => length perms = d /\ adm [items n] perms) permss ->
    length tabs = length permss * 2 ^ d -> tabs_ok T t0 t1 tadd dom (dim_of n d) tabs ->
    Forall (fun tr => length tr = B) tabs ->
    wshape T t0 t1 tadd (length permss) B Ws Wroot ->
    forall c, c < length Wroot ->
    let out := fun r => nth c (rat_model T t0 t1 tadd tmul n d permss tabs Ws Wroot r) t0 in
    (forall r, (forall v, r v = None) -> out r = t1) /\
    sum_compl T t0 tadd dom (items n) out row_none = t1.
  Proof.
    intros n d permss B tabs Ws Wroot Hd Hn Hp Hl Hok Hb Hw c Hc out.
    assert (H1 : forall r, (forall v, r v = None) -> out r = t1).
    { intros r Hr. exact (rat_all_missing T t0 t1 tadd tmul SRth n d permss B tabs Ws Wroot r Hd Hn Hp Hl Hb Hw Hr c Hc). }
    split; [exact H1|].
    pose proof (rat_good T t0 t1 tadd tmul SRth dom n d permss tabs Ws Wroot Hd Hn Hp Hl Hok
                         (wshape_wlen T t0 t1 tadd _ Ws Wroot B Hw) c) as G.
    change (good T t0 tadd dom (items n) out) in G.
    rewrite <- (good_iter T t0 tadd dom (items n) out G (items n) (seq_NoDup n 0) row_none).
    - apply H1. reflexivity.
    - intros v Hv. split; [exact Hv | reflexivity].
  Qed.

  (* The sampler's measure (Model/RatSample.v: root and sum layers draw their child with the softmax
     weights, a product layer descends into both child regions with offsets o // K and o % K, the base layer
     draws every position of the selected (region, channel), the draws of dummy positions are dropped and a
     real position writes the cell of its variable — C16_unpad) for class c, any admissible architecture,
     ANY weights (normalised or not), leaf tables with duplicate-free keys whose masses sum to one:
     the mass of the outcomes that equal a complete row x on 0..n-1 is exactly the model's value of x at
     class c, and no outcome writes a cell outside 0..n-1.  (With C16_normalised the measure of a normalised
     model is therefore the model's distribution.) *)
  Theorem C16_sample_measure : forall n d permss tabs Ws Wroot,
    d = S (length Ws) -> 2 ^ d <= n ->
    Forall (fun perms => length perms = d /\ adm [items n] perms) permss ->
    length tabs = length permss * 2 ^ d -> stabs_ok T t0 t1 tadd (dim_of n d) tabs ->
    wlen T (length permss) Ws ->
    forall c (z : nat -> Z),
    let x : row := fun v => Some (z v) in
    let M := nth c (rat_meas T t1 tmul n d permss tabs Ws Wroot) [] in
    mass_at T t0 tadd M row_none (items n) x = nth c (rat_model T t0 t1 tadd tmul n d permss tabs Ws Wroot x) t0 /\
    keys_in T M (items n).
  Proof.
    intros n d permss tabs Ws Wroot Hd Hn Hp Hl Hok Hw c z x M.
    destruct (rat_sample_good T t0 t1 tadd tmul SRth z n d permss tabs Ws Wroot Hd Hn Hp Hl Hok Hw c) as [K E].
    split; [exact E | exact K].
  Qed.
End C16_semiring.

Print Assumptions C16_regions_partition.
Print Assumptions C16_unpad.
Print Assumptions C16_argsort_check_sound.
Print Assumptions C16_mpe_preserves.
Print Assumptions C16_topdown_groups.
Print Assumptions C16_marginal_partial.
Print Assumptions C16_marginal.
Print Assumptions C16_normalised.
Print Assumptions C16_sample_measure.
