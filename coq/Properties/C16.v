(* Properties/C16.v — RAT-SPNs: region graph, padding and un-padding index logic, completion,
   per-node marginalisation steps.
   NOT proved here (tied numerically on every run, see docs/notes_C16.md): the level-wise induction that
   lifts C16_marginal_partial to every class output of rat_forward (C16_marginal, hence normalisation),
   and the sampler law (C16_sample_measure). *)
From Coq Require Import List Arith ZArith Bool Permutation Sorted Ring.
From DV Require Import Model.Core Model.Leaves Model.Rat Proofs.RatRegion Proofs.RatUnpad Proofs.RatMarg.
Import ListNotations.

(* For every feature count n, every depth with 2^depth <= n (the constructor's admission test
   depth <= int(log2 n)) and EVERY answer of the permutation oracle: at every level consecutive region
   pairs partition their parent into two non-empty sorted regions; the 2^depth leaf regions partition
   0..n-1; every leaf has dimension-1 or dimension variables and at least one; the number of dummy
   positions equals pad = -n mod 2^depth. *)
Theorem C16_regions_partition : forall n perms,
  adm [items n] perms -> 2 ^ length perms <= n ->
  let d := length perms in
  let leaves := leaves_of [items n] perms in
  levels_ok [items n] perms /\
  Permutation (concat leaves) (items n) /\
  length leaves = 2 ^ d /\
  Forall (fun r => 1 <= length r /\ length r <= dim_of n d /\ dim_of n d <= S (length r)) leaves /\
  list_sum (map (fun r => dim_of n d - length r) leaves) = pad_of n d.
Proof. intros n perms Ha Hn. split; [exact (regions_levels n perms Ha Hn) | exact (regions_leaves n perms Ha Hn)]. Qed.

(* un-padding (RegionGraphLayer.unpad_samples) for one repetition, for ANY sorting permutation the
   argsort may return (ties between a variable and its dummies in any order): the row has the input
   width n and cell v is the sample taken at the real (non-dummy) mask position holding variable v *)
Theorem C16_unpad : forall (A : Type) (dflt : A) n perms,
  adm [items n] perms -> 2 ^ length perms <= n ->
  let d := length perms in
  let D := dim_of n d in
  let regs := leaves_of [items n] perms in
  let m := concat (mask_of D regs) in
  let pm := concat (padm_of D regs) in
  forall inv, Permutation inv (seq 0 (length m)) -> StronglySorted le (gather 0 m inv) ->
  forall x : list A,
  let out := unpad dflt (pad_of n d) x inv (gather false pm inv) in
  length out = n /\
  forall v, v < n -> exists p, p < length m /\ nth p m 0 = v /\ nth p pm false = false /\
                               nth v out dflt = nth p x dflt.
Proof. exact @unpad_rat. Qed.

(* the admissibility test of the recorded argsort that every run evaluates is sound *)
Theorem C16_argsort_check_sound : forall m inv, is_argsort_b m inv = true ->
  Permutation inv (seq 0 (length m)) /\ StronglySorted le (gather 0 m inv).
Proof. exact is_argsort_sound. Qed.

(* completion (torch.where(isnan(x), samples, x)): same width, no missing cell left, observed cells
   unchanged, missing cells take the un-padded sample of their own variable *)
Theorem C16_mpe_preserves : forall x s, length s = length x ->
  length (fill x s) = length x /\
  forall v, v < length x ->
    nth v (fill x s) None <> None /\
    (nth v x None <> None -> nth v (fill x s) None = nth v x None) /\
    (nth v x None = None -> nth v (fill x s) None = Some (nth v s 0%Z)).
Proof. exact fill_spec. Qed.

(* top-down pass (RootLayer/SumLayer/ProductLayer .mpe/.sample index arithmetic, any weights, any
   number type, any comparison): the selected leaf regions are exactly the 2^depth consecutive regions
   g*2^depth .. of ONE repetition g, each once and in order — so idx_group[:,0] // 2^depth is that
   repetition and the flattened samples line up with its flattened mask *)
Theorem C16_topdown_groups : forall (T : Type) (t0 : T) (tadd tmul : T -> T -> T) (tleb tnear : T -> T -> bool)
  Ws x wy, exists g,
  map fst (fst (inner_down T t0 tadd tmul tleb tnear Ws x wy)) = seq (g * 2 ^ S (length Ws)) (2 ^ S (length Ws)).
Proof. exact inner_down_groups. Qed.

(* PARTIAL (what is missing: the induction over the layer list that applies these three steps to every
   entry of pair_up / sum_layer / root_layer / base_layer of Model/Rat.v, using C16_regions_partition for
   the disjointness of the regions 2k, 2k+1; until then C16_marginal and normalisation are tied, not
   proved).  For every commutative semiring, `good sc f` = f ignores cells outside sc and sums out a
   missing cell of sc:  (1) one entry x1[a]*x2[b] of ProductLayer over disjoint scopes, (2) one output node
   of SumLayer/RootLayer (ANY weights) over nodes of a common scope, (3) a univariate leaf factor with a
   table normalised over the variable's domain (NaN -> one). *)
Theorem C16_marginal_partial : forall (T : Type) (t0 t1 : T) (tadd tmul : T -> T -> T),
  semi_ring_theory t0 t1 tadd tmul (@eq T) -> forall dom : nat -> list Z,
  (forall sa sb f g, good T t0 tadd dom sa f -> good T t0 tadd dom sb g -> (forall v, In v sa -> ~ In v sb) ->
     good T t0 tadd dom (sa ++ sb) (fun r => tmul (f r) (g r))) /\
  (forall sc w fs, Forall (good T t0 tadd dom sc) fs ->
     good T t0 tadd dom sc (fun r => dotT T t0 tadd tmul w (map (fun f => f r) fs))) /\
  (forall v tab, sumT T t0 tadd (map (lookup T t0 tab) (dom v)) = t1 ->
     good T t0 tadd dom [v] (fun r => cell T t0 t1 tab (r v))).
Proof.
  intros T t0 t1 tadd tmul SRth dom. split; [|split].
  - exact (good_mul T t0 t1 tadd tmul SRth dom).
  - exact (good_dot T t0 t1 tadd tmul SRth dom).
  - exact (good_cell T t0 t1 tadd tmul SRth dom).
Qed.

Print Assumptions C16_regions_partition.
Print Assumptions C16_unpad.
Print Assumptions C16_argsort_check_sound.
Print Assumptions C16_mpe_preserves.
Print Assumptions C16_topdown_groups.
Print Assumptions C16_marginal_partial.
