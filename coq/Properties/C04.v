(* Properties/C04.v — every structure learner returns a valid, normalised circuit.
   The learners' clustering / scoring machinery is not modelled: each returned circuit is checked per
   run by the certificate checker below, whose soundness (and what it implies) is proved here once
   for all circuits; the LearnSPN task queue itself is covered by Properties/C05.v. *)
From Coq Require Import List Arith ZArith Ring Bool.
From Coq Require Import Permutation.
From DV Require Import Model.Core Model.Clt Model.Leaves Model.Check Model.LearnSpn
  Proofs.CoreFacts Proofs.CheckFacts Proofs.LearnSpnFacts Proofs.LearnSpnScope.
Import ListNotations.

Section C04.
  Variable T : Type.
  Variables (t0 t1 : T) (tadd tmul : T -> T -> T).
  Hypothesis SRth : semi_ring_theory t0 t1 tadd tmul (@eq T).
  Variable teqb : T -> T -> bool.
  Hypothesis teqb_sound : forall a b, teqb a b = true -> a = b.
  Let lval := leaf_val T t0 t1 tadd tmul.

  (* the certificate evaluated on every learned circuit is sound: smooth, decomposable,
     children-first, weights and leaves normalised *)
  Theorem C04_checker_sound : forall doms (t : table T (leaf T)),
      valid_b T t0 t1 tadd teqb doms [] t = true ->
      valid T t0 tadd (Check.dom doms) (leaf T) lval t /\ normalised T t0 t1 tadd (leaf T) lval t.
  Proof. exact (valid_b_sound T t0 t1 tadd tmul SRth teqb teqb_sound). Qed.

  (* hence a normalised distribution: total mass one over the domain of the root scope *)
  Theorem C04_normalised : forall doms (t : table T (leaf T)),
      valid_b T t0 t1 tadd teqb doms [] t = true -> forall i, i < length t ->
      NoDup (scope_of T (leaf T) t i) ->
      sum_compl T t0 tadd (Check.dom doms) (scope_of T (leaf T) t i)
        (val T t0 t1 tadd tmul (leaf T) lval t i) row_none = t1.
  Proof.
    intros doms t H i Hi Hnd.
    destruct (valid_b_sound T t0 t1 tadd tmul SRth teqb teqb_sound doms t H) as [Hv Hn].
    now apply (total_mass_one T t0 t1 tadd tmul SRth (Check.dom doms) (leaf T) lval t).
  Qed.
End C04.

(* ---- LearnSPN itself (the task-queue machine of Model/LearnSpn.v, every data-dependent decision an
   oracle answer): for EVERY answer list the accounting invariant holds at every reachable state ... *)
Theorem C04_learnspn_accounted : forall min_rows min_cols rows cols answers,
    accounted (run min_rows min_cols answers (init rows cols)).
Proof. exact run_accounted. Qed.

(* ... so when learn_spn returns, every sum's children carry the sum's own scope (smoothness) and its
   row groups, every product's children carry its rows and its column groups, in order *)
Theorem C04_learnspn_structure : forall min_rows min_cols rows cols answers,
    let s := run min_rows min_cols answers (init rows cols) in
    queue s = [] -> forall p e, p < length (arena s) -> expected (nth p (arena s) dummy_anode) = Some e ->
    kid_info (arena s) (nth p (arena s) dummy_anode) = e.
Proof. exact run_structure. Qed.

(* ... and for well-formed answers (one flag per column, one label per split item) the row groups of
   every sum partition its rows (positive weights summing to one) and the column groups of every
   product partition its scope (decomposability) *)
Theorem C04_learnspn_partitions : forall min_rows min_cols s ans, wfs s ->
    (match queue s with t :: _ => answer_wf min_rows min_cols t ans | [] => True end) ->
    Forall parts_ok (arena s) -> Forall parts_ok (arena (step min_rows min_cols s ans)).
Proof. exact step_parts. Qed.
Theorem C04_group_partitions : forall xs ls, length ls = length xs -> Permutation (concat (group xs ls)) xs.
Proof. exact group_perm. Qed.

Print Assumptions C04_checker_sound.
Print Assumptions C04_learnspn_accounted.
Print Assumptions C04_learnspn_structure.
Print Assumptions C04_learnspn_partitions.
Print Assumptions C04_group_partitions.
Print Assumptions C04_normalised.
