(* Properties/C04.v — every structure learner returns a valid, normalised circuit.
   The learners' clustering / scoring machinery is not modelled: each returned circuit is checked per
   run by the certificate checker below, whose soundness (and what it implies) is proved here once
   for all circuits; the LearnSPN task queue itself is covered by Properties/C05.v. *)
From Coq Require Import List Arith ZArith Ring Bool.
From DV Require Import Model.Core Model.Clt Model.Leaves Model.Check Proofs.CoreFacts Proofs.CheckFacts.
Import ListNotations.

Section C04.
  Variable T : Type.
  Variables (t0 t1 : T) (tadd tmul : T -> T -> T).
  Hypothesis SRth : semi_ring_theory t0 t1 tadd tmul (@eq T).
  Variable teqb : T -> T -> bool.
  Hypothesis teqb_sound : forall a b, teqb a b = true -> a = b.
  Let lval := leaf_val T t0 t1 tadd tmul.

  (* the certificate evaluated on every learned circuit is sound: smooth, decomposable,
     children-first, weights and leaves normalised *)
  Theorem C04_checker_sound : forall doms (t : table T (leaf T)),
      valid_b T t0 t1 tadd teqb doms [] t = true ->
      valid T t0 tadd (Check.dom doms) (leaf T) lval t /\ normalised T t0 t1 tadd (leaf T) lval t.
  Proof. exact (valid_b_sound T t0 t1 tadd tmul SRth teqb teqb_sound). Qed.

  (* hence a normalised distribution: total mass one over the domain of the root scope *)
  Theorem C04_normalised : forall doms (t : table T (leaf T)),
      valid_b T t0 t1 tadd teqb doms [] t = true -> forall i, i < length t ->
      NoDup (scope_of T (leaf T) t i) ->
      sum_compl T t0 tadd (Check.dom doms) (scope_of T (leaf T) t i)
        (val T t0 t1 tadd tmul (leaf T) lval t i) row_none = t1.
  Proof.
    intros doms t H i Hi Hnd.
    destruct (valid_b_sound T t0 t1 tadd tmul SRth teqb teqb_sound doms t H) as [Hv Hn].
    now apply (total_mass_one T t0 t1 tadd tmul SRth (Check.dom doms) (leaf T) lval t).
  Qed.
End C04.

Print Assumptions C04_checker_sound.
Print Assumptions C04_normalised.
