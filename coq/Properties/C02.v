(* Properties/C02.v — marginal queries (missing cells) equal the sum over all completions. *)
From Coq Require Import List Arith ZArith Ring.
From DV Require Import Model.Core Model.Clt Model.Leaves
  Proofs.CoreFacts Proofs.CltFacts Proofs.LeafFacts Proofs.CltGather.
Import ListNotations.

Section C02.
  Variable T : Type.
  Variables (t0 t1 : T) (tadd tmul : T -> T -> T).
  Hypothesis SRth : semi_ring_theory t0 t1 tadd tmul (@eq T).
  Variable dom : nat -> list Z.
  Variable leaf : Type.
  Variable leaf_val : leaf -> row -> T.
  Let table := table T leaf.
  Let val := val T t0 t1 tadd tmul leaf leaf_val.

  (* at every node of every valid DAG table, for every row and every duplicate-free list of
     in-scope variables that are missing in the row: the value equals the sum, over all
     completions of those variables, of the values of the completed rows *)
  Theorem C02_marginal : forall t : table, valid T t0 tadd dom leaf leaf_val t ->
      forall i, i < length t -> forall vs, NoDup vs ->
      forall r, (forall v, In v vs -> In v (scope_of T leaf t i) /\ r v = None) ->
      val t i r = sum_compl T t0 tadd dom vs (val t i) r.
  Proof. exact (iter_marg T t0 t1 tadd tmul SRth dom leaf leaf_val). Qed.

  (* a cell outside a node's scope never influences it *)
  Theorem C02_local : forall t : table, valid T t0 tadd dom leaf leaf_val t ->
      forall i, i < length t -> forall r v c, ~ In v (scope_of T leaf t i) -> val t i (upd r v c) = val t i r.
  Proof. exact (val_local T t0 t1 tadd tmul dom leaf leaf_val). Qed.

  Theorem C02_all_missing_one : forall t : table,
      valid T t0 tadd dom leaf leaf_val t -> normalised T t0 t1 tadd leaf leaf_val t ->
      forall i, i < length t -> forall r, (forall v, In v (scope_of T leaf t i) -> r v = None) -> val t i r = t1.
  Proof. exact (val_all_missing T t0 t1 tadd tmul SRth dom leaf leaf_val). Qed.

  (* Chow-Liu trees: leaves-to-root message passing marginalises exactly (one variable at a
     time; C02_marginal iterates it inside circuits through the leaf obligation below) *)
  Theorem C02_clt_marginal : forall t : ctree T, NoDup (vars T t) -> forall pv r v,
      In v (vars T t) -> r v = None ->
      up T t0 t1 tadd tmul t pv r =
      sumT T t0 tadd (map (fun x => up T t0 t1 tadd tmul t pv (upd r v (Some x))) dom2).
  Proof. exact (up_marg1 T t0 t1 tadd tmul SRth). Qed.

  Theorem C02_clt_leaf_obligation : forall (c : clt T) sc,
      NoDup (vars T (clt_tree T t0 c)) -> (forall v, In v sc -> In v (vars T (clt_tree T t0 c))) ->
      (forall v, In v sc -> dom v = dom2) ->
      leaf_marg T t0 tadd dom (Leaves.leaf T) (Leaves.leaf_val T t0 t1 tadd tmul) (LClt c) sc.
  Proof. exact (lclt_marg T t0 t1 tadd tmul SRth dom). Qed.

  (* batches that mix complete and incomplete rows are evaluated row by row *)
  Theorem C02_batch_rowwise : forall (c : clt T) (rows : list row),
      clt_batch T t0 t1 tadd tmul c rows = map (clt_lik T t0 t1 tadd tmul c) rows.
  Proof. exact (clt_batch_rowwise T t0 t1 tadd tmul). Qed.

  (* the code's vectorised full-evidence gather (used for rows without missing cells) IS leaves-to-root
     message passing on those rows, so BinaryCLT.log_likelihood evaluates every row — complete or
     not — to the message-passing value about which marginalisation is proved above *)
  Theorem C02_clt_gather_is_message_passing : forall c : clt T, clt_gwf T t0 c -> forall r,
      complete_on (cscope c) r = true -> clt_gather T t0 t1 tmul c r = clt_val T t0 t1 tadd tmul c r.
  Proof. exact (clt_gather_val T t0 t1 tadd tmul SRth). Qed.
  Theorem C02_clt_lik_is_message_passing : forall c : clt T, clt_gwf T t0 c -> forall r,
      clt_lik T t0 t1 tadd tmul c r = clt_val T t0 t1 tadd tmul c r.
  Proof. exact (clt_lik_val T t0 t1 tadd tmul SRth). Qed.
End C02.

Print Assumptions C02_marginal.
Print Assumptions C02_local.
Print Assumptions C02_all_missing_one.
Print Assumptions C02_clt_marginal.
Print Assumptions C02_clt_leaf_obligation.
Print Assumptions C02_batch_rowwise.
Print Assumptions C02_clt_gather_is_message_passing.
Print Assumptions C02_clt_lik_is_message_passing.
