(* Properties/C07.v — conditional sampling draws from the exact conditional distribution.
   The sampler is modelled (Model/Sample.v) as a finite measure over the cells it writes; the
   theorems identify that measure with the circuit's own distribution. *)
From Coq Require Import List Arith ZArith Ring Bool.
From DV Require Import Model.Core Model.Clt Model.Leaves Model.Mpe Model.Sample
  Proofs.CoreFacts Proofs.CltFacts Proofs.MpeFacts Proofs.SampleFacts.
Import ListNotations.

Section C07_circuit.
  Variable T : Type.
  Variables (t0 t1 : T) (tadd tmul : T -> T -> T).
  Hypothesis SRth : semi_ring_theory t0 t1 tadd tmul (@eq T).
  Variable dom : nat -> list Z.
  Variable leaf : Type.
  Variable leaf_val : leaf -> row -> T.
  Variable leaf_meas : leaf -> row -> meas T.
  Let valid := valid T t0 tadd dom leaf leaf_val.
  Let val := val T t0 t1 tadd tmul leaf leaf_val.
  Let meas_at := meas_at T t1 tmul leaf leaf_meas.
  Let leaves_ok := leaves_sample_ok T t0 tadd leaf leaf_val leaf_meas.

  (* for every valid DAG (any arity, any sharing), every node i, every evidence row r and EVERY row c:
     the mass of the sampler's outcomes that turn r into c (on the node's scope) is val(c) when c is a
     completion of r, and zero otherwise *)
  Theorem C07_measure : forall r (t : table T leaf), valid t -> leaves_ok r t ->
      forall i, i < length t -> forall c,
      mass_at T t0 tadd (meas_at t i r) r (scope_of T leaf t i) c =
      if compl_b r (scope_of T leaf t i) c then val t i c else t0.
  Proof. exact (smeas_mass T t0 t1 tadd tmul SRth dom leaf leaf_val leaf_meas). Qed.

  (* the total mass is the likelihood of the evidence, so the normalised law of a completion c is
     val(c) / val(r): the exact conditional distribution (the joint when nothing is observed) *)
  Theorem C07_total : forall r (t : table T leaf), valid t -> leaves_ok r t ->
      forall i, i < length t -> total T t0 tadd (meas_at t i r) = val t i r.
  Proof. exact (smeas_total T t0 t1 tadd tmul SRth dom leaf leaf_val leaf_meas). Qed.

  (* the mass a sum node sends down a branch with weight w to child k is w * val_k(r) *)
  Theorem C07_branch_law : forall r (t : table T leaf), valid t -> leaves_ok r t ->
      forall k, k < length t -> forall w,
      total T t0 tadd (scale T tmul w (meas_at t k r)) = tmul w (val t k r).
  Proof. exact (branch_mass T t0 t1 tadd tmul SRth dom leaf leaf_val leaf_meas). Qed.

  (* every outcome writes exactly the missing cells of the scope: observed cells keep their value,
     every cell of the scope is defined afterwards, cells outside the scope are untouched *)
  Theorem C07_fills_exactly_missing : forall r (t : table T leaf), valid t -> leaves_ok r t ->
      forall i, i < length t -> forall a, In a (map fst (meas_at t i r)) ->
      (forall v x, r v = Some x -> apply_assign a r v = Some x) /\
      (forall v, In v (scope_of T leaf t i) -> apply_assign a r v <> None) /\
      (forall v, ~ In v (scope_of T leaf t i) -> apply_assign a r v = r v).
  Proof. exact (sample_fills_exactly T t0 t1 tadd tmul dom leaf leaf_val leaf_meas). Qed.

  Theorem C07_writes_only_missing_cells : forall r (t : table T leaf), valid t -> leaves_ok r t ->
      forall i, i < length t -> forall a, In a (map fst (meas_at t i r)) ->
      forall v, In v (map fst a) <-> In v (scope_of T leaf t i) /\ r v = None.
  Proof. exact (smeas_keys T t0 t1 tadd tmul dom leaf leaf_val leaf_meas). Qed.
End C07_circuit.

Print Assumptions C07_measure.
Print Assumptions C07_total.
Print Assumptions C07_branch_law.
Print Assumptions C07_fills_exactly_missing.
Print Assumptions C07_writes_only_missing_cells.
