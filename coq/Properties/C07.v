(* Properties/C07.v — conditional sampling draws from the exact conditional distribution.
   The sampler is modelled (Model/Sample.v) as a finite measure over the cells it writes; the
   theorems identify that measure with the circuit's own distribution. *)
From Coq Require Import List Arith ZArith Ring Bool.
From DV Require Import Model.Core Model.Clt Model.Leaves Model.Mpe Model.Sample
  Proofs.CoreFacts Proofs.CltFacts Proofs.MpeFacts Proofs.SampleFacts Proofs.SampleClt.
Import ListNotations.

Section C07_circuit.
  Variable T : Type.
  Variables (t0 t1 : T) (tadd tmul : T -> T -> T).
  Hypothesis SRth : semi_ring_theory t0 t1 tadd tmul (@eq T).
  Variable dom : nat -> list Z.
  Variable leaf : Type.
  Variable leaf_val : leaf -> row -> T.
  Variable leaf_meas : leaf -> row -> meas T.
  Let valid := valid T t0 tadd dom leaf leaf_val.
  Let val := val T t0 t1 tadd tmul leaf leaf_val.
  Let meas_at := meas_at T t1 tmul leaf leaf_meas.
  Let leaves_ok := leaves_sample_ok T t0 tadd leaf leaf_val leaf_meas.

  (* for every valid DAG (any arity, any sharing), every node i, every evidence row r and EVERY row c:
     the mass of the sampler's outcomes that turn r into c (on the node's scope) is val(c) when c is a
     completion of r, and zero otherwise *)
  Theorem C07_measure : forall r (t : table T leaf), valid t -> leaves_ok r t ->
      forall i, i < length t -> forall c,
      mass_at T t0 tadd (meas_at t i r) r (scope_of T leaf t i) c =
      if compl_b r (scope_of T leaf t i) c then val t i c else t0.
  Proof. exact (smeas_mass T t0 t1 tadd tmul SRth dom leaf leaf_val leaf_meas). Qed.

  (* the total mass is the likelihood of the evidence, so the normalised law of a completion c is
     val(c) / val(r): the exact conditional distribution (the joint when nothing is observed) *)
  Theorem C07_total : forall r (t : table T leaf), valid t -> leaves_ok r t ->
      forall i, i < length t -> total T t0 tadd (meas_at t i r) = val t i r.
  Proof. exact (smeas_total T t0 t1 tadd tmul SRth dom leaf leaf_val leaf_meas). Qed.

  (* the mass a sum node sends down a branch with weight w to child k is w * val_k(r) *)
  Theorem C07_branch_law : forall r (t : table T leaf), valid t -> leaves_ok r t ->
      forall k, k < length t -> forall w,
      total T t0 tadd (scale T tmul w (meas_at t k r)) = tmul w (val t k r).
  Proof. exact (branch_mass T t0 t1 tadd tmul SRth dom leaf leaf_val leaf_meas). Qed.

  (* every outcome writes exactly the missing cells of the scope: observed cells keep their value,
     every cell of the scope is defined afterwards, cells outside the scope are untouched *)
  Theorem C07_fills_exactly_missing : forall r (t : table T leaf), valid t -> leaves_ok r t ->
      forall i, i < length t -> forall a, In a (map fst (meas_at t i r)) ->
      (forall v x, r v = Some x -> apply_assign a r v = Some x) /\
      (forall v, In v (scope_of T leaf t i) -> apply_assign a r v <> None) /\
      (forall v, ~ In v (scope_of T leaf t i) -> apply_assign a r v = r v).
  Proof. exact (sample_fills_exactly T t0 t1 tadd tmul dom leaf leaf_val leaf_meas). Qed.

  Theorem C07_writes_only_missing_cells : forall r (t : table T leaf), valid t -> leaves_ok r t ->
      forall i, i < length t -> forall a, In a (map fst (meas_at t i r)) ->
      forall v, In v (map fst a) <-> In v (scope_of T leaf t i) /\ r v = None.
  Proof. exact (smeas_keys T t0 t1 tadd tmul dom leaf leaf_val leaf_meas). Qed.
End C07_circuit.

Section C07_clt.
  Variable T : Type.
  Variables (t0 t1 : T) (tadd tmul : T -> T -> T).
  Hypothesis SRth : semi_ring_theory t0 t1 tadd tmul (@eq T).
  Variable tdiv : T -> T -> T.
  Hypothesis div_mul : forall a b, b <> t0 -> tmul (tdiv a b) b = a.     (* a partial division *)
  Let up := up T t0 t1 tadd tmul.
  Let cmeas := cmeas T t0 t1 tadd tmul tdiv.

  (* Chow-Liu trees, evidence anywhere (above and below the sampled variables): the root-to-leaves sampler
     with conditionals cpt_j[x_pa][k] * msg_j[k] / sum_k' (...) puts on every row c the mass P(c) / P(evidence)
     when c completes r and 0 otherwise (written without cancellation; `up t pv r` is P(evidence), non-zero by nz).
     nz: no normaliser met by the sampler on r is zero (true for strictly positive CPTs and in-domain evidence;
     decided by Sample.nzb, SampleClt.nzb_sound); supp: CPT entries outside {0,1} are zero (holds for every tree
     built from the array representation: SampleClt.supp_clt_tree). *)
  Theorem C07_clt_measure : forall t : ctree T, NoDup (vars T t) -> supp T t0 t ->
      forall pv r, nz T t0 t1 tadd tmul t pv r -> forall c,
      tmul (mass_at T t0 tadd (cmeas t pv r) r (vars T t) c) (up t pv r) =
      if compl_b r (vars T t) c then up t pv c else t0.
  Proof. exact (cmeas_mass T t0 t1 tadd tmul SRth tdiv div_mul). Qed.

  Theorem C07_clt_total : forall (t : ctree T) pv r, nz T t0 t1 tadd tmul t pv r ->
      tmul (total T t0 tadd (cmeas t pv r)) (up t pv r) = up t pv r.
  Proof. exact (cmeas_total T t0 t1 tadd tmul SRth tdiv div_mul). Qed.

  Theorem C07_clt_writes_only_missing_cells : forall (t : ctree T) pv r a, In a (map fst (cmeas t pv r)) ->
      forall v, In v (map fst a) <-> In v (vars T t) /\ r v = None.
  Proof. exact (cmeas_keys T t0 t1 tadd tmul tdiv). Qed.

  (* circuits over the built-in leaf families (table leaves: Bernoulli, Categorical, binned continuous leaves;
     Chow-Liu leaves): the leaf obligations of C07_measure are discharged from checkable side conditions *)
  Variable dom : nat -> list Z.
  Theorem C07_measure_builtin_leaves : forall r (t : table T (leaf T)),
      valid T t0 tadd dom (leaf T) (leaf_val T t0 t1 tadd tmul) t -> builtin_table_ok T t0 t1 tadd tmul r t ->
      forall i, i < length t -> forall c,
      mass_at T t0 tadd (meas_at T t1 tmul (leaf T) (lmeas T t0 t1 tadd tmul tdiv) t i r) r (scope_of T (leaf T) t i) c =
      if compl_b r (scope_of T (leaf T) t i) c
      then val T t0 t1 tadd tmul (leaf T) (leaf_val T t0 t1 tadd tmul) t i c else t0.
  Proof. exact (builtin_mass T t0 t1 tadd tmul SRth tdiv div_mul dom). Qed.

  Theorem C07_total_builtin_leaves : forall r (t : table T (leaf T)),
      valid T t0 tadd dom (leaf T) (leaf_val T t0 t1 tadd tmul) t -> builtin_table_ok T t0 t1 tadd tmul r t ->
      forall i, i < length t ->
      total T t0 tadd (meas_at T t1 tmul (leaf T) (lmeas T t0 t1 tadd tmul tdiv) t i r) =
      val T t0 t1 tadd tmul (leaf T) (leaf_val T t0 t1 tadd tmul) t i r.
  Proof. exact (builtin_total T t0 t1 tadd tmul SRth tdiv div_mul dom). Qed.
End C07_clt.

Print Assumptions C07_measure.
Print Assumptions C07_total.
Print Assumptions C07_branch_law.
Print Assumptions C07_fills_exactly_missing.
Print Assumptions C07_writes_only_missing_cells.
Print Assumptions C07_clt_measure.
Print Assumptions C07_clt_total.
Print Assumptions C07_clt_writes_only_missing_cells.
Print Assumptions C07_measure_builtin_leaves.
Print Assumptions C07_total_builtin_leaves.
