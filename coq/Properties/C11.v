(* Properties/C11.v — Chow-Liu fitting returns a maximum-mutual-information tree with exact CPTs.
   Model: Model/ChowLiu.v (estimate_priors_joints, compute_clt_parameters, predecessor vectors),
   instance and runner: Model/ChowLiuRun.v.  SciPy's spanning-tree routine is not modelled: its output
   is checked on every run by the certificates whose soundness is C11_optimal_certificate (every n) and
   C11_optimal_certificate_bruteforce (n <= 7). *)
From Coq Require Import List Arith ZArith QArith Qcanon Bool.
From DV Require Import Model.MstCert Proofs.MstCertFacts Model.Core Model.Clt Model.QcInst Model.ChowLiu Model.ChowLiuRun
  Proofs.ChowLiuFacts Proofs.ChowLiuTree.
Import ListNotations.
Local Open Scope nat_scope.

(* Every CPT row of the fit sums to one — for every binary data matrix (any number of rows and
   columns, constant or duplicated columns included), every alpha > 0, every variable i, every
   predecessor `par` (None = root) and every parent value l. *)
Theorem C11_cpt_rows_sum_one : forall (d : dat) (alpha : Qc), bin_cells d -> (0 < alpha)%Qc ->
  forall par i l, (qcpt d alpha par i l false + qcpt d alpha par i l true = 1)%Qc.
Proof. exact qcpt_rows_sum_one. Qed.

(* The entries are the smoothed empirical conditionals
     P(X_i = k | X_p = l) = (#{rows: x_i = k, x_p = l} + alpha) / (#{rows: x_p = l} + 2 alpha),
   the counts being taken row by row (cnt2, cnt1), not by the code's inclusion-exclusion formulas;
   the root row is the smoothed prior (#{x_i = k} + 2 alpha) / (n + 4 alpha). *)
Theorem C11_cpt_is_conditional : forall (d : dat) (alpha : Qc), bin_cells d -> (0 < alpha)%Qc ->
  forall p i l k, i <> p ->
  qcpt d alpha (Some p) i l k =
  ((zq (cnt2 d i k p l) + alpha) / (zq (cnt1 d p l) + two Qc 1 Qcplus * alpha))%Qc.
Proof. exact qcpt_is_conditional. Qed.
Theorem C11_cpt_root_is_prior : forall (d : dat) (alpha : Qc), bin_cells d -> (0 < alpha)%Qc ->
  forall i l k,
  qcpt d alpha None i l k =
  ((zq (cnt1 d i k) + two Qc 1 Qcplus * alpha) / (zq (nrows d) + four Qc 1 Qcplus * alpha))%Qc.
Proof. exact qcpt_root_is_prior. Qed.

(* The same three facts over ANY field, with the counts abstract (n, c1, c11 arbitrary field elements):
   only the three denominators must be non-zero.  Also: the re-normalisation step of
   compute_clt_parameters is the identity in exact arithmetic. *)
Section C11_field.
  Variable T : Type.
  Variables (t0 t1 : T) (tadd tmul tsub : T -> T -> T) (topp : T -> T) (tdiv : T -> T -> T) (tinv : T -> T).
  Hypothesis Fth : field_theory t0 t1 tadd tmul tsub topp tdiv tinv (@eq T).
  Variables (n alpha : T) (c1 : nat -> T) (c11 : nat -> nat -> T).
  Hypothesis Hden : den T t1 tadd tmul n alpha <> t0.
  Theorem C11_field_rows_sum_one : forall par i l,
    par_ok T t0 t1 tadd tmul tsub n alpha c1 par l ->
    tadd (cpt T t0 t1 tadd tmul tsub tdiv n alpha c1 c11 par i l false)
         (cpt T t0 t1 tadd tmul tsub tdiv n alpha c1 c11 par i l true) = t1.
  Proof. exact (cpt_rows_sum_one T t0 t1 tadd tmul tsub topp tdiv tinv Fth n alpha c1 c11 Hden). Qed.
  Theorem C11_field_renormalisation_is_identity : forall par i l k,
    par_ok T t0 t1 tadd tmul tsub n alpha c1 par l ->
    cpt T t0 t1 tadd tmul tsub tdiv n alpha c1 c11 par i l k =
    cpt_raw T t0 t1 tadd tmul tsub tdiv n alpha c1 c11 par i l k.
  Proof. exact (cpt_eq_raw T t0 t1 tadd tmul tsub topp tdiv tinv Fth n alpha c1 c11 Hden). Qed.
End C11_field.

(* The fitted tree is a normalised distribution whatever the data: for every binary matrix,
   alpha > 0, scope labelling and predecessor vector accepted by the two boolean checks that are
   evaluated on the implementation's tree on every run (is_tree: rooted spanning tree;
   clt_shape_ok: the tree rebuilt from the vector lists every scope variable once),
   (1) every query with all variables missing evaluates to one and
   (2) the values of all complete assignments sum to one. *)
Theorem C11_joint_normalised : forall (d : dat) (alpha : Qc), bin_cells d -> (0 < alpha)%Qc ->
  forall scope pars n root,
  is_tree n root pars = true -> clt_shape_ok Qc 0%Qc (qfit_clt d alpha scope pars) = true ->
  (forall r, (forall v, In v (vars Qc (clt_tree Qc 0%Qc (qfit_clt d alpha scope pars))) -> r v = None) ->
             qclt_val (qfit_clt d alpha scope pars) r = 1%Qc) /\
  (sum_compl Qc 0%Qc Qcplus (fun _ => dom2) (vars Qc (clt_tree Qc 0%Qc (qfit_clt d alpha scope pars)))
             (qclt_val (qfit_clt d alpha scope pars)) row_none = 1%Qc).
Proof. exact qfit_normalised_cert. Qed.

(* What the boolean check `is_tree n root p` (evaluated on the implementation's predecessor vector on
   every run, with root = the requested variable's position) guarantees, for every n:
   the root is in range, is the only entry without predecessor (so BinaryCLT's root is `root`),
   every other variable has a predecessor in range ... *)
Theorem C11_root : forall n root p, is_tree n root p = true ->
  root < n /\ par_of p root = None /\
  (forall i, i < n -> i <> root -> exists j, par_of p i = Some j /\ j < n) /\
  find_root p 0 = root.
Proof. exact is_tree_root. Qed.
(* ... and every variable reaches the root by following predecessors: p is a spanning tree. *)
Theorem C11_tree_spanning : forall n root p, is_tree n root p = true ->
  forall i, i < n -> exists k, k <= n /\ anc p k i = Some root.
Proof. exact is_tree_spanning. Qed.

(* brute_max is the maximum total weight over ALL spanning trees rooted at root, for every n and every
   integer weight matrix: an upper bound for every tree, attained by a tree, defined when root < n. *)
Theorem C11_brute_sound : forall (w : nat -> nat -> Z) n root p, is_tree n root p = true ->
  exists m, brute_max w n root = Some m /\ (weight w p <= m)%Z.
Proof. exact brute_sound. Qed.
Theorem C11_brute_is_max : forall (w : nat -> nat -> Z) n root, root < n ->
  exists m, brute_max w n root = Some m /\
            (forall p, is_tree n root p = true -> (weight w p <= m)%Z) /\
            (exists p, is_tree n root p = true /\ weight w p = m).
Proof. exact brute_max_is_max. Qed.

(* Optimality, brute-force certificate (n <= 7): an accepted predecessor vector is a spanning tree whose weight is
   within `slack` of every spanning tree's (the maximum is taken over all n^(n-1) parent vectors). *)
Theorem C11_optimal_certificate_bruteforce : forall (w : nat -> nat -> Z) n root p slack,
  opt_cert w n root p slack = true ->
  is_tree n root p = true /\
  forall p', is_tree n root p' = true -> (weight w p' <= weight w p + slack)%Z.
Proof. exact opt_cert_sound. Qed.

(* Optimality, cycle-property certificate (EVERY n, polynomial): if p is a rooted spanning tree in which every
   ordered pair (u, v) is connected by tree edges of weight >= w u v - eps, then every rooted spanning tree weighs
   at most weight p + (n-1) * eps.  Proof: for every threshold s the classes "connected by tree edges >= s"
   number n - #{tree edges >= s}; a rooted spanning tree has at most n - k edges inside a partition with k
   classes (each class has a vertex whose predecessor leaves it, or the root); edges of weight >= s + eps lie
   inside classes; the integer layer-cake identity turns the count dominance into the sum dominance.
   What stays per run: that the IMPLEMENTATION's tree passes (maximum_spanning_tree delegates to SciPy, which
   is not modelled) — the certificate is evaluated inside Coq on every generated case, whatever n; the weights
   are the implementation's float32 MI matrix (exact integers after a common scaling). *)
Theorem C11_optimal_certificate : forall (w : nat -> nat -> Z) n root p eps,
  mst_cert w p n root eps = true ->
  is_tree n root p = true /\
  forall p', is_tree n root p' = true -> (weight w p' <= weight w p + Z.of_nat (n - 1) * eps)%Z.
Proof.
  intros w n root p eps H. split; [exact (cert_tree w n root p eps H) | exact (mst_cert_sound w n root p eps H)].
Qed.

Print Assumptions C11_cpt_rows_sum_one.
Print Assumptions C11_cpt_is_conditional.
Print Assumptions C11_cpt_root_is_prior.
Print Assumptions C11_field_rows_sum_one.
Print Assumptions C11_field_renormalisation_is_identity.
Print Assumptions C11_joint_normalised.
Print Assumptions C11_root.
Print Assumptions C11_tree_spanning.
Print Assumptions C11_brute_sound.
Print Assumptions C11_brute_is_max.
Print Assumptions C11_optimal_certificate_bruteforce.
Print Assumptions C11_optimal_certificate.
