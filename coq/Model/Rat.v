(* Model/Rat.v — executable model of RAT-SPNs (C16).  Definitions only.
   Mirrors deeprob/utils/region.py (RegionGraph.random_layers / make_layers),
   deeprob/spn/layers/ratspn.py (RegionGraphLayer.__init__ / forward / unpad_samples / mpe,
   ProductLayer, SumLayer, RootLayer) and deeprob/spn/models/ratspn.py (RatSpn.forward / mpe).
   The random permutations drawn by random_layers and the result of torch.argsort are ORACLE
   ANSWERS (inputs of the model); the theorems quantify over every admissible answer. *)
From Coq Require Import List Arith ZArith Bool.
From DV Require Import Model.Core Model.Leaves.
Import ListNotations.

(* ------------------------------------------------------------------------------------------ *)
(* region graph: region.py                                                                      *)

Fixpoint insert (x : nat) (l : list nat) : list nat :=
  match l with
  | [] => [x]
  | y :: t => if x <=? y then x :: l else y :: insert x t
  end.
(* sorted(...) *)
Fixpoint isort (l : list nat) : list nat :=
  match l with [] => [] | x :: t => insert x (isort t) end.

(* random_layers, loop body: mid = len(r) // 2; permutation = random_state.permutation(r);
   p0 = sorted(permutation[:mid]); p1 = sorted(permutation[mid:]) *)
Definition split_region (r perm : list nat) : list (list nat) :=
  let mid := length r / 2 in [isort (firstn mid perm); isort (skipn mid perm)].

(* one level: regions.append(p0); regions.append(p1) for every r in layers[i*2] *)
Fixpoint split_level (regs perms : list (list nat)) : list (list nat) :=
  match regs, perms with
  | r :: regs', p :: perms' => split_region r p ++ split_level regs' perms'
  | _, _ => []
  end.

(* the region layers layers[0], layers[2], ... of random_layers (perms: one list of oracle
   permutations per level; depth = length perms) *)
Fixpoint region_levels (regs : list (list nat)) (perms : list (list (list nat)))
  : list (list (list nat)) :=
  match perms with
  | [] => [regs]
  | ps :: rest => regs :: region_levels (split_level regs ps) rest
  end.
Fixpoint leaves_of (regs : list (list nat)) (perms : list (list (list nat))) : list (list nat) :=
  match perms with
  | [] => regs
  | ps :: rest => leaves_of (split_level regs ps) rest
  end.

(* the partition layer between two region layers: partitions.append((p0, p1)) *)
Fixpoint partitions_of (regs : list (list nat)) : list (list nat * list nat) :=
  match regs with
  | a :: b :: tl => (a, b) :: partitions_of tl
  | _ => []
  end.

Definition items (n : nat) : list nat := seq 0 n.

(* make_layers: region layer h (h-th split level) over all repetitions; level 0 is the root *)
Definition make_level (n : nat) (permss : list (list (list (list nat)))) (h : nat) : list (list nat) :=
  match h with
  | 0 => [items n]
  | _ => concat (map (fun perms => nth h (region_levels [items n] perms) []) permss)
  end.
(* rg_layers[0] of RatSpn.__init__: the leaf regions of all repetitions *)
Definition rat_leaves (n : nat) (permss : list (list (list (list nat)))) : list (list nat) :=
  concat (map (leaves_of [items n]) permss).

(* ------------------------------------------------------------------------------------------ *)
(* padding and masks: RegionGraphLayer.__init__                                                 *)

Definition pad_of (n d : nat) : nat := (2 ^ d - n mod 2 ^ d) mod 2 ^ d.   (* -n % 2**d *)
Definition dim_of (n d : nat) : nat := (n + pad_of n d) / 2 ^ d.

(* mask[i] = region + (region[-1],) * n_dummy ;  pad_mask[i, :, -n_dummy:] = True *)
Definition mask_row (D : nat) (reg : list nat) : list nat :=
  reg ++ repeat (last reg 0) (D - length reg).
Definition padm_row (D : nat) (reg : list nat) : list bool :=
  repeat false (length reg) ++ repeat true (D - length reg).
Definition mask_of (D : nat) (regs : list (list nat)) := map (mask_row D) regs.
Definition padm_of (D : nat) (regs : list (list nat)) := map (padm_row D) regs.

(* torch.reshape(t, [-1, in_features_pad]): row g is the concatenation of 2^d consecutive rows *)
Fixpoint chunks {A} (k : nat) (fuel : nat) (l : list (list A)) : list (list A) :=
  match fuel with
  | 0 => []
  | S f => match l with
           | [] => []
           | _ => concat (firstn k l) :: chunks k f (skipn k l)
           end
  end.
Definition flat_rows {A} (d : nat) (l : list (list A)) : list (list A) := chunks (2 ^ d) (length l) l.

Definition gather {A} (dflt : A) (x : list A) (idx : list nat) : list A :=
  map (fun i => nth i x dflt) idx.

(* inv_pad_mask = torch.gather(reshape(pad_mask), 1, inv_mask) *)
Definition inv_pad_of (padflat : list (list bool)) (inv : list (list nat)) : list (list bool) :=
  map (fun pi => gather false (fst pi) (snd pi)) (combine padflat inv).

(* torch.argsort is an oracle: any permutation of the positions that sorts the row *)
Fixpoint sorted_b (l : list nat) : bool :=
  match l with
  | a :: ((b :: _) as tl) => (a <=? b) && sorted_b tl
  | _ => true
  end.
Definition is_perm_b (l : list nat) : bool :=
  forallb (fun p => Nat.eqb (fst p) (snd p)) (combine (isort l) (seq 0 (length l))).
Definition is_argsort_b (m inv : list nat) : bool :=
  Nat.eqb (length inv) (length m) && is_perm_b inv && sorted_b (gather 0 m inv).

(* samples[~inv_pad_mask] on one row *)
Fixpoint keep_unflagged {A} (x : list A) (fl : list bool) : list A :=
  match x, fl with
  | a :: x', f :: fl' => if f then keep_unflagged x' fl' else a :: keep_unflagged x' fl'
  | _, _ => []
  end.
(* unpad_samples on one row: gather by inv_mask[rep], then drop the flagged positions if pad > 0 *)
Definition unpad {A} (dflt : A) (pad : nat) (x : list A) (inv : list nat) (ipm : list bool) : list A :=
  let s := gather dflt x inv in
  if Nat.eqb pad 0 then s else keep_unflagged s ipm.

(* the version before the repair (kept the padded positions): samples[inv_pad_mask] *)
Definition unpad_pinned {A} (dflt : A) (pad : nat) (x : list A) (inv : list nat) (ipm : list bool) : list A :=
  let s := gather dflt x inv in
  if Nat.eqb pad 0 then s else keep_unflagged s (map negb ipm).

(* top-down group indices: ProductLayer.sample/mpe, idx_group -> [2g, 2g+1] *)
Definition groups_down (gs : list nat) : list nat := flat_map (fun g => [2 * g; 2 * g + 1]) gs.

(* torch.where(torch.isnan(x), samples, x) *)
Fixpoint fill (x : list (option Z)) (s : list Z) : list (option Z) :=
  match x, s with
  | c :: x', v :: s' => (match c with None => Some v | Some _ => c end) :: fill x' s'
  | _, _ => []
  end.

(* ------------------------------------------------------------------------------------------ *)
(* bottom-up evaluation over any number type (probability domain; the code works in logs)       *)

Section RatEval.
  Variable T : Type.
  Variables (t0 t1 : T) (tadd tmul : T -> T -> T).
  Infix "+" := tadd. Infix "*" := tmul.
  Notation dotT := (dotT T t0 tadd tmul).

  (* a univariate leaf factor as a value table (Bernoulli: [(0,1-p);(1,p)]; a Gaussian restricted
     to the test points of a run: [(code, density)]); NaN -> nan_to_num(...)=0 in logs = one *)
  Definition ltab := list (Z * T).
  Definition cell (tab : ltab) (c : option Z) : T :=
    match c with None => t1 | Some x => lookup T t0 tab x end.

  (* one region, one channel: sum over the last axis of the masked log-probs = product over the
     positions k < dimension of (pad_mask ? 1 : density_k(x[mask[k]])) *)
  Fixpoint leaf_prod (mrow : list nat) (prow : list bool) (tabs : list ltab) (r : row) : T :=
    match mrow, prow, tabs with
    | v :: m', p :: p', tb :: t' => (if p then t1 else cell tb (r v)) * leaf_prod m' p' t' r
    | _, _, _ => t1
    end.

  (* RegionGraphLayer.forward: tabs[region][channel][k] *)
  Definition base_layer (mask : list (list nat)) (padm : list (list bool))
             (tabs : list (list (list ltab))) (r : row) : list (list T) :=
    map (fun mpt => map (fun tc => leaf_prod (fst (fst mpt)) (snd (fst mpt)) tc r) (snd mpt))
        (combine (combine mask padm) tabs).

  (* ProductLayer.forward: regions 2k and 2k+1, out[a * K + b] = x1[a] * x2[b] *)
  Definition outer (a b : list T) : list T := flat_map (fun x => map (fun y => x * y) b) a.
  Fixpoint pair_up (l : list (list T)) : list (list T) :=
    match l with
    | a :: b :: tl => outer a b :: pair_up tl
    | _ => []
    end.

  (* SumLayer.forward with W[region][out node][in node] = softmax(weight, dim=2) *)
  Definition sum_layer (W : list (list (list T))) (xs : list (list T)) : list (list T) :=
    map (fun Wx => map (fun w => dotT w (snd Wx)) (fst Wx)) (combine W xs).

  (* RootLayer.forward with W[class][partition * in_nodes + node] = softmax(weight, dim=1) *)
  Definition root_layer (W : list (list T)) (xs : list (list T)) : list T :=
    map (fun w => dotT w (concat xs)) W.

  (* RatSpn.__init__ builds Product, Sum, Product, ..., Product (depth products, depth-1 sums);
     x is the input of a product layer *)
  Fixpoint inner (Ws : list (list (list (list T)))) (x : list (list T)) : list (list T) :=
    match Ws with
    | [] => pair_up x
    | W :: Ws' => inner Ws' (sum_layer W (pair_up x))
    end.

  (* RatSpn.forward, one value per class *)
  Definition rat_forward (mask : list (list nat)) (padm : list (list bool))
             (tabs : list (list (list ltab))) (Ws : list (list (list (list T)))) (Wroot : list (list T))
             (r : row) : list T :=
    root_layer Wroot (inner Ws (base_layer mask padm tabs r)).

  (* the whole model from the oracle permutations: constructor + forward *)
  Definition rat_model (n d : nat) (permss : list (list (list (list nat))))
             (tabs : list (list (list ltab))) (Ws : list (list (list (list T)))) (Wroot : list (list T))
             (r : row) : list T :=
    let regs := rat_leaves n permss in
    let D := dim_of n d in
    rat_forward (mask_of D regs) (padm_of D regs) tabs Ws Wroot r.

  (* ---------------------------------------------------------------------------------------- *)
  (* top-down MPE: RootLayer.mpe, SumLayer.mpe, ProductLayer.mpe, RegionGraphLayer.mpe          *)
  Variable tleb : T -> T -> bool.
  Variable tnear : T -> T -> bool.   (* tnear x best: x is within the tie margin of best *)

  Fixpoint argmax_from (l : list T) (i bi : nat) (b : T) : nat :=
    match l with
    | [] => bi
    | x :: tl => if tleb x b then argmax_from tl (S i) bi b else argmax_from tl (S i) i x
    end.
  Definition argmax (l : list T) : nat := match l with [] => 0 | x :: tl => argmax_from tl 1 0 x end.
  (* numerical tie: a second entry within the margin of the maximum *)
  Definition near_tie (l : list T) : bool :=
    let b := nth (argmax l) l t0 in
    negb (Nat.leb (length (filter (fun x => tnear x b) l)) 1).

  Fixpoint mul2 (a b : list T) : list T :=
    match a, b with x :: a', y :: b' => x * y :: mul2 a' b' | _, _ => [] end.

  Definition sel := list (nat * nat).   (* (idx_group, idx_offset) per selected region *)

  Definition root_down (wy : list T) (x : list (list T)) : sel * bool :=
    let K := length (hd [] x) in
    let sc := mul2 (concat x) wy in
    let idx := argmax sc in
    ([(idx / K, idx mod K)], near_tie sc).

  Definition prod_down (K : nat) (s : sel) : sel :=
    flat_map (fun go => [(Nat.mul 2 (fst go), snd go / K); (Nat.add (Nat.mul 2 (fst go)) 1, snd go mod K)]) s.

  Definition sum_down (W : list (list (list T))) (x : list (list T)) (s : sel) : sel * bool :=
    let scs := map (fun go => mul2 (nth (fst go) x []) (nth (snd go) (nth (fst go) W []) [])) s in
    (map (fun gs => (fst (fst gs), argmax (snd gs))) (combine s scs), existsb near_tie scs).

  (* x is the input of a product layer; returns the selection at x's level *)
  Fixpoint inner_down (Ws : list (list (list (list T)))) (x : list (list T)) (wy : list T) : sel * bool :=
    let K := length (hd [] x) in
    match Ws with
    | [] => let st := root_down wy (pair_up x) in (prod_down K (fst st), snd st)
    | W :: Ws' =>
        let y := pair_up x in
        let st := inner_down Ws' (sum_layer W y) wy in
        let st' := sum_down W y (fst st) in
        (prod_down K (fst st'), snd st || snd st')
    end.

  (* RegionGraphLayer.mpe: mode[region][channel][k]; returns (completed row, numerical tie) *)
  Definition rat_mpe (d pad : nat) (mask : list (list nat)) (padm : list (list bool))
             (tabs : list (list (list ltab))) (mode : list (list (list Z)))
             (Ws : list (list (list (list T)))) (wy : list T)
             (invs : list (list nat)) (ipms : list (list bool))
             (x : list (option Z)) : list (option Z) * bool :=
    let r : row := fun v => nth v x None in
    let st := inner_down Ws (base_layer mask padm tabs r) wy in
    let samples := flat_map (fun go => nth (snd go) (nth (fst go) mode []) []) (fst st) in
    let rep := fst (hd (0, 0) (fst st)) / 2 ^ d in
    (fill x (unpad 0%Z pad samples (nth rep invs []) (nth rep ipms [])), snd st).
End RatEval.
