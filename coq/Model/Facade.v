(* Model/Facade.v — the scikit-learn facade (deeprob/spn/models/sklearn.py), executable definitions.
   * NumPy 2-D arrays as (shape, indexing function) with the three shape rules the classifier uses:
     fancy indexing of rows `a[ids]`, transposition `a.T`, and broadcasting of a 1-D vector against
     a 2-D array (`np.log(w) + a`: the vector is aligned with the LAST axis; dimensions must be
     equal or one of them 1, otherwise NumPy raises = None here).
   * SPNClassifier.predict_log_proba in the LINEAR domain (log w + ll  ~  w * l; log_softmax over
     axis 1 ~ division by the row sum), SPNClassifier.predict (MPE on the data with the label column
     appended as NaN, label cell returned), and the pinned (defective) variant without `.T`.
   * SPNEstimator pass-throughs and the row sets built by `sample`.
   The class sub-circuit values are entries of `vals` (Model/Core.v): lls[c.id] for c in children. *)
From Coq Require Import List Arith ZArith Bool.
From DV Require Import Model.Core Model.Clt Model.Leaves Model.Mpe.
Import ListNotations.

Section Arr.
  Variable T : Type.
  Variables (t0 : T) (tadd tmul : T -> T -> T) (tinv : T -> T).

  Record arr2 := mk2 { nr : nat; nc : nat; at2 : nat -> nat -> T }.

  Definition to_lists (a : arr2) : list (list T) :=
    map (fun i => map (at2 a i) (seq 0 (nc a))) (seq 0 (nr a)).

  (* a[ids] (integer-array indexing on axis 0): shape (len ids, nc) *)
  Definition take_rows (ids : list nat) (a : arr2) : arr2 :=
    mk2 (length ids) (nc a) (fun i j => at2 a (nth i ids 0) j).
  (* a.T *)
  Definition transpose (a : arr2) : arr2 := mk2 (nc a) (nr a) (fun i j => at2 a j i).

  (* NumPy broadcasting of one pair of dimensions *)
  Definition bdim (a b : nat) : option nat :=
    if Nat.eqb a b then Some a else if Nat.eqb a 1 then Some b else if Nat.eqb b 1 then Some a else None.
  Definition bidx (d j : nat) : nat := if Nat.eqb d 1 then 0 else j.
  (* v (shape (len v,)) combined elementwise with a (shape (nr, nc)): v is read as shape (1, len v) *)
  Definition bvec_arr (v : list T) (a : arr2) : option arr2 :=
    match bdim (length v) (nc a) with
    | None => None
    | Some c => Some (mk2 (nr a) c
                  (fun i j => tmul (nth (bidx (length v) j) v t0) (at2 a i (bidx (nc a) j))))
    end.

  (* exp(log_softmax(., axis=1)) : every entry divided by the sum of its row *)
  Definition row_sum (a : arr2) (i : nat) : T := sumT T t0 tadd (map (at2 a i) (seq 0 (nc a))).
  Definition softmax1 (a : arr2) : arr2 :=
    mk2 (nr a) (nc a) (fun i j => tmul (at2 a i j) (tinv (row_sum a i))).
End Arr.
Arguments mk2 {T}. Arguments nr {T}. Arguments nc {T}. Arguments at2 {T}.

Section Facade.
  Variable T : Type.
  Variables (t0 t1 : T) (tadd tmul : T -> T -> T) (tinv : T -> T).
  Variable sel : T -> T -> bool.
  Variable leaf : Type.
  Variable leaf_val : leaf -> row -> T.
  Variable leaf_fill : leaf -> row -> list (nat * Z).
  Notation table := (table T leaf).
  Notation val := (val T t0 t1 tadd tmul leaf leaf_val).

  Definition root_node (t : table) : node T leaf := nth (length t - 1) t (dummy_node T leaf).
  (* self.spn_.weights / [c.id for c in self.spn_.children] *)
  Definition root_ws (t : table) : list T :=
    match nkind (root_node t) with KSum ws => ws | _ => [] end.
  Definition class_ids (t : table) : list nat := nkids (root_node t).

  (* np.hstack([X, nan column]) / np.hstack([nan block, y]) : the label is variable nf *)
  Definition with_label (nf : nat) (c : option Z) (r : row) : row := upd r nf c.

  (* `_, lls = log_likelihood(spn, data, return_results=True)` : shape (n_nodes, n_samples) *)
  Definition lls_arr (t : table) (rows : list row) : arr2 T :=
    mk2 (length t) (length rows) (fun i s => val t i (nth s rows row_none)).

  (* class_ll = np.log(weights) + lls[class_ids].T *)
  Definition class_ll (t : table) (nf : nat) (X : list row) : option (arr2 T) :=
    bvec_arr T t0 tmul (root_ws t)
      (transpose T (take_rows T (class_ids t) (lls_arr t (map (with_label nf None) X)))).
  Definition predict_proba (t : table) (nf : nat) (X : list row) : option (arr2 T) :=
    option_map (softmax1 T t0 tadd tmul tinv) (class_ll t nf X).

  (* the pinned tree: class_ll = np.log(weights) + lls[class_ids] *)
  Definition class_ll_pinned (t : table) (nf : nat) (X : list row) : option (arr2 T) :=
    bvec_arr T t0 tmul (root_ws t) (take_rows T (class_ids t) (lls_arr t (map (with_label nf None) X))).
  Definition predict_proba_pinned (t : table) (nf : nat) (X : list row) : option (arr2 T) :=
    option_map (softmax1 T t0 tadd tmul tinv) (class_ll_pinned t nf X).

  (* MPE restricted to the descent that starts at node i (the root: Mpe.mpe_row) *)
  Definition mpe_at (t : table) (i : nat) (r : row) : row :=
    fold_left (fun acc l => match leaf_of T leaf t l with
                            | Some lf => apply_assign (leaf_fill lf r) acc
                            | None => acc end)
              (nth i (picks T t0 t1 tadd tmul sel leaf leaf_val t r) []) r.

  (* predict: mpe(spn, hstack([X, nan]), inplace=True); return data[:, -1] *)
  Definition predict (t : table) (nf : nat) (X : list row) : list (option Z) :=
    map (fun r => mpe_row T t0 t1 tadd tmul sel leaf leaf_val leaf_fill t (with_label nf None r) nf) X.

  (* ---- SPNEstimator: pass-throughs ---- *)
  Definition est_proba (t : table) (X : list row) : list T :=
    map (root_val T t0 t1 tadd tmul leaf leaf_val t) X.
  Definition est_mpe (t : table) (X : list row) : list row :=
    map (mpe_row T t0 t1 tadd tmul sel leaf leaf_val leaf_fill t) X.
  (* the inputs handed to the core sampler: np.tile(nan, [n, .]) and hstack([nan block, y]) *)
  Definition sample_inputs (n : nat) : list row := repeat row_none n.
  Definition sample_inputs_y (nf : nat) (ys : list Z) : list row :=
    map (fun y => with_label nf (Some y) row_none) ys.
End Facade.
