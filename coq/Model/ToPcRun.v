(* Model/ToPcRun.v — runner of the C12 correspondence at Qc. *)
From Coq Require Import List Arith ZArith QArith Qabs Qcanon Bool.
From DV Require Import Model.Core Model.Clt Model.Leaves Model.Check Model.QcInst Model.Prune Model.PruneRun
  Model.Run Model.ToPc.
Import ListNotations.
Local Open Scope nat_scope.

Definition qto_pc (c : clt Qc) : qtable * nat := to_pc Qc 0%Qc 1%Qc c.

(* product scopes are pairwise nested or disjoint (structured decomposability) *)
Definition nested_or_disjoint (a b : list nat) : bool :=
  (subsetb a b || subsetb b a || disjb a b)%bool.
Definition prod_scopes (t : qtable) : list (list nat) :=
  flat_map (fun n : qnode => match nkind n with KProd => [nscope n] | _ => [] end) t.
Definition struct_decomp_b (t : qtable) : bool :=
  let ps := prod_scopes t in forallb (fun a => forallb (nested_or_disjoint a) ps) ps.
(* determinism on a complete row: every sum has at most one child with a non-zero value *)
Definition determ_row (t : qtable) (r : row) : bool :=
  let vs := qvals t r in
  forallb (fun n : qnode => match nkind n with
                            | KSum _ => Nat.leb (length (filter (fun k => negb (Qc_eq_bool (nth k vs 0%Qc) 0%Qc)) (nkids n))) 1
                            | _ => true end) t.

Record ccase := {
  cc_clt : clt Qc;
  cc_impl : qtable;                                   (* the implementation's to_pc(), root last *)
  cc_rows : list (row * (Qc * Qc)) }.                 (* row, exp(LL) of the implementation's PC, of the CLT *)

(* header flags: 1 structure differs from the implementation's circuit, 2 model circuit fails the
   validity certificate, 4 not structured decomposable, 8 node count differs; per row: 1 circuit value <>
   tree value in the model (instance of the theorem), 2 implementation PC differs, 4 implementation CLT
   differs, 8 not deterministic on a complete row *)
Definition run_ccase (c : ccase) : list Z :=
  let p := qto_pc (cc_clt c) in
  let t := fst p in
  let doms := map (fun v => (v, [0; 1]%Z)) (cscope (cc_clt c)) in
  let i := (cc_impl c, length (cc_impl c) - 1) in
  ((if utree_close (uview p) (uview i) then 0 else 1) +
   (if qvalid_b doms (firstn (S (snd p)) t) then 0 else 2) +
   (if struct_decomp_b t then 0 else 4) +
   (if Nat.eqb (nreach p) (nreach i) then 0 else 8))%Z ::
  map (fun rw =>
         let r := fst rw in
         let m := val Qc 0%Qc 1%Qc Qcplus Qcmult qleaf qleaf_val t (snd p) r in
         let cv := clt_val Qc 0%Qc 1%Qc Qcplus Qcmult (cc_clt c) r in
         ((if Qc_eq_bool m cv then 0 else 1) +
          (if closeq (fst (snd rw)) m then 0 else 2) +
          (if closeq (snd (snd rw)) m then 0 else 4) +
          (if complete_on (cscope (cc_clt c)) r then (if determ_row t r then 0 else 8) else 0))%Z) (cc_rows c).
