(* Model/RatRun.v — runners of the E1 correspondence for C16 (RAT-SPNs), exact rationals. *)
From Coq Require Import List Arith ZArith QArith Qabs Qcanon Bool.
From DV Require Import Model.Core Model.Leaves Model.QcInst Model.Rat.
Import ListNotations.
Local Open Scope nat_scope.

Fixpoint leqb {A} (eqb : A -> A -> bool) (a b : list A) : bool :=
  match a, b with
  | [], [] => true
  | x :: a', y :: b' => eqb x y && leqb eqb a' b'
  | _, _ => false
  end.
Definition nl_eqb := leqb Nat.eqb.
Definition nll_eqb := leqb nl_eqb.
Definition nlll_eqb := leqb nll_eqb.
Definition bll_eqb := leqb (leqb Bool.eqb).

(* the recorded oracle answers are admissible: one permutation of each region, level by level *)
Fixpoint perms_ok (regs : list (list nat)) (perms : list (list (list nat))) : bool :=
  match perms with
  | [] => true
  | ps :: rest =>
      Nat.eqb (length ps) (length regs) &&
      forallb (fun rp => nl_eqb (isort (fst rp)) (isort (snd rp))) (combine regs ps) &&
      perms_ok (split_level regs ps) rest
  end.

Definition flag (b : bool) (code : Z) : Z := if b then 0%Z else code.

Record scase := {
  sc_n : nat; sc_d : nat;
  sc_perms : list (list (list (list nat)));   (* repetition -> level -> region -> recorded permutation *)
  sc_regions : list (list (list nat));        (* implementation: region layers, root first *)
  sc_parts : list (list (list nat));          (* implementation: partition layers (flattened pairs), top first *)
  sc_pad : nat; sc_dim : nat;
  sc_mask : list (list nat); sc_padm : list (list bool);
  sc_inv : list (list nat); sc_ipm : list (list bool) }.

Definition run_scase (c : scase) : Z :=
  let n := sc_n c in let d := sc_d c in let pp := sc_perms c in
  let regs := rat_leaves n pp in
  let D := dim_of n d in
  let mask := mask_of D regs in
  let padm := padm_of D regs in
  let mflat := flat_rows d mask in
  let pflat := flat_rows d padm in
  let levels := map (make_level n pp) (seq 0 (S d)) in
  (flag (forallb (fun perms => Nat.eqb (length perms) d && perms_ok [items n] perms) pp) 1 +
   flag (nlll_eqb levels (sc_regions c)) 2 +
   flag (nlll_eqb (tl levels) (sc_parts c)) 4 +
   flag (Nat.eqb (pad_of n d) (sc_pad c) && Nat.eqb D (sc_dim c)) 8 +
   flag (nll_eqb mask (sc_mask c)) 16 +
   flag (bll_eqb padm (sc_padm c)) 32 +
   flag (Nat.eqb (length (sc_inv c)) (length mflat) &&
         forallb (fun mi => is_argsort_b (fst mi) (snd mi)) (combine mflat (sc_inv c))) 64 +
   flag (bll_eqb (inv_pad_of pflat (sc_inv c)) (sc_ipm c)) 128 +
   (* instance of C16_unpad: un-padding the variable ids themselves gives 0..n-1 *)
   flag (forallb (fun mip => nl_eqb (unpad O (sc_pad c) (fst (fst mip)) (snd (fst mip)) (snd mip)) (items n))
                 (combine (combine mflat (sc_inv c)) (sc_ipm c))) 256 +
   (* instance of C16_regions_partition: sizes in {D-1, D}, >= 1 *)
   flag (forallb (fun r => (Nat.leb 1 (length r) && Nat.leb (length r) D && Nat.leb D (S (length r)))) regs) 512)%Z.

(* ---------- forward / mpe ---------- *)
Definition qtabs := list (list (list (list (Z * Qc)))).
Definition qW3 := list (list (list Qc)).

Definition tol0 : Q := 1 # 1000000000000000000000000000000.
Definition closer := close tol_rel tol0.     (* relative 2e-4 *)

Definition q_leb (a b : Qc) : bool := Qle_bool (this a) (this b).
Definition q_near (x b : Qc) : bool := Qle_bool ((999 # 1000) * this b) (this x).

Definition mode_of (tabs : qtabs) : list (list (list Z)) :=
  map (map (map (fun tab => if Qle_bool (1 # 2) (this (lookup Qc 0%Qc tab 1%Z)) then 1%Z else 0%Z))) tabs.

Fixpoint all_close (a b : list Qc) : bool :=
  match a, b with
  | [], [] => true
  | x :: a', y :: b' => closer x y && all_close a' b'
  | _, _ => false
  end.

Definition complete (x : list (option Z)) : bool :=
  forallb (fun c => match c with None => false | Some _ => true end) x.
Definition oz_eqb (a b : option Z) : bool :=
  match a, b with None, None => true | Some x, Some y => Z.eqb x y | _, _ => false end.

Fixpoint vec_add (a b : list Qc) : list Qc :=
  match a, b with x :: a', y :: b' => Qcplus x y :: vec_add a' b' | _, _ => [] end.

Record rcase := {
  rc_n : nat; rc_d : nat; rc_classes : nat;
  rc_perms : list (list (list (list nat)));
  rc_tabs : qtabs; rc_Ws : list qW3; rc_Wroot : list (list Qc);
  rc_norm : bool;                                   (* leaf tables are normalised (discrete leaves) *)
  rc_exh : bool;                                    (* rows contain every complete assignment exactly once *)
  rc_rows : list (list (option Z) * list Qc);       (* row, implementation exp(log-likelihood) per class *)
  rc_invs : list (list nat); rc_ipms : list (list bool);   (* implementation buffers (argsort oracle) *)
  rc_mrows : list (list (option Z) * nat * list (option Z)) }.  (* row, class y, implementation mpe row *)

(* output: header :: one code per forward row ++ [-2] ++ one code per mpe row
   header bits: 1 weights not normalised, 2 leaf tables not normalised, 4 total mass over the complete rows <> 1,
                8 argsort oracle inadmissible
   forward row: 1 some class differs;   mpe row: 1 differs, 16 numerical tie (excluded) *)
Definition run_rcase (c : rcase) : list Z :=
  let n := rc_n c in let d := rc_d c in
  let regs := rat_leaves n (rc_perms c) in
  let D := dim_of n d in
  let mask := mask_of D regs in
  let padm := padm_of D regs in
  let fwd := fun x => rat_forward Qc 0%Qc 1%Qc Qcplus Qcmult mask padm (rc_tabs c) (rc_Ws c) (rc_Wroot c) (mkrow x) in
  let wnorm := forallb (fun w => Qc_eq_bool (qsum w) 1%Qc) (rc_Wroot c) &&
               forallb (forallb (forallb (fun w => Qc_eq_bool (qsum w) 1%Qc))) (rc_Ws c) in
  let lnorm := negb (rc_norm c) ||
               forallb (forallb (forallb (fun tab => Qc_eq_bool (qsum (map snd tab)) 1%Qc))) (rc_tabs c) in
  let ms := map (fun rw => fwd (fst rw)) (rc_rows c) in
  let tot := fold_left (fun acc xm => if complete (fst (fst xm)) then vec_add acc (snd xm) else acc)
                       (combine (rc_rows c) ms) (repeat 0%Qc (rc_classes c)) in
  let mass := negb (rc_exh c) || forallb (fun t => Qc_eq_bool t 1%Qc) tot in
  let mflat := flat_rows d mask in
  let argok := Nat.eqb (length (rc_mrows c)) 0 ||
               (Nat.eqb (length (rc_invs c)) (length mflat) &&
                forallb (fun mi => is_argsort_b (fst mi) (snd mi)) (combine mflat (rc_invs c))) in
  let mode := mode_of (rc_tabs c) in
  (flag wnorm 1 + flag lnorm 2 + flag mass 4 + flag argok 8)%Z ::
  map (fun rm => flag (all_close (snd (fst rm)) (snd rm)) 1) (combine (rc_rows c) ms) ++
  (-2)%Z ::
  map (fun xyr =>
         let x := fst (fst xyr) in let y := snd (fst xyr) in
         let res := rat_mpe Qc 0%Qc 1%Qc Qcplus Qcmult q_leb q_near d (pad_of n d) mask padm (rc_tabs c) mode
                            (rc_Ws c) (nth y (rc_Wroot c) []) (rc_invs c) (rc_ipms c) x in
         if snd res then 16%Z else flag (leqb oz_eqb (fst res) (snd xyr)) 1)
      (rc_mrows c).
