(* Model/SchedRun.v — runner of the C08 correspondence: the implementation's layered topological
   order (node positions per layer) against Model/Sched.v: layer_of. *)
From Coq Require Import List Arith ZArith QArith Qcanon Bool.
From DV Require Import Model.Core Model.Clt Model.Leaves Model.Check Model.QcInst Model.Sched.
Import ListNotations.
Local Open Scope nat_scope.

Definition wft_b (t : qtable) : bool :=
  forallb (fun p : nat * qnode => forallb (fun k => Nat.ltb k (fst p)) (nkids (snd p))) (combine (seq 0 (length t)) t).

(* flags: 1 a layer differs (as a set), 2 table not children-first, 4 number of layers differs,
   8 an edge goes to a layer that is not strictly deeper (instance of the theorem; never expected) *)
Definition run_ycase (c : qtable * list (list nat)) : Z :=
  let t := fst c in
  let ls := snd c in
  let d := layer_of Qc qleaf t in
  let depth := fold_right Nat.max 0 (map (fun o => match o with Some x => S x | None => 0 end) d) in
  ((if forallb (fun p : nat * list nat => seteqb (layer Qc qleaf t (fst p)) (snd p)) (combine (seq 0 (length ls)) ls) then 0 else 1) +
   (if wft_b t then 0 else 2) +
   (if Nat.eqb depth (length ls) then 0 else 4) +
   (if forallb (fun p : nat * qnode =>
                  match nth (fst p) d None with
                  | Some x => forallb (fun k => match nth k d None with Some y => Nat.ltb x y | None => false end) (nkids (snd p))
                  | None => true end) (combine (seq 0 (length t)) t) then 0 else 8))%Z.
