(* Model/Leaves.v — the built-in leaf families (deeprob/spn/structure/leaf.py, cltree.py).
   LTab v tab: a univariate leaf given by its value table (Bernoulli = [(0,1-p);(1,p)];
   Categorical = zip categories probabilities; a continuous leaf restricted to the finite set of
   test points of a run = [(code, density at that point)]); a value outside the table has
   likelihood zero; a missing cell gives one.  LClt c: a binary Chow-Liu tree leaf. *)
From Coq Require Import List Arith ZArith Bool.
From DV Require Import Model.Core Model.Clt.
Import ListNotations.

Section Leaves.
  Variable T : Type.
  Variables (t0 t1 : T) (tadd tmul : T -> T -> T).

  Fixpoint lookup (tab : list (Z * T)) (x : Z) : T :=
    match tab with
    | [] => t0
    | (k, p) :: tl => if Z.eqb k x then p else lookup tl x
    end.

  Inductive leaf := LTab (v : nat) (tab : list (Z * T)) | LClt (c : clt T).

  Definition leaf_val (l : leaf) (r : row) : T :=
    match l with
    | LTab v tab => match r v with None => t1 | Some x => lookup tab x end
    | LClt c => clt_val T t0 t1 tadd tmul c r
    end.

  (* what the code computes for a CLT leaf: gather on complete rows *)
  Definition leaf_lik (l : leaf) (r : row) : T :=
    match l with
    | LTab v tab => match r v with None => t1 | Some x => lookup tab x end
    | LClt c => clt_lik T t0 t1 tadd tmul c r
    end.

  Definition leaf_scope (l : leaf) : list nat :=
    match l with LTab v _ => [v] | LClt c => cscope c end.
End Leaves.
Arguments LTab {T}. Arguments LClt {T}.
