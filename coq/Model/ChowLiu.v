(* Model/ChowLiu.v — Chow-Liu fitting of a binary CLT (executable definitions only).
   Mirrors  deeprob/utils/statistics.py : estimate_priors_joints, compute_mutual_information
            deeprob/spn/structure/cltree.py : BinaryCLT.fit, BinaryCLT.compute_clt_parameters
            deeprob/utils/graph.py : maximum_spanning_tree (the SciPy MST itself is NOT modelled: its
            result, the predecessor vector, is an input that is certificate-checked by `is_tree`,
            `brute_max` (all labelled spanning trees) and the reference `prim_weight`).
   Numbers: counts are integers (Z); probabilities live in any field (T, t0, t1, tadd, tmul, tsub, tdiv);
   spanning-tree weights are integers (the float MI matrix scaled by a common power of two). *)
From Coq Require Import List Arith ZArith Bool.
From DV Require Import Model.Core Model.Clt.
Import ListNotations.

(* ---------- counts (estimate_priors_joints, "Compute the counts") ---------- *)
Section Counts.
  Definition dat := list (list Z).
  Definition cellz (r : list Z) (i : nat) : Z := nth i r 0%Z.
  (* counts_ones[i, j] = np.dot(data.T, data)[i, j] *)
  Fixpoint dot11 (d : dat) (i j : nat) : Z :=
    match d with [] => 0%Z | r :: d' => (cellz r i * cellz r j + dot11 d' i j)%Z end.
  (* counts_features = np.diag(counts_ones) *)
  Definition feat1 (d : dat) (i : nat) : Z := dot11 d i i.
  Definition nrows (d : dat) : Z := Z.of_nat (length d).

  (* specification side: direct counting of rows *)
  Definition b2z (b : bool) : Z := if b then 1%Z else 0%Z.
  Fixpoint cnt1 (d : dat) (i : nat) (k : bool) : Z :=
    match d with [] => 0%Z | r :: d' => (b2z (Z.eqb (cellz r i) (b2z k)) + cnt1 d' i k)%Z end.
  Fixpoint cnt2 (d : dat) (i : nat) (k : bool) (j : nat) (l : bool) : Z :=
    match d with
    | [] => 0%Z
    | r :: d' => (b2z (Z.eqb (cellz r i) (b2z k) && Z.eqb (cellz r j) (b2z l)) + cnt2 d' i k j l)%Z
    end.
  Definition binary_row (n : nat) (r : list Z) : bool :=
    Nat.eqb (length r) n && forallb (fun x => Z.eqb x 0 || Z.eqb x 1) r.
  Definition binary_data (n : nat) (d : dat) : bool := forallb (binary_row n) d.
End Counts.

(* ---------- priors, joints, CPTs over a field ---------- *)
Section Fit.
  Variable T : Type.
  Variables (t0 t1 : T) (tadd tmul tsub tdiv : T -> T -> T).
  Infix "+" := tadd. Infix "*" := tmul. Infix "-" := tsub. Infix "/" := tdiv.
  (* n_samples, alpha, counts_features, counts_ones — as field elements *)
  Variables (n alpha : T) (c1 : nat -> T) (c11 : nat -> nat -> T).

  Definition two : T := t1 + t1.
  Definition four : T := two + two.
  Definition den : T := n + four * alpha.
  (* priors[i, 1] = (counts_features + 2 alpha) / (n + 4 alpha); priors[i, 0] = 1 - priors[i, 1] *)
  Definition prior (i : nat) (k : bool) : T :=
    let p1 := (c1 i + two * alpha) / den in if k then p1 else t1 - p1.
  (* joints[i, j, k, l] before smoothing: counts_cols[i,j] = c1 j, counts_rows[i,j] = c1 i *)
  Definition joint_cnt (i j : nat) (k l : bool) : T :=
    match k, l with
    | false, false => n - c1 j - c1 i + c11 i j
    | false, true => c1 j - c11 i j
    | true, false => c1 i - c11 i j
    | true, true => c11 i j
    end.
  (* (joints + alpha) / (n + 4 alpha), with the diagonal i = j overwritten by diag(priors[i]) *)
  Definition joint (i j : nat) (k l : bool) : T :=
    if Nat.eqb i j then (if Bool.eqb k l then prior i k else t0)
    else (joint_cnt i j k l + alpha) / den.

  (* compute_clt_parameters: einsum('ikl,il->ilk', joints[vs, tree], 1 / priors[tree]);
     params[root] = priors[root]; then params /= sum over k *)
  Definition cpt_raw (par : option nat) (i : nat) (l k : bool) : T :=
    match par with
    | Some p => joint i p k l * (t1 / prior p l)
    | None => prior i k
    end.
  Definition cpt (par : option nat) (i : nat) (l k : bool) : T :=
    cpt_raw par i l k / (cpt_raw par i l false + cpt_raw par i l true).

  Definition cpt_table (par : option nat) (i : nat) : list (list T) :=
    [[cpt par i false false; cpt par i false true]; [cpt par i true false; cpt par i true true]].
  Fixpoint fit_from (i : nat) (pars : list (option nat)) : list (list (list T)) :=
    match pars with [] => [] | p :: tl => cpt_table p i :: fit_from (S i) tl end.
  (* params (LINEAR domain; the code stores np.log of it) for a predecessor vector *)
  Definition fit_params (pars : list (option nat)) : list (list (list T)) := fit_from 0 pars.
  Definition fit_clt (scope : list nat) (pars : list (option nat)) : clt T :=
    Build_clt scope pars (fit_params pars).

  (* compute_mutual_information for one ordered pair (i <> j); tln is only used here *)
  Variable tln : T -> T.
  Definition bools : list bool := [false; true].
  Definition mi_pair (i j : nat) : T :=
    sumT T t0 tadd (flat_map (fun k => map (fun l =>
      joint i j k l * (tln (joint i j k l) - tln (prior i k * prior j l))) bools) bools).
End Fit.

(* ---------- rooted spanning trees as predecessor vectors ---------- *)
Section Tree.
  Definition par_of (p : list (option nat)) (i : nat) : option nat := nth i p None.
  (* following predecessors from i reaches root in at most fuel steps *)
  Fixpoint reaches (p : list (option nat)) (root fuel i : nat) : bool :=
    if Nat.eqb i root then true else
    match fuel with
    | O => false
    | S f => match par_of p i with Some j => reaches p root f j | None => false end
    end.
  Definition entry_ok (n root : nat) (p : list (option nat)) (i : nat) : bool :=
    match par_of p i with
    | None => Nat.eqb i root
    | Some j => negb (Nat.eqb i root) && Nat.ltb j n
    end.
  (* p encodes a spanning tree of {0..n-1} rooted at root *)
  Definition is_tree (n root : nat) (p : list (option nat)) : bool :=
    Nat.eqb (length p) n && Nat.ltb root n &&
    forallb (entry_ok n root p) (seq 0 n) && forallb (reaches p root n) (seq 0 n).

  Variable w : nat -> nat -> Z.   (* w child parent *)
  Fixpoint weight_from (i : nat) (p : list (option nat)) : Z :=
    match p with
    | [] => 0%Z
    | None :: tl => weight_from (S i) tl
    | Some j :: tl => (w i j + weight_from (S i) tl)%Z
    end.
  Definition weight (p : list (option nat)) : Z := weight_from 0 p.

  (* every vector with None at root and Some j (j < n) elsewhere, positions i .. i+len-1 *)
  Fixpoint all_vecs (n root i len : nat) : list (list (option nat)) :=
    match len with
    | O => [[]]
    | S len' =>
        let rest := all_vecs n root (S i) len' in
        if Nat.eqb i root then map (cons None) rest
        else flat_map (fun j => map (cons (Some j)) rest) (seq 0 n)
    end.
  Definition all_parent_vectors (n root : nat) : list (list (option nat)) := all_vecs n root 0 n.

  Definition omax (a : Z) (b : option Z) : option Z :=
    match b with None => Some a | Some b' => Some (Z.max a b') end.
  Fixpoint max_over (n root : nat) (l : list (list (option nat))) : option Z :=
    match l with
    | [] => None
    | p :: tl => if is_tree n root p then omax (weight p) (max_over n root tl) else max_over n root tl
    end.
  (* maximum weight over ALL labelled spanning trees (n^(n-1) candidates: feasible for n <= 7) *)
  Definition brute_max (n root : nat) : option Z := max_over n root (all_parent_vectors n root).

  (* certificate: p is a rooted spanning tree whose weight is within slack of the brute-force maximum *)
  Definition opt_cert (n root : nat) (p : list (option nat)) (slack : Z) : bool :=
    is_tree n root p &&
    match brute_max n root with Some m => Z.leb (m - slack) (weight p) | None => false end.

  (* reference only (unproved): Prim's algorithm for the maximum spanning tree weight *)
  Definition memb (x : nat) (l : list nat) : bool := existsb (Nat.eqb x) l.
  Fixpoint best_edge (cands : list (Z * nat)) : option (Z * nat) :=
    match cands with
    | [] => None
    | (a, j) :: tl => match best_edge tl with
                      | Some (b, j') => if Z.ltb a b then Some (b, j') else Some (a, j)
                      | None => Some (a, j)
                      end
    end.
  Fixpoint prim_steps (n fuel : nat) (inset : list nat) (acc : Z) : Z :=
    match fuel with
    | O => acc
    | S f =>
        let outs := filter (fun j => negb (memb j inset)) (seq 0 n) in
        let cands := flat_map (fun i => map (fun j => (w j i, j)) outs) inset in
        match best_edge cands with
        | Some (a, j) => prim_steps n f (j :: inset) (acc + a)%Z
        | None => acc
        end
    end.
  Definition prim_weight (n root : nat) : Z := prim_steps n (n - 1) [root] 0%Z.

  (* bfs (breadth_first_order) must list every index once, root first, predecessors before successors:
     this is what BinaryCLT.message_passing relies on *)
  Fixpoint bfs_order_ok (p : list (option nat)) (seen : list nat) (l : list nat) : bool :=
    match l with
    | [] => true
    | i :: tl => negb (memb i seen) &&
                 match par_of p i with Some j => memb j seen | None => true end &&
                 bfs_order_ok p (i :: seen) tl
    end.
  Definition bfs_ok (n root : nat) (p : list (option nat)) (bfs : list nat) : bool :=
    Nat.eqb (length bfs) n && forallb (fun i => Nat.ltb i n) bfs &&
    match bfs with b0 :: _ => Nat.eqb b0 root | [] => false end && bfs_order_ok p [] bfs.
End Tree.
