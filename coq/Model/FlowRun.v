(* Model/FlowRun.v — runners of the C15 correspondence (engine E1).  The generic layer formulas of
   Model/Flow.v are instantiated at Qc; exp / ln / sqrt are oracle tables supplied by the harness
   (float64 values of the transcendental functions at the arguments the formulas need; a lookup
   accepts a key within 1e-12 relative distance, a miss returns a huge sentinel so that the case is
   flagged).  Every runner returns a flag code (0 = the implementation agrees with the model). *)
From Coq Require Import List Arith ZArith QArith Qabs Qcanon Bool.
From DV Require Import Model.QcInst Model.Flow.
Import ListNotations.
Local Open Scope nat_scope.

Definition qabsd (a b : Qc) : Q := Qabs (this a - this b)%Q.
Definition near_key (k x : Qc) : bool := Qle_bool (qabsd k x) ((1 # 1000000000000) * (1 + Qabs (this k)))%Q.
Definition sentinel : Qc := q 1000000000000000000000000000000 1.
Definition tbl := list (Qc * Qc).
Definition tbl_fn (t : tbl) (x : Qc) : Qc :=
  match find (fun p => near_key (fst p) x) t with Some p => snd p | None => sentinel end.

(* |impl - model| <= 1e-9 * |model| + 1e-9 (the implementation is run in float64) *)
Definition nearq (rel abs : Q) (impl model : Qc) : bool :=
  Qle_bool (qabsd impl model) (rel * Qabs (this model) + abs)%Q.
Definition near9 := nearq (1 # 1000000000) (1 # 1000000000).
Definition near6 := nearq (1 # 1000000) (1 # 1000000).
Fixpoint allnear (impl model : list Qc) : bool :=
  match impl, model with
  | [], [] => true
  | a :: tl, b :: tl' => near9 a b && allnear tl tl'
  | _, _ => false
  end.
Fixpoint leqb {A} (eqb : A -> A -> bool) (l1 l2 : list A) : bool :=
  match l1, l2 with [], [] => true | a :: t1, b :: t2 => eqb a b && leqb eqb t1 t2 | _, _ => false end.
Definition b2z (b : bool) (w : Z) : Z := if b then 0%Z else w.

(* ---------- Qc instances of the generic formulas ---------- *)
Definition qdiv (a b : Qc) : Qc := (a / b)%Qc.
Definition qb2t := b2t Qc 0%Qc 1%Qc.
Definition qcoupling_bwd (e : tbl) := coupling_bwd Qc 0%Qc Qcplus Qcmult Qcminus Qcopp (tbl_fn e).
Definition qcoupling_fwd (e : tbl) := coupling_fwd Qc 0%Qc Qcplus Qcmult (tbl_fn e).
Definition qcoupling_in := coupling_in Qc 0%Qc Qcmult.
Definition qchan_bwd (e : tbl) := chan_bwd Qc 0%Qc Qcplus Qcmult Qcminus Qcopp (tbl_fn e).
Definition qchan_fwd (e : tbl) := chan_fwd Qc 0%Qc Qcplus Qcmult (tbl_fn e).
Definition qchan_in := chan_in Qc 0%Qc.
Definition qar_bwd (e : tbl) := ar_bwd Qc 0%Qc Qcplus Qcmult Qcminus Qcopp (tbl_fn e).
Definition qar_fwd_k (e : tbl) := ar_fwd_k Qc 0%Qc Qcplus Qcmult (tbl_fn e).
Definition qbn_bwd (e l s : tbl) := bn_bwd Qc 0%Qc 1%Qc Qcplus Qcmult Qcminus qdiv (tbl_fn e) (tbl_fn l) (tbl_fn s).
Definition qbn_fwd (e l s : tbl) := bn_fwd Qc 0%Qc 1%Qc Qcplus Qcmult Qcminus Qcopp qdiv (tbl_fn e) (tbl_fn l) (tbl_fn s).
Definition qlogit_bwd (l : tbl) := logit_bwd Qc 0%Qc 1%Qc Qcplus Qcmult Qcminus Qcopp (tbl_fn l).
Definition qlogit_fwd (e l : tbl) := logit_fwd Qc 0%Qc 1%Qc Qcplus Qcmult Qcminus Qcopp qdiv (tbl_fn e) (tbl_fn l).
Definition qlogit_ldjc (l : tbl) := logit_ldjc Qc 0%Qc 1%Qc Qcplus Qcmult Qcminus Qcopp (tbl_fn l).
Definition qmlin := mlin Qc 0%Qc 1%Qc Qcplus Qcmult.
Definition qvsum := vsum Qc 0%Qc Qcplus.
Definition qlog_prob := log_prob Qc 0%Qc 1%Qc Qcplus Qcmult Qcminus Qcopp qdiv.

(* ---------- masks / orderings ---------- *)
Definition masks_eqb := leqb (leqb (leqb Bool.eqb)).
(* sequential MAF layer: 1 masks differ from build_masks(degrees_seq), 2 ordering, 4 inv_ordering,
   8 certificate (composed connectivity not strictly autoregressive), 16 ordering not a permutation *)
Definition run_masks_seq (D depth units : nat) (reverse : bool)
    (masks : list (list (list bool))) (ord inv : list nat) : Z :=
  let degs := degrees_seq D depth units reverse in
  (b2z (masks_eqb masks (tile_last (build_masks degs))) 1 +
   b2z (leqb Nat.eqb ord (hd [] degs)) 2 +
   b2z (leqb Nat.eqb inv (inv_ordering ord)) 4 +
   b2z (autoreg_ok D ord (conn D masks)) 8 +
   b2z (is_perm_b ord && Nat.eqb (length ord) D) 16)%Z.
(* random degrees: only the certificate and the ordering clauses *)
Definition run_masks_cert (D : nat) (masks : list (list (list bool))) (ord inv : list nat) : Z :=
  (b2z (leqb Nat.eqb inv (inv_ordering ord)) 4 +
   b2z (autoreg_ok D ord (conn D masks)) 8 +
   b2z (is_perm_b ord && Nat.eqb (length ord) D) 16 +
   b2z (Nat.eqb (length (last masks [])) (2 * D)%nat) 32)%Z.
(* coupling masks: mask / inv_mask buffers against the model (1 mask, 2 inv_mask) *)
Definition run_alt_mask (D : nat) (reverse : bool) (mask imask : list bool) : Z :=
  (b2z (leqb Bool.eqb mask (alt_mask D reverse)) 1 + b2z (leqb Bool.eqb imask (alt_mask D (negb reverse))) 2)%Z.
Definition run_checker_mask (H W : nat) (reverse : bool) (mask imask : list bool) : Z :=
  (b2z (leqb Bool.eqb mask (checker_mask H W reverse)) 1 + b2z (leqb Bool.eqb imask (checker_mask H W (negb reverse))) 2)%Z.
(* index maps against the implementation run on an arange tensor: 1 squeeze, 2 unsqueeze (of the
   squeezed shape), 4 permutation conv2d, 8 conv_transpose2d (of the down-scaled shape) *)
Definition run_index_maps (C H W : nat) (sq unsq pc pct : list nat) : Z :=
  (b2z (leqb Nat.eqb sq (squeeze_list C H W)) 1 +
   b2z (leqb Nat.eqb unsq (unsqueeze_list (4 * C)%nat (H / 2)%nat (W / 2)%nat)) 2 +
   b2z (leqb Nat.eqb pc (permconv_list C H W)) 4 +
   b2z (leqb Nat.eqb pct (permconvT_list C (H / 2)%nat (W / 2)%nat)) 8)%Z.

(* ---------- MaskedLinear.forward ---------- *)
Definition run_mlin (nin : nat) (mask : list (list bool)) (w : list (list Qc)) (b x out : list Qc) : Z :=
  b2z (allnear out (qmlin (Build_mlayer Qc nin mask w b (fun v => v)) x)) 1.

(* ---------- layers: the conditioner answers (t, s) are the implementation's own ---------- *)
Definition cmp2 (impl : list Qc * Qc) (model : list Qc * Qc) (w1 w2 : Z) : Z :=
  (b2z (allnear (fst impl) (fst model)) w1 + b2z (near9 (snd impl) (snd model)) w2)%Z.

(* 1 output, 2 log-det (backward); 4 output, 8 log-det (forward); 16 conditioner input (backward),
   32 conditioner input (forward) *)
Definition run_coupling (e : tbl) (affine : bool) (n : nat) (mask imask : list bool)
    (x t s cin u : list Qc) (ildj : Qc) (fu ft fs fcin fx : list Qc) (fldj : Qc) : Z :=
  let m := map qb2t mask in let im := map qb2t imask in
  (cmp2 (u, ildj) (qcoupling_bwd e affine n m im (fun _ => (t, s)) x) 1 2 +
   cmp2 (fx, fldj) (qcoupling_fwd e affine n m im (fun _ => (ft, fs)) fu) 4 8 +
   b2z (allnear cin (qcoupling_in n m x)) 16 + b2z (allnear fcin (qcoupling_in n m fu)) 32)%Z.

Definition run_chan (e : tbl) (affine reverse : bool) (m : nat)
    (x t s cin u : list Qc) (ildj : Qc) (fu ft fs fcin fx : list Qc) (fldj : Qc) : Z :=
  (cmp2 (u, ildj) (qchan_bwd e affine reverse m (fun _ => (t, s)) x) 1 2 +
   cmp2 (fx, fldj) (qchan_fwd e affine reverse m (fun _ => (ft, fs)) fu) 4 8 +
   b2z (allnear cin (qchan_in reverse m x)) 16 + b2z (allnear fcin (qchan_in reverse m fu)) 32)%Z.

(* autoregressive layer: backward with the conditioner answer at x; forward loop replaying the
   implementation's conditioner answers of its D network calls in order *)
Definition run_ar (e : tbl) (n : nat) (x t s u : list Qc) (ildj : Qc)
    (order : list nat) (fu : list Qc) (answers : list (list Qc * list Qc)) (fx : list Qc) (fldj : Qc) : Z :=
  (cmp2 (u, ildj) (qar_bwd e n (fun _ => (t, s)) x) 1 2 +
   cmp2 (fx, fldj) (qar_fwd_k e n (fun k _ => nth k answers ([], [])) order fu) 4 8 +
   b2z (Nat.eqb (length answers) n) 16)%Z.

Definition run_bn (e l sq : tbl) (n : nat) (eps : Qc) (w b rvar rmean x u : list Qc) (ildj : Qc)
    (fu fx : list Qc) (fldj : Qc) : Z :=
  (cmp2 (u, ildj) (qbn_bwd e l sq n eps w b rvar rmean x) 1 2 +
   cmp2 (fx, fldj) (qbn_fwd e l sq n eps w b rvar rmean fu) 4 8)%Z.

(* 16: the registered constant ldj differs from -dims*log(1-2 alpha) (float32 buffer: 1e-6) *)
Definition run_logit (e l : tbl) (n : nat) (alpha ldjc : Qc) (x u : list Qc) (ildj : Qc)
    (fu fx : list Qc) (fldj : Qc) : Z :=
  (cmp2 (u, ildj) (qlogit_bwd l n alpha ldjc x) 1 2 +
   cmp2 (fx, fldj) (qlogit_fwd e l n alpha ldjc fu) 4 8 +
   b2z (near6 ldjc (qlogit_ldjc l n alpha)) 16)%Z.

(* whole model: 1 apply_backward's total ildj is not the sum of the layers' (plus preprocessing),
   2 forward() is not prior + ildj with the standard-normal base, 4 apply_forward's total ldj *)
Definition run_total (n : nat) (hl2pi : Qc) (ildjs : list Qc) (total : Qc) (u : list Qc) (logp : Qc)
    (ldjs : list Qc) (ftotal : Qc) : Z :=
  (b2z (near9 total (qvsum ildjs)) 1 + b2z (near9 logp (qlog_prob hl2pi n u total)) 2 +
   b2z (near9 ftotal (qvsum ldjs)) 4)%Z.

(* data movement between two recorded tensors: out = gather(inp, idx) exactly *)
Definition run_gather (idx : list nat) (inp out : list Qc) : Z :=
  b2z (leqb Qc_eq_bool out (map (fun i => nth i inp 0%Qc) idx)) 1.
