(* Model/EmRun.v — runners of the C14 correspondence at Qc (engine E1).
   The square root is a rational approximation (relative error < 2^-38), the Gaussian density is a
   lookup in a table supplied with the case (computed by the harness, independently of the library,
   for the (mean, stddev) pairs that occur). *)
From Coq Require Import List Arith ZArith QArith Qabs Qcanon Bool.
From DV Require Import Model.Core Model.Clt Model.Leaves Model.Check Model.QcInst Model.Em.
Import ListNotations.
Local Open Scope nat_scope.

Definition qsqrt (x : Qc) : Qc :=
  match Qnum (this x) with
  | Zpos n =>
      let d := Zpos (Qden (this x)) in
      (* sqrt(n/d) ~ isqrt(floor(n 4^j / d)) / 2^j with j such that the radicand has >= 80 bits *)
      let j := Z.max 0 ((80 + Z.log2 d - Z.log2 (Zpos n)) / 2 + 1) in
      let r := Z.sqrt ((Zpos n * 4 ^ j) / d) in
      Q2Qc (inject_Z r / inject_Z (2 ^ j))
  | _ => 0%Qc
  end.
Definition qleb (a b : Qc) : bool := Qle_bool (this a) (this b).
Definition qofz (z : Z) : Qc := Q2Qc (inject_Z z).

Definition q_eps32 : Qc := q 1 8388608.      (* np.finfo(np.float32).eps = 2^-23 *)
Definition q_alpha : Qc := q 1 1024.         (* np.finfo(np.float16).eps = 2^-10 *)
Definition q_sdfloor : Qc := q 1 100000.     (* 1e-5 *)
Definition q_c01 : Qc := q 1 10.
Definition q_c05 : Qc := q 1 2.

Definition xtab := list (nat * list Qc).
Definition gtab := list ((Qc * Qc * nat) * list (Z * Qc)).
Fixpoint assoc_nat {A} (l : list (nat * A)) (v : nat) (d : A) : A :=
  match l with [] => d | (u, a) :: tl => if Nat.eqb u v then a else assoc_nat tl v d end.
Definition qxval (xs : xtab) (v : nat) (c : Z) : Qc := nth (Z.to_nat c) (assoc_nat xs v []) 0%Qc.
Definition qgdens (gd : gtab) (m sd : Qc) (v : nat) (c : Z) : Qc :=
  match find (fun e => match fst e with (m', sd', v') =>
                         (Qc_eq_bool m m' && Qc_eq_bool sd sd' && Nat.eqb v v')%bool end) gd with
  | Some e => lookup Qc 0%Qc (snd e) c
  | None => 0%Qc
  end.

Definition qeleaf := eleaf Qc.
Definition qenode := node Qc qeleaf.
Definition qetable := table Qc qeleaf.

Definition qem_iter (xs : xtab) (gd : gtab) (eta : Qc) (t : qetable) (rows : list row) : qetable :=
  em_iter Qc 0%Qc 1%Qc Qcplus Qcmult Qcminus Qcdiv qleb qsqrt qofz q_eps32 q_alpha q_sdfloor
          (qxval xs) (qgdens gd) eta t rows.
(* approximate engine for circuits with Gaussian leaves (the exact rationals of the variance
   re-estimate have tens of thousands of bits): the same model, every operation followed by a
   rounding to 100 significant bits (exact on short dyadic numbers, e.g. all float literals). *)
Definition rq (x : Qc) : Qc :=
  let n := Qnum (this x) in
  let d := Zpos (Qden (this x)) in
  if (n =? 0)%Z then x else
  let k := (100 + Z.log2 d - Z.log2 (Z.abs n))%Z in
  if (k <=? 0)%Z then x else Q2Qc (inject_Z ((n * 2 ^ k) / d) / inject_Z (2 ^ k)).
Definition radd a b := rq (Qcplus a b).
Definition rmul a b := rq (Qcmult a b).
Definition rsub a b := rq (Qcminus a b).
Definition rdiv a b := rq (Qcdiv a b).
Definition rem_iter (xs : xtab) (gd : gtab) (eta : Qc) (t : qetable) (rows : list row) : qetable :=
  em_iter Qc 0%Qc 1%Qc radd rmul rsub rdiv qleb qsqrt qofz q_eps32 q_alpha q_sdfloor
          (qxval xs) (qgdens gd) eta t rows.
Definition qem_init (t : qetable) (ds : list (option (draw Qc))) : qetable :=
  em_init Qc 1%Qc Qcplus Qcmult Qcminus q_c01 q_c05 t ds.
Definition qparams (n : qenode) : list Qc := params_of Qc n.
Definition qcore (t : qetable) : qtable := to_core Qc 1%Qc Qcminus t.

Fixpoint all_close (rel abs : Q) (a b : list Qc) : bool :=
  match a, b with
  | [], [] => true
  | x :: a', y :: b' => close rel abs x y && all_close rel abs a' b'
  | _, _ => false
  end.
Definition cmp_tables (rel abs : Q) (t : qetable) (exp : list (list Qc)) : list Z :=
  zipw (fun n e => if all_close rel abs e (qparams n) then 0%Z else 1%Z) t exp.

Definition em_rel : Q := 1 # 1000.
Definition em_abs : Q := 1 # 10000000.

(* one iteration: t = the implementation's parameters BEFORE the iteration (exact rationals),
   exp = its parameters AFTER it, node by node in table order.
   header: 64 = the model's result is not a valid normalised circuit although the input was exactly
   normalised; 32 = shapes differ (length); then one code per node (1 = parameters differ). *)
Record ecase := {
  ec_t : qetable; ec_xs : xtab; ec_gd : gtab; ec_eta : Qc; ec_rows : list row;
  ec_exp : list (list Qc);
  ec_round : bool;   (* use the rounded engine (circuits with Gaussian leaves) *)
  ec_exact : bool; ec_doms : list (nat * list Z); ec_cont : list nat }.
Definition run_ecase (c : ecase) : list Z :=
  let t' := (if ec_round c then rem_iter else qem_iter) (ec_xs c) (ec_gd c) (ec_eta c) (ec_t c) (ec_rows c) in
  (if ec_exact c
   then (if valid_b Qc 0%Qc 1%Qc Qcplus Qc_eq_bool (ec_doms c) (ec_cont c) (qcore t') then 0 else 64)
   else 0)%Z ::
  (if Nat.eqb (length t') (length (ec_exp c)) then 0 else 32)%Z ::
  cmp_tables em_rel em_abs t' (ec_exp c).

(* several iterations run by the model on its OWN results (discrete circuits): exact validity of the
   final model state and closeness to the implementation's final state (looser tolerance) *)
Record ccase := {
  cc_t : qetable; cc_eta : Qc; cc_batches : list (list row); cc_exp : list (list Qc);
  cc_doms : list (nat * list Z) }.
Definition chain_rel : Q := 1 # 200.
Definition run_ccase (c : ccase) : list Z :=
  let t' := fold_left (qem_iter [] [] (cc_eta c)) (cc_batches c) (cc_t c) in
  (if valid_b Qc 0%Qc 1%Qc Qcplus Qc_eq_bool (cc_doms c) [] (qcore t') then 0 else 64)%Z ::
  (if Nat.eqb (length t') (length (cc_exp c)) then 0 else 32)%Z ::
  cmp_tables chain_rel em_abs t' (cc_exp c).

(* random initialisation applied to the intercepted draws *)
Record icase := { ic_t : qetable; ic_draws : list (option (draw Qc)); ic_exp : list (list Qc) }.
Definition run_icase (c : icase) : list Z :=
  let t' := qem_init (ic_t c) (ic_draws c) in
  0%Z :: (if Nat.eqb (length t') (length (ic_exp c)) then 0 else 32)%Z ::
  cmp_tables em_rel em_abs t' (ic_exp c).
