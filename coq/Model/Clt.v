(* Model/Clt.v — binary Chow-Liu trees (deeprob/spn/structure/cltree.py), executable definitions.
   A CLT is given exactly as the implementation stores it: scope (variable ids by position),
   predecessor vector `tree` (None for -1) and params[i][l][k] = P(X_i = k | X_pa(i) = l) in the
   LINEAR domain.  Message passing (BinaryCLT.message_passing, reduce = 'mar' / 'mpe') is the
   structural recursion `up` over the rooted tree rebuilt from the predecessor vector; `tadd` is the
   reduction used for a missing variable (sum for 'mar', max for 'mpe'). *)
From Coq Require Import List Arith ZArith Bool.
From DV Require Import Model.Core.
Import ListNotations.

Section Clt.
  Variable T : Type.
  Variables (t0 t1 : T) (tadd tmul : T -> T -> T).
  Infix "+" := tadd. Infix "*" := tmul.
  Notation sumT := (sumT T t0 tadd).
  Notation prodT := (prodT T t1 tmul).

  Definition dom2 : list Z := [0%Z; 1%Z].

  (* rooted tree with a CPT per node: cpt parent_value own_value *)
  Inductive ctree := CT (var : nat) (cpt : Z -> Z -> T) (kids : list ctree).

  Fixpoint up (t : ctree) (pv : Z) (r : row) : T :=
    match t with
    | CT v cpt kids =>
        let term := fun x => cpt pv x * prodT (map (fun k => up k x r) kids) in
        match r v with
        | Some x => term x
        | None => sumT (map term dom2)
        end
    end.

  Fixpoint vars (t : ctree) : list nat :=
    match t with CT v _ kids => v :: flat_map vars kids end.

  (* the array representation used by the implementation *)
  Record clt := { cscope : list nat; cpar : list (option nat); cparams : list (list (list T)) }.

  Definition in01 (x : Z) : bool := (Z.leb 0 x && Z.leb x 1)%bool.
  Definition cpt_fn (c : clt) (i : nat) : Z -> Z -> T :=
    fun l k => if (in01 l && in01 k)%bool
               then nth (Z.to_nat k) (nth (Z.to_nat l) (nth i (cparams c) []) []) t0 else t0.
  Definition opt_eqb (a : option nat) (i : nat) : bool :=
    match a with Some j => Nat.eqb j i | None => false end.
  Definition children (c : clt) (i : nat) : list nat :=
    filter (fun j => opt_eqb (nth j (cpar c) None) i) (seq 0 (length (cpar c))).
  Fixpoint build (fuel : nat) (c : clt) (i : nat) : ctree :=
    match fuel with
    | O => CT (nth i (cscope c) 0) (cpt_fn c i) []
    | S f => CT (nth i (cscope c) 0) (cpt_fn c i) (map (build f c) (children c i))
    end.
  Fixpoint find_root (l : list (option nat)) (i : nat) : nat :=
    match l with [] => 0 | None :: _ => i | Some _ :: tl => find_root tl (S i) end.
  Definition croot (c : clt) : nat := find_root (cpar c) 0.
  Definition clt_tree (c : clt) : ctree := build (length (cpar c)) c (croot c).
  (* params[root, 0, .] is what message passing reads at the root *)
  Definition clt_val (c : clt) (r : row) : T := up (clt_tree c) 0%Z r.

  (* full-evidence gather of BinaryCLT.log_likelihood: prod_i params[i, x[tree[i]], x[i]];
     tree[root] = -1 indexes the LAST column (numpy negative index) *)
  Definition cell (c : clt) (r : row) (i : nat) : Z :=
    match r (nth i (cscope c) 0) with Some x => x | None => 0%Z end.
  Definition clt_gather (c : clt) (r : row) : T :=
    let n := length (cpar c) in
    prodT (map (fun i =>
      let pv := match nth i (cpar c) None with Some p => cell c r p | None => cell c r (n - 1) end in
      cpt_fn c i pv (cell c r i)) (seq 0 n)).
  Definition complete_on (sc : list nat) (r : row) : bool :=
    forallb (fun v => match r v with Some _ => true | None => false end) sc.
  (* BinaryCLT.likelihood as the code computes it: gather on complete rows, messages otherwise *)
  Definition clt_lik (c : clt) (r : row) : T :=
    if complete_on (cscope c) r then clt_gather c r else clt_val c r.

  (* boolean well-formedness of the array representation *)
  Fixpoint nodupb (l : list nat) : bool :=
    match l with [] => true | x :: xs => negb (existsb (Nat.eqb x) xs) && nodupb xs end.
  Definition clt_shape_ok (c : clt) : bool :=
    let n := length (cpar c) in
    (Nat.eqb (length (cscope c)) n && Nat.eqb (length (vars (clt_tree c))) n
     && nodupb (vars (clt_tree c)) && nodupb (cscope c) && Nat.ltb 0 n)%bool.
End Clt.
Arguments CT {T}.
Arguments Build_clt {T}. Arguments cscope {T}. Arguments cpar {T}. Arguments cparams {T}.

(* the batch function of BinaryCLT.log_likelihood: rows are split into a full-evidence group
   (vectorised gather) and a group with missing values (message passing), then merged by mask *)
Section CltBatch.
  Variable T : Type.
  Variables (t0 t1 : T) (tadd tmul : T -> T -> T).
  Fixpoint merge (mask : list bool) (a b : list T) : list T :=
    match mask with
    | [] => []
    | true :: m => match a with x :: a' => x :: merge m a' b | [] => [] end
    | false :: m => match b with y :: b' => y :: merge m a b' | [] => [] end
    end.
  Definition clt_batch (c : clt T) (rows : list row) : list T :=
    let full := complete_on (cscope c) in
    let mask := map full rows in
    if forallb (fun b => b) mask then map (clt_gather T t0 t1 tmul c) rows
    else merge mask (map (clt_gather T t0 t1 tmul c) (filter full rows))
                    (map (clt_val T t0 t1 tadd tmul c) (filter (fun r => negb (full r)) rows)).
End CltBatch.
