(* Model/ChowLiuRun.v — exact-rational (Qc) instance of Model/ChowLiu.v and the runner used by the
   C11 correspondence (harness/c11.py, engine E1).  Executable definitions only. *)
From Coq Require Import List Arith ZArith QArith Qabs Qcanon Bool.
From DV Require Import Model.Core Model.Clt Model.QcInst Model.ChowLiu Model.MstCert.
Import ListNotations.

Definition zq (z : Z) : Qc := Q2Qc (inject_Z z).

(* BinaryCLT.fit on a data matrix with a given predecessor vector, at exact rationals *)
Definition qcpt (d : dat) (alpha : Qc) : option nat -> nat -> bool -> bool -> Qc :=
  cpt Qc 0%Qc 1%Qc Qcplus Qcmult Qcminus Qcdiv (zq (nrows d)) alpha
      (fun i => zq (feat1 d i)) (fun i j => zq (dot11 d i j)).
Definition qprior (d : dat) (alpha : Qc) : nat -> bool -> Qc :=
  prior Qc 1%Qc Qcplus Qcmult Qcminus Qcdiv (zq (nrows d)) alpha (fun i => zq (feat1 d i)).
Definition qjoint (d : dat) (alpha : Qc) : nat -> nat -> bool -> bool -> Qc :=
  joint Qc 0%Qc 1%Qc Qcplus Qcmult Qcminus Qcdiv (zq (nrows d)) alpha
        (fun i => zq (feat1 d i)) (fun i j => zq (dot11 d i j)).
Definition qfit_params (d : dat) (alpha : Qc) (pars : list (option nat)) : list (list (list Qc)) :=
  fit_params Qc 0%Qc 1%Qc Qcplus Qcmult Qcminus Qcdiv (zq (nrows d)) alpha
             (fun i => zq (feat1 d i)) (fun i j => zq (dot11 d i j)) pars.
Definition qfit_clt (d : dat) (alpha : Qc) (scope : list nat) (pars : list (option nat)) : clt Qc :=
  Build_clt scope pars (qfit_params d alpha pars).

Definition qclt_val (c : clt Qc) (r : row) : Qc := clt_val Qc 0%Qc 1%Qc Qcplus Qcmult c r.
Definition qclt_lik (c : clt Qc) (r : row) : Qc := clt_lik Qc 0%Qc 1%Qc Qcplus Qcmult c r.

(* |impl - model| <= 2e-4 |model| + 1e-6 : params are float32 and priors[:,0] = 1 - priors[:,1]
   carries an ABSOLUTE float32 error (6e-8), hence the absolute term (relative error of a root
   prior of 3e-5 — constant column, alpha = 0.001, 60 rows — is 2e-3).  The same bound is used for
   likelihoods: every other factor is <= 1 and re-normalised, so the absolute error of the product
   is bounded by that of the root factor. *)
Definition close_par : Qc -> Qc -> bool := close tol_rel (1 # 1000000).

Fixpoint all2 {A B} (f : A -> B -> bool) (a : list A) (b : list B) : bool :=
  match a, b with
  | [], [] => true
  | x :: a', y :: b' => f x y && all2 f a' b'
  | _, _ => false
  end.
Definition params_close (impl model : list (list (list Qc))) : bool :=
  all2 (all2 (all2 close_par)) impl model.

Definition wfun (W : list (list Z)) (i j : nat) : Z := nth j (nth i W []) 0%Z.
Definition flag (b : bool) (code : Z) : Z := if b then 0%Z else code.

(* one fitted tree.  Inputs: data rows, alpha, requested root POSITION, the implementation's
   predecessor vector / bfs order / exp(params), its MI matrix as integers (common scaling),
   the integer slack, the scope (variable ids by position), query rows with the implementation's
   likelihood.  Output: sum of flag codes, 0 = everything agrees.
     1 params differ from the smoothed conditionals     2 predecessor vector is not a spanning tree rooted at root
     4 weight < brute-force maximum - slack (n <= 7)    8 weight < Prim reference - slack
    16 bfs order invalid                                32 fitted model tree malformed or all-missing value <> 1
    64 likelihood of a query row differs               128 data not a binary n-column matrix
   256 cycle-property certificate (every n): some pair (u,v) is not connected by tree edges of weight >= w u v - eps *)
Definition run_c11case (d : dat) (alpha : Qc) (root : nat) (par : list (option nat)) (bfs : list nat)
    (params : list (list (list Qc))) (W : list (list Z)) (slack eps : Z) (scope : list nat)
    (queries : list (list (option Z) * Qc)) : Z :=
  let n := length par in
  let w := wfun W in
  let c := qfit_clt d alpha scope par in
  let tree_ok := is_tree n root par in
  (flag (params_close params (cparams c)) 1
   + flag tree_ok 2
   + flag (if Nat.leb n 7 then opt_cert w n root par slack else true) 4
   + flag (Z.leb (prim_weight w n root - slack) (weight w par)) 8
   + flag (bfs_ok n root par bfs) 16
   + flag (if tree_ok then clt_shape_ok Qc 0%Qc c && Qc_eq_bool (qclt_val c row_none) 1%Qc else true) 32
   + flag (if tree_ok then forallb (fun qr => close_par (snd qr) (qclt_lik c (mkrow (fst qr)))) queries else true) 64
   + flag (binary_data n d) 128
   + flag (mst_cert w par n root eps) 256)%Z.
