(* Model/Gate.v — deeprob/context.py: the context flags that enable / disable the validation gate.
   The context variable holds one record of flags; a ContextState object captures, WHEN IT IS CREATED,
   a copy of the current record with the given flags overridden; entering it installs that record and
   keeps the token of the previous one; leaving it (normally or because the block raised) restores the
   previous record.  A `with ContextState` statement creates and enters at the same point (OWith);
   a decorated function enters an object created earlier, at definition time (ODeco: the record is built
   from the flags current when the program started). *)
From Coq Require Import List Arith Bool.
Import ListNotations.

Record flags := { f_dtype : bool; f_spn : bool }.
Definition default_flags : flags := {| f_dtype := true; f_spn := true |}.
(* keyword arguments: None = flag not mentioned *)
Record kwargs := { k_dtype : option bool; k_spn : option bool }.
Definition override (f : flags) (k : kwargs) : flags :=
  {| f_dtype := match k_dtype k with Some b => b | None => f_dtype f end;
     f_spn := match k_spn k with Some b => b | None => f_spn f end |}.

Inductive op :=
| OQuery                      (* read both flags *)
| OWith (k : kwargs)          (* with ContextState(k): *)
| ODeco (k : kwargs)          (* call of a function decorated, at program start, with @ContextState(k) *)
| OExit (raised : bool).      (* the innermost block is left: normally / by an exception *)

Record gstate := { cur : flags; saved : list flags; top : flags }.
Definition ginit (f : flags) : gstate := {| cur := f; saved := []; top := f |}.

Definition gstep (s : gstate) (o : op) : gstate * list (nat * flags) :=
  match o with
  | OQuery => (s, [(length (saved s), cur s)])
  | OWith k => ({| cur := override (cur s) k; saved := cur s :: saved s; top := top s |}, [])
  | ODeco k => ({| cur := override (top s) k; saved := cur s :: saved s; top := top s |}, [])
  | OExit _ => (match saved s with
                | [] => s
                | f :: tl => {| cur := f; saved := tl; top := top s |}
                end, [])
  end.
Fixpoint grun (s : gstate) (l : list op) : gstate * list (nat * flags) :=
  match l with
  | [] => (s, [])
  | o :: tl => let (s1, o1) := gstep s o in let (s2, o2) := grun s1 tl in (s2, o1 ++ o2)
  end.

(* what the harness compares: the flags seen by every query, in order *)
Definition flag_code (f : flags) : nat := (if f_dtype f then 2 else 0) + (if f_spn f then 1 else 0).
Definition run_gate (l : list op) : list nat := map (fun df => flag_code (snd df)) (snd (grun (ginit default_flags) l)).
