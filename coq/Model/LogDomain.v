(* Model/LogDomain.v — log-domain bottom-up evaluation (eval_bottom_up with node_func =
   Sum.log_likelihood = logsumexp(x, b=weights) and Product.log_likelihood = sum), over an abstract
   type L of log-numbers.  l0 stands for log 0 (-inf / the -1e31 floor). *)
From Coq Require Import List Arith ZArith Bool.
From DV Require Import Model.Core.
Import ListNotations.

Section LogDomain.
  Variables T L : Type.
  Variable l0 : L.
  Variable lprod : list L -> L.             (* np.sum(x, axis=1) *)
  Variable lse : list T -> list L -> L.     (* logsumexp(x, b=weights) *)
  Variable leaf : Type.
  Variable leaf_ll : leaf -> row -> L.

  Definition lnode_val (n : node T leaf) (vs : list L) (r : row) : L :=
    match nkind n with
    | KLeaf l => leaf_ll l r
    | KSum ws => lse ws (map (fun k => nth k vs l0) (nkids n))
    | KProd => lprod (map (fun k => nth k vs l0) (nkids n))
    end.
  Definition lvals (t : table T leaf) (r : row) : list L :=
    fold_left (fun vs n => vs ++ [lnode_val n vs r]) t [].
End LogDomain.
