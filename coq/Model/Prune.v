(* Model/Prune.v — deeprob/spn/algorithms/structure.py: prune.
   One pass in table order (children first = the code's reversed topological order) that REBUILDS a
   new table by appending and keeps m : old index -> new index (the code's nodes_map; the in-place
   mutation of a kept node is the single rebuilt node; absorbed nodes stay behind as unreachable
   garbage, which assign_ids ignores). *)
From Coq Require Import List Arith ZArith Bool.
From DV Require Import Model.Core.
Import ListNotations.

Section Prune.
  Variable T : Type.
  Variables (t0 t1 : T) (tadd tmul : T -> T -> T).
  Variable leaf : Type.
  Notation node := (node T leaf).
  Notation table := (table T leaf).
  Notation dnode := (dummy_node T leaf).

  (* children_weights[child] += w   (insertion-ordered dictionary keyed by the child object) *)
  Fixpoint merge_add (k : nat) (w : T) (acc : list (nat * T)) : list (nat * T) :=
    match acc with
    | [] => [(k, w)]
    | (k', w') :: tl => if Nat.eqb k k' then (k', tadd w' w) :: tl else (k', w') :: merge_add k w tl
    end.
  Definition merge_all (l : list (nat * T)) : list (nat * T) :=
    fold_left (fun a kw => merge_add (fst kw) (snd kw) a) l [].

  (* the (child, weight) pairs of a sum after absorbing children that are sums *)
  Definition expand_sum (new : table) (ws : list T) (ks : list nat) : list (nat * T) :=
    flat_map (fun wk : T * nat =>
                let (w, k) := wk in
                match nkind (nth k new dnode) with
                | KSum ws' => combine (nkids (nth k new dnode)) (map (tmul w) ws')
                | _ => [(k, w)]
                end) (combine ws ks).
  Definition expand_prod (new : table) (ks : list nat) : list nat :=
    flat_map (fun k => match nkind (nth k new dnode) with
                       | KProd => nkids (nth k new dnode)
                       | _ => [k]
                       end) ks.

  Definition pstate := (table * list nat)%type.

  Definition prune_step (st : pstate) (n : node) : pstate :=
    let (new, m) := st in
    match nkind n with
    | KLeaf l => (new ++ [Build_node (KLeaf l) (nscope n) []], m ++ [length new])
    | KProd =>
        let ks := map (fun k => nth k m 0) (nkids n) in
        match ks with
        | [k] => (new, m ++ [k])
        | _ => (new ++ [Build_node KProd (nscope n) (expand_prod new ks)], m ++ [length new])
        end
    | KSum ws =>
        let ks := map (fun k => nth k m 0) (nkids n) in
        match ks with
        | [k] => (new, m ++ [k])
        | _ =>
            let acc := merge_all (expand_sum new ws ks) in
            match acc with
            | [(k, _)] => (new, m ++ [k])      (* repaired code: one distinct child left *)
            | _ => (new ++ [Build_node (KSum (map snd acc)) (nscope n) (map fst acc)], m ++ [length new])
            end
        end
    end.
  Definition prune_state (t : table) : pstate := fold_left prune_step t ([], []).
  Definition prune_root (t : table) : nat := nth (length t - 1) (snd (prune_state t)) 0.

  (* the pinned code kept a sum with one distinct child *)
  Definition prune_step_pinned (st : pstate) (n : node) : pstate :=
    let (new, m) := st in
    match nkind n with
    | KSum ws =>
        let ks := map (fun k => nth k m 0) (nkids n) in
        match ks with
        | [k] => (new, m ++ [k])
        | _ => let acc := merge_all (expand_sum new ws ks) in
               (new ++ [Build_node (KSum (map snd acc)) (nscope n) (map fst acc)], m ++ [length new])
        end
    | _ => prune_step st n
    end.

  (* ---- structural views used by the correspondence ---- *)
  Inductive utree := ULeaf (l : leaf) (sc : list nat) | USum (ws : list T) (sc : list nat) (ks : list utree)
                   | UProd (sc : list nat) (ks : list utree).
  Fixpoint unfold (fuel : nat) (t : table) (i : nat) : utree :=
    let n := nth i t dnode in
    match fuel with
    | O => UProd [] []
    | S f =>
        match nkind n with
        | KLeaf l => ULeaf l (nscope n)
        | KSum ws => USum ws (nscope n) (map (unfold f t) (nkids n))
        | KProd => UProd (nscope n) (map (unfold f t) (nkids n))
        end
    end.
  (* reachable nodes from i (children-first tables: a descending sweep) *)
  Fixpoint reach_aux (t : table) (i : nat) (marks : list bool) : list bool :=
    match i with
    | O => marks
    | S j =>
        let marks' := if nth j marks false
                      then fold_left (fun mk k => firstn k mk ++ [true] ++ skipn (S k) mk) (nkids (nth j t dnode)) marks
                      else marks in
        reach_aux t j marks'
    end.
  Definition reachable (t : table) (root : nat) : list bool :=
    let init := repeat false root ++ [true] ++ repeat false (length t - S root) in
    reach_aux t (S root) init.
  Definition count_true (l : list bool) : nat := length (filter (fun b => b) l).

  (* normal form of the reachable part: no inner node with one child, no sum under sum, no product
     under product, a sum's children pairwise distinct *)
  Fixpoint nodupb_nat (l : list nat) : bool :=
    match l with [] => true | x :: xs => negb (existsb (Nat.eqb x) xs) && nodupb_nat xs end.
  Definition nf_node (t : table) (n : node) : bool :=
    match nkind n with
    | KLeaf _ => true
    | KSum _ => negb (Nat.eqb (length (nkids n)) 1) && nodupb_nat (nkids n) &&
                forallb (fun k => match nkind (nth k t dnode) with KSum _ => false | _ => true end) (nkids n)
    | KProd => negb (Nat.eqb (length (nkids n)) 1) &&
               forallb (fun k => match nkind (nth k t dnode) with KProd => false | _ => true end) (nkids n)
    end.
  Definition nf_b (t : table) (root : nat) : bool :=
    forallb (fun p : bool * node => if fst p then nf_node t (snd p) else true) (combine (reachable t root) t).
End Prune.
Arguments ULeaf {T leaf}. Arguments USum {T leaf}. Arguments UProd {T leaf}.
