(* Model/CnetRun.v — runner of the E1 correspondence for cutset networks (C18) at exact rationals. *)
From Coq Require Import List Arith ZArith QArith Qabs Qcanon Bool.
From DV Require Import Model.Core Model.Clt Model.Check Model.QcInst Model.Cnet.
Import ListNotations.
Local Open Scope nat_scope.

Definition qornode := ornode Qc.
Definition qcnet_val : qornode -> row -> Qc := cnet_val Qc 0%Qc 1%Qc Qcplus Qcmult.
Definition qcnet_gat : qornode -> row -> Qc := cnet_gat Qc 0%Qc 1%Qc Qcplus Qcmult.
Definition qcnet_pos : qornode -> list Z -> Qc := cnet_pos Qc 0%Qc 1%Qc Qcmult.
Definition qcnet_batch : qornode -> matrix -> nat -> list Qc := cnet_batch Qc 0%Qc 1%Qc Qcmult.
Definition qwf_cnetb : qornode -> bool := wf_cnetb Qc 0%Qc.
Definition qnorm_cnetb : qornode -> bool := norm_cnetb Qc 0%Qc 1%Qc Qcplus Qc_eq_bool.
Definition qgroot_okb : qornode -> bool := groot_okb Qc 0%Qc Qc_eq_bool.

(* all binary rows of a given width, in the order of itertools.product([0,1], repeat=n) *)
Fixpoint all_bin (n : nat) : list (list Z) :=
  match n with
  | O => [[]]
  | S k => map (cons 0%Z) (all_bin k) ++ map (cons 1%Z) (all_bin k)
  end.

Fixpoint qlist_eqb (a b : list Qc) : bool :=
  match a, b with
  | [], [] => true
  | x :: a', y :: b' => Qc_eq_bool x y && qlist_eqb a' b'
  | _, _ => false
  end.

Record cncase := {
  cn_c : qornode;          (* the object extracted from the implementation *)
  cn_exact : bool;         (* parameters are dyadic: normalisation is checked exactly *)
  cn_batch : bool;         (* also run the FIFO batch model *)
  cn_impl : list Qc }.     (* exp(log_likelihood) on ALL binary rows, product order *)

Definition tol_mass : Q := 2 # 100000.
Definition tol_abs_row : Q := 1 # 1000000000000000.
Definition close_row := close tol_rel tol_abs_row.

Fixpoint row_codes (impl : list Qc) (sem pos gat : list Qc) : list Z :=
  match impl, sem, pos, gat with
  | i :: impl', s :: sem', p :: pos', g :: gat' =>
      ((if close_row i s then 0 else 1) + (if Qc_eq_bool p s then 0 else 2) +
       (if Qc_eq_bool g s then 0 else 4))%Z :: row_codes impl' sem' pos' gat'
  | _, _, _, _ => []
  end.

(* header (5 codes): 64 certificate wf_cnetb / groot_okb fails; 32 total mass (= value of the all-missing row)
   is not one (exactly for dyadic parameters, within 2e-5 for learned float parameters);
   16 sum of the model over all rows <> value of the all-missing row; 8 FIFO batch model <>
   row-wise positional model; 4 wrong number of implementation outputs.
   per row: 1 implementation differs from the OR-tree semantics; 2 positional evaluation (column
   deletion, gather) differs from the semantics; 4 gather-leaf semantics differs from message passing *)
Definition run_cncase (c : cncase) : list Z :=
  let n := cn_c c in
  let sc := osc Qc n in
  let w := length sc in
  let rows := all_bin w in
  let sem := map (fun xs => qcnet_val n (row_of sc xs)) rows in
  let gat := map (fun xs => qcnet_gat n (row_of sc xs)) rows in
  let pos := map (qcnet_pos n) rows in
  let mass := qcnet_val n row_none in
  (if qwf_cnetb n && qgroot_okb n then 0 else 64)%Z ::
  (if cn_exact c then (if qnorm_cnetb n && Qc_eq_bool mass 1%Qc then 0 else 32)
   else (if close 0 tol_mass mass 1%Qc then 0 else 32))%Z ::
  (if Qc_eq_bool (qsum sem) mass then 0 else 16)%Z ::
  (if cn_batch c then (if qlist_eqb (qcnet_batch n rows w) pos then 0 else 8) else 0)%Z ::
  (if Nat.eqb (length (cn_impl c)) (length rows) then 0 else 4)%Z ::
  row_codes (cn_impl c) sem pos gat.
