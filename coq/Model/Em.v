(* Model/Em.v — batch Expectation-Maximisation in the LINEAR domain, executable definitions only.
   Mirrors, in /repo:
     deeprob/spn/learning/em.py            expectation_maximization  (em_iter / em_iters / em_init)
     deeprob/spn/algorithms/gradient.py    eval_backward             (bwd / grads)
     deeprob/spn/structure/node.py         Sum.em_init / Sum.em_step (sum_step)
     deeprob/spn/structure/leaf.py         Bernoulli / Categorical / Gaussian .em_init / .em_step
     deeprob/spn/structure/cltree.py       BinaryCLT.em_init / .em_step (clt_reest / clt_step)
   The code works with log-values (lls, log-gradients); here v = exp(ll), g = exp(log-gradient).
   Number type: any (T, 0, 1, +, *, -, /) with a comparison (for max), a square root and a Gaussian
   density given as operations (`tsqrt`, `gdens`: TransOps of DESIGN §2.1 — never used by a theorem
   except through what is stated about them).  Data are assumed complete (no NaN) as EM requires. *)
From Coq Require Import List Arith ZArith Bool.
From DV Require Import Model.Core Model.Clt Model.Leaves.
Import ListNotations.

Section Zip.
  Context {A B C : Type}.
  Fixpoint zipw (f : A -> B -> C) (l1 : list A) (l2 : list B) : list C :=
    match l1, l2 with x :: l1', y :: l2' => f x y :: zipw f l1' l2' | _, _ => [] end.
End Zip.

Section Em.
  Variable T : Type.
  Variables (t0 t1 : T) (tadd tmul tsub tdiv : T -> T -> T).
  Variable tleb : T -> T -> bool.
  Variable tsqrt : T -> T.
  Variable tofz : Z -> T.
  (* np.finfo(np.float32).eps, np.finfo(np.float16).eps, 1e-5 *)
  Variables (eps32 alpha sdfloor : T).
  (* continuous cells travel as codes: xval v c is the real value of code c of variable v,
     gdens mean sd v c the N(mean, sd^2) density at that value (oracle, scipy.stats.norm.pdf) *)
  Variable xval : nat -> Z -> T.
  Variable gdens : T -> T -> nat -> Z -> T.
  Infix "+" := tadd. Infix "*" := tmul. Infix "-" := tsub. Infix "/" := tdiv.
  Notation sumT := (sumT T t0 tadd).
  Notation prodT := (prodT T t1 tmul).
  Notation dotT := (dotT T t0 tadd tmul).

  Definition t2 : T := t1 + t1.
  Definition t4 : T := t2 + t2.
  Definition tmax (a b : T) : T := if tleb a b then b else a.
  (* (1.0 - step_size) * old + step_size * new *)
  Definition mix (eta old new : T) : T := (t1 - eta) * old + eta * new.

  (* ------------------------------------------------------------------ leaves *)
  Inductive eleaf :=
  | EBern (v : nat) (p : T)
  | ECat (v : nat) (cats : list Z) (probs : list T)
  | EGauss (v : nat) (mean sd : T)
  | EClt (c : clt T).

  Definition bern_val (p : T) (x : Z) : T :=
    if Z.eqb x 1 then p else if Z.eqb x 0 then t1 - p else t0.
  Definition eleaf_val (l : eleaf) (r : row) : T :=
    match l with
    | EBern v p => match r v with None => t1 | Some x => bern_val p x end
    | ECat v cats ps => match r v with None => t1 | Some x => lookup T t0 (combine cats ps) x end
    | EGauss v m sd => match r v with None => t1 | Some x => gdens m sd v x end
    | EClt c => clt_lik T t0 t1 tadd tmul c r
    end.
  Definition eleaf_scope (l : eleaf) : list nat :=
    match l with EBern v _ | ECat v _ _ | EGauss v _ _ => [v] | EClt c => cscope c end.

  Definition enode := node T eleaf.
  Definition etable := table T eleaf.
  (* forward pass: log_likelihood(root, batch, return_results=True), one row *)
  Definition evals (t : etable) (r : row) : list T := vals T t0 t1 tadd tmul eleaf eleaf_val t r.

  (* ------------------------------------------------------------------ backward pass *)
  Fixpoint add_at (k : nat) (x : T) (l : list T) : list T :=
    match l, k with
    | [], _ => []
    | y :: l', O => (y + x) :: l'
    | y :: l', S k' => y :: add_at k' x l'
    end.
  (* (kid, local factor) for every outgoing edge of a node with value vn:
     sum: g + log w ; product: g + lls[node] - lls[child] *)
  Definition edges (n : enode) (vs : list T) (vn : T) : list (nat * T) :=
    match nkind n with
    | KLeaf _ => []
    | KSum ws => combine (nkids n) ws
    | KProd => map (fun k => (k, vn / nth k vs t0)) (nkids n)
    end.
  Definition push (g : T) (acc : list T) (es : list (nat * T)) : list T :=
    fold_left (fun a e => add_at (fst e) (g * snd e) a) es acc.
  (* rt = table in REVERSE order (parents first = a topological order); acc = cached gradients,
     summed (logsumexp) when the node is reached *)
  Fixpoint bwd (rt : list enode) (vs acc : list T) : list T :=
    match rt with
    | [] => acc
    | n :: rt' =>
        let i := length rt' in
        bwd rt' vs (push (nth i acc t0) acc (edges n vs (nth i vs t0)))
    end.
  Definition seed (n : nat) : list T := repeat t0 (n - 1) ++ [t1].
  Definition grads (t : etable) (vs : list T) : list T := bwd (rev t) vs (seed (length t)).

  (* ------------------------------------------------------------------ sufficient statistics *)
  Record rinfo := { ri_row : row; ri_vs : list T; ri_gs : list T; ri_root : T }.
  Definition mk_rinfo (t : etable) (r : row) : rinfo :=
    let vs := evals t r in
    {| ri_row := r; ri_vs := vs; ri_gs := grads t vs; ri_root := nth (length t - 1) vs t0 |}.
  (* np.exp(lls[node.id] - root_ll + grads[node.id]) *)
  Definition leaf_stat (i : nat) (ri : rinfo) : T :=
    nth i (ri_vs ri) t0 * nth i (ri_gs ri) t0 / ri_root ri.
  (* np.exp(children_ll - root_ll + grads[node.id]) for child k *)
  Definition edge_stat (i k : nat) (ri : rinfo) : T :=
    nth k (ri_vs ri) t0 * nth i (ri_gs ri) t0 / ri_root ri.

  (* ------------------------------------------------------------------ update formulas *)
  (* Sum.em_step: unnorm = w * sum(stats) + eps; w' = (1-eta) w + eta unnorm / sum(unnorm) *)
  Definition sum_reest (ws ss : list T) : list T :=
    let u := zipw (fun w s => w * s + eps32) ws ss in map (fun x => x / sumT u) u.
  Definition sum_step (eta : T) (ws ss : list T) : list T := zipw (mix eta) ws (sum_reest ws ss).

  Definition cellz (r : row) (v : nat) : Z := match r v with Some x => x | None => 0%Z end.

  (* Bernoulli.em_step *)
  Definition bern_reest (st : list T) (xs : list Z) : T :=
    (dotT st (map tofz xs) + alpha) / (sumT st + t2 * alpha).
  (* Categorical.em_step *)
  Definition cat_count (st : list T) (xs : list Z) (d : Z) : T :=
    sumT (zipw (fun s x => if Z.eqb x d then s else t0) st xs).
  Definition cat_reest (st : list T) (xs : list Z) (cats : list Z) : list T :=
    let tot := sumT st in
    map (fun d => (cat_count st xs d + alpha) / (tot + tofz (Z.of_nat (length cats)) * alpha)) cats.
  (* Gaussian.em_step: returns (mean, stddev) re-estimates *)
  Definition gauss_var (st xs : list T) : T * T :=
    let tot := sumT st + eps32 in
    let m := dotT st xs / tot in
    (m, sumT (zipw (fun s x => s * ((x - m) * (x - m))) st xs) / tot).
  Definition gauss_reest (st xs : list T) : T * T :=
    let mv := gauss_var st xs in (fst mv, tmax (tsqrt (snd mv)) sdfloor).

  (* BinaryCLT.em_step: the re-estimated tables params[i][l][k] before mixing *)
  Definition clt_pa (c : clt T) (i : nat) : nat :=
    match nth i (cpar c) None with Some p => p | None => length (cpar c) - 1 end.
  Definition clt_reest (c : clt T) (st : list T) (rows : list row) : list (list (list T)) :=
    let tot := sumT st in
    let x := fun i r => tofz (cell T c r i) in
    let P := fun i => sumT (zipw (fun s r => s * x i r) st rows) in
    let prior1 := fun i => (P i + t2 * alpha) / (tot + t4 * alpha) in
    let prior := fun (l : bool) i => if l then prior1 i else t1 - prior1 i in
    let C1 := fun i => sumT (zipw (fun s r => s * x i r * x (clt_pa c i) r) st rows) in
    let C := fun (l : bool) i => if l then C1 i else P i - C1 i in
    map (fun i =>
           match nth i (cpar c) None with
           | None => [[prior false i; prior true i]; [prior false i; prior true i]]
           | Some _ =>
               map (fun l : bool =>
                      let e1 := (C l i + alpha) / (tot * prior l (clt_pa c i) + t4 * alpha) in
                      [t1 - e1; e1]) [false; true]
           end) (seq 0 (length (cpar c))).
  (* mix, then re-normalise every row (params /= params.sum(axis=2)) *)
  Definition mix_row (eta : T) (old new : list T) : list T :=
    let m := zipw (mix eta) old new in map (fun x => x / sumT m) m.
  Definition clt_step (eta : T) (c : clt T) (st : list T) (rows : list row) : clt T :=
    {| cscope := cscope c; cpar := cpar c;
       cparams := zipw (zipw (mix_row eta)) (cparams c) (clt_reest c st rows) |}.

  Definition leaf_step (eta : T) (l : eleaf) (st : list T) (rows : list row) : eleaf :=
    match l with
    | EBern v p => EBern v (mix eta p (bern_reest st (map (fun r => cellz r v) rows)))
    | ECat v cats ps => ECat v cats (zipw (mix eta) ps (cat_reest st (map (fun r => cellz r v) rows) cats))
    | EGauss v m sd =>
        let e := gauss_reest st (map (fun r => xval v (cellz r v)) rows) in
        EGauss v (mix eta m (fst e)) (mix eta sd (snd e))
    | EClt c => EClt (clt_step eta c st rows)
    end.

  (* ------------------------------------------------------------------ one EM iteration on a batch *)
  Definition em_node (eta : T) (ris : list rinfo) (i : nat) (n : enode) : enode :=
    match nkind n with
    | KSum ws =>
        let ss := map (fun k => sumT (map (edge_stat i k) ris)) (nkids n) in
        {| nkind := KSum (sum_step eta ws ss); nscope := nscope n; nkids := nkids n |}
    | KProd => n
    | KLeaf l =>
        {| nkind := KLeaf (leaf_step eta l (map (leaf_stat i) ris) (map ri_row ris));
           nscope := nscope n; nkids := nkids n |}
    end.
  Definition em_iter (eta : T) (t : etable) (batch : list row) : etable :=
    let ris := map (mk_rinfo t) batch in
    map (fun p => em_node eta ris (fst p) (snd p)) (combine (seq 0 (length t)) t).
  (* the loop of expectation_maximization: one batch per iteration *)
  Definition em_iters (eta : T) (t : etable) (batches : list (list row)) : etable :=
    fold_left (em_iter eta) batches t.

  (* ------------------------------------------------------------------ random initialisation *)
  (* the draws consumed by em_init, in the order the code makes them *)
  Inductive draw :=
  | DVec (ws : list T)            (* dirichlet(ones(k)): Sum, Categorical *)
  | DOne (p : T)                  (* rand(): Bernoulli *)
  | DGauss (z tanh_z : T)         (* randn(), tanh(randn()) (tanh is an oracle) *)
  | DClt (ps : list (T * T)).     (* rand(n, 2) *)
  Variables (c01 c05 : T).         (* 1e-1, 0.5 *)
  Definition clt_init (c : clt T) (ps : list (T * T)) : clt T :=
    {| cscope := cscope c; cpar := cpar c;
       cparams := map (fun ip =>
           let i := fst ip in let p := snd ip in
           (* probs[root, 0] = probs[root, 1] *)
           let p0 := match nth i (cpar c) None with None => snd p | Some _ => fst p end in
           [[t1 - p0; p0]; [t1 - snd p; snd p]]) (combine (seq 0 (length ps)) ps) |}.
  Definition init_node (n : enode) (d : draw) : enode :=
    let mk := fun k => {| nkind := k; nscope := nscope n; nkids := nkids n |} in
    match nkind n, d with
    | KSum _, DVec ws => mk (KSum ws)
    | KLeaf (EBern v _), DOne p => mk (KLeaf (EBern v p))
    | KLeaf (ECat v cats _), DVec ps => mk (KLeaf (ECat v cats ps))
    | KLeaf (EGauss v _ _), DGauss z tz => mk (KLeaf (EGauss v (c01 * z) (c05 + c01 * tz)))
    | KLeaf (EClt c), DClt ps => mk (KLeaf (EClt (clt_init c ps)))
    | _, _ => n
    end.
  (* ds: one optional draw per table position (products get none) *)
  Definition em_init (t : etable) (ds : list (option draw)) : etable :=
    zipw (fun n d => match d with Some d' => init_node n d' | None => n end) t ds.

  (* flat parameter vector of a node (what the correspondence compares) *)
  Definition params_of (n : enode) : list T :=
    match nkind n with
    | KSum ws => ws
    | KProd => []
    | KLeaf (EBern _ p) => [p]
    | KLeaf (ECat _ _ ps) => ps
    | KLeaf (EGauss _ m sd) => [m; sd]
    | KLeaf (EClt c) => concat (concat (cparams c))
    end.
  (* structure of a node: everything except parameters *)
  Inductive shape := SSum | SProd | SBern (v : nat) | SCat (v : nat) (cats : list Z)
                   | SGauss (v : nat) | SClt (sc : list nat) (par : list (option nat)).
  Definition shape_of (n : enode) : shape * list nat * list nat :=
    (match nkind n with
     | KSum _ => SSum
     | KProd => SProd
     | KLeaf (EBern v _) => SBern v
     | KLeaf (ECat v cats _) => SCat v cats
     | KLeaf (EGauss v _ _) => SGauss v
     | KLeaf (EClt c) => SClt (cscope c) (cpar c)
     end, nscope n, nkids n).

  (* conversion to the shared leaf type of Model/Leaves.v (for the certificate checker valid_b);
     Gaussian leaves become empty tables over a variable declared continuous *)
  Definition to_core_leaf (l : eleaf) : leaf T :=
    match l with
    | EBern v p => LTab v [(0%Z, t1 - p); (1%Z, p)]
    | ECat v cats ps => LTab v (combine cats ps)
    | EGauss v _ _ => LTab v []
    | EClt c => LClt c
    end.
  Definition to_core (t : etable) : table T (leaf T) :=
    map (fun n => {| nkind := match nkind n with
                              | KLeaf l => KLeaf (to_core_leaf l)
                              | KSum ws => KSum ws
                              | KProd => KProd
                              end; nscope := nscope n; nkids := nkids n |}) t.
End Em.

Arguments EBern {T}. Arguments ECat {T}. Arguments EGauss {T}. Arguments EClt {T}.
Arguments DVec {T}. Arguments DOne {T}. Arguments DGauss {T}. Arguments DClt {T}.
