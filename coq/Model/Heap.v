(* Model/Heap.v — structural validation (deeprob/spn/utils/validity.py: check_spn, is_labeled,
   is_smooth, is_decomposable; deeprob/spn/structure/node.py: bfs; deeprob/context.py flag) over
   ARBITRARY object graphs: any ids (None allowed), any scopes, any child references, cycles. *)
From Coq Require Import List Arith Bool.
From DV Require Import Model.Clt Model.Check.
Import ListNotations.

Inductive hkind := HSum (nw : option nat) (* number of weights; None = weights is None *) | HProd | HLeaf.
Record obj := { oid : option nat; okind : hkind; oscope : list nat; okids : list nat }.
Definition heap := list obj.
Definition dummy_obj : obj := {| oid := None; okind := HLeaf; oscope := []; okids := [] |}.
Definition hget (h : heap) (k : nat) : obj := nth k h dummy_obj.

(* node.bfs: breadth-first from the root with a seen set; fuel = number of objects suffices *)
Fixpoint bfs_aux (fuel : nat) (h : heap) (queue seen : list nat) : list nat :=
  match fuel with
  | O => []
  | S f =>
      match queue with
      | [] => []
      | x :: q =>
          let fresh := fold_left (fun acc c => if memb c (seen ++ acc) then acc else acc ++ [c]) (okids (hget h x)) [] in
          x :: bfs_aux f h (q ++ fresh) (seen ++ fresh)
      end
  end.
Definition bfs (h : heap) (root : nat) : list nat := bfs_aux (S (length h)) h [root] [root].
Definition collect_nodes (h : heap) (root : nat) : list obj := map (hget h) (bfs h root).

Definition kid_scopes (h : heap) (o : obj) : list (list nat) := map (fun k => oscope (hget h k)) (okids o).
Definition is_some {A} (x : option A) : bool := match x with Some _ => true | None => false end.
Definition oget (x : option nat) : nat := match x with Some v => v | None => 0 end.
Definition opt_nat_eqb (a b : option nat) : bool :=
  match a, b with Some x, Some y => Nat.eqb x y | None, None => true | _, _ => false end.

(* is_labeled: no None, no repeats, min = 0, max = len - 1 *)
Definition labeled_b (nodes : list obj) : bool :=
  let ids := map oid nodes in
  forallb is_some ids &&
  (let l := map oget ids in
   nodupb l && Nat.eqb (fold_right Nat.min (hd 0 l) l) 0 && Nat.eqb (fold_right Nat.max 0 l) (length l - 1)).

(* is_smooth, per sum node *)
Definition smooth_node (h : heap) (o : obj) : bool :=
  match okind o with
  | HSum nw => negb (Nat.eqb (length (okids o)) 0) && opt_nat_eqb nw (Some (length (okids o))) &&
               forallb (fun s => seteqb s (oscope o)) (kid_scopes h o)
  | _ => true
  end.
(* is_decomposable (repaired): concatenated children scopes duplicate-free and equal, as a set, to the scope *)
Definition decomp_node (h : heap) (o : obj) : bool :=
  match okind o with
  | HProd => negb (Nat.eqb (length (okids o)) 0) &&
             (let cs := concat (kid_scopes h o) in nodupb cs && seteqb cs (oscope o))
  | _ => true
  end.
(* the pinned is_decomposable compared only the union *)
Definition decomp_node_pinned (h : heap) (o : obj) : bool :=
  match okind o with
  | HProd => negb (Nat.eqb (length (okids o)) 0) && seteqb (concat (kid_scopes h o)) (oscope o)
  | _ => true
  end.

Inductive verdict := Accept | RejLabeled | RejSmooth | RejDecomp.

Definition check_nodes (h : heap) (nodes : list obj) (labeled smooth decomposable : bool) : verdict :=
  if labeled && negb (labeled_b nodes) then RejLabeled
  else if smooth && negb (forallb (smooth_node h) nodes) then RejSmooth
  else if decomposable && negb (forallb (decomp_node h) nodes) then RejDecomp
  else Accept.

(* check_spn(root, labeled, smooth, decomposable) under the context flag *)
Definition check_spn (enabled : bool) (h : heap) (root : nat) (labeled smooth decomposable : bool) : verdict :=
  if enabled then check_nodes h (collect_nodes h root) labeled smooth decomposable else Accept.

(* runner for the correspondence: 1 = accept/reject differs, 2 = bfs order differs; + 16*verdict *)
From Coq Require Import ZArith.
Definition verdict_code (v : verdict) : Z :=
  match v with Accept => 0 | RejLabeled => 1 | RejSmooth => 2 | RejDecomp => 3 end%Z.
Definition run_hcase (c : heap * (bool * list nat)) : Z :=
  let h := fst c in
  let v := check_spn true h 0 true true true in
  let acc := match v with Accept => true | _ => false end in
  ((if Bool.eqb acc (fst (snd c)) then 0 else 1) +
   (if natlist_eqb (bfs h 0) (snd (snd c)) then 0 else 2) + 16 * verdict_code v)%Z.
