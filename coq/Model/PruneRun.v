(* Model/PruneRun.v — runner of the C09 correspondence at Qc. *)
From Coq Require Import List Arith ZArith QArith Qabs Qcanon Bool.
From DV Require Import Model.Core Model.Clt Model.Leaves Model.Check Model.QcInst Model.Prune.
Import ListNotations.
Local Open Scope nat_scope.

Fixpoint all2 {A} (f : A -> A -> bool) (a b : list A) : bool :=
  match a, b with
  | [], [] => true
  | x :: a', y :: b' => f x y && all2 f a' b'
  | _, _ => false
  end.
Definition tab_eqb (a b : list (Z * Qc)) : bool :=
  all2 (fun p q => Z.eqb (fst p) (fst q) && Qc_eq_bool (snd p) (snd q)) a b.
Definition onat_eqb (a b : option nat) : bool :=
  match a, b with Some x, Some y => Nat.eqb x y | None, None => true | _, _ => false end.
Definition qleaf_eqb (a b : qleaf) : bool :=
  match a, b with
  | LTab v1 t1, LTab v2 t2 => Nat.eqb v1 v2 && tab_eqb t1 t2
  | LClt c1, LClt c2 => natlist_eqb (cscope c1) (cscope c2) && all2 onat_eqb (cpar c1) (cpar c2) &&
                        all2 (all2 (all2 Qc_eq_bool)) (cparams c1) (cparams c2)
  | _, _ => false
  end.

Fixpoint utree_close (a b : utree Qc qleaf) : bool :=
  match a, b with
  | ULeaf l1 s1, ULeaf l2 s2 => qleaf_eqb l1 l2 && natlist_eqb s1 s2
  | USum w1 s1 k1, USum w2 s2 k2 =>
      all2 closeq w2 w1 && natlist_eqb s1 s2 &&
      (fix go (x y : list (utree Qc qleaf)) : bool :=
         match x, y with
         | [], [] => true
         | p :: x', q :: y' => utree_close p q && go x' y'
         | _, _ => false
         end) k1 k2
  | UProd s1 k1, UProd s2 k2 =>
      natlist_eqb s1 s2 &&
      (fix go (x y : list (utree Qc qleaf)) : bool :=
         match x, y with
         | [], [] => true
         | p :: x', q :: y' => utree_close p q && go x' y'
         | _, _ => false
         end) k1 k2
  | _, _ => false
  end.

Definition qprune (t : qtable) : qtable * nat :=
  let st := prune_state Qc Qcplus Qcmult qleaf t in (fst st, nth (length t - 1) (snd st) 0).
Definition qprune_pinned (t : qtable) : qtable * nat :=
  let st := fold_left (prune_step_pinned Qc Qcplus Qcmult qleaf) t ([], []) in
  (fst st, nth (length t - 1) (snd st) 0).
Definition uview (p : qtable * nat) : utree Qc qleaf := unfold Qc qleaf (S (length (fst p))) (fst p) (snd p).
Definition nreach (p : qtable * nat) : nat := count_true (reachable Qc qleaf (fst p) (snd p)).

(* the reachable part of a pruned table as a table of its own (garbage dropped) is not needed:
   pruning again a table with garbage prunes its reachable part identically *)
Definition reprune (p : qtable * nat) : qtable * nat :=
  let t := firstn (S (snd p)) (fst p) in qprune t.

Record rcase := { rc_t : qtable; rc_impl : qtable (* the implementation's pruned circuit, root last *);
                  rc_rows : list row }.
(* flags: 1 structure differs from the implementation's; 2 number of distinct reachable nodes differs;
   4 model output not in normal form; 8 model: pruning again changes the circuit;
   16 model: a value changed on one of the rows (instance of the theorem, sanity) *)
Definition run_rcase (c : rcase) : Z :=
  let p := qprune (rc_t c) in
  let i := (rc_impl c, length (rc_impl c) - 1) in
  ((if utree_close (uview p) (uview i) then 0 else 1) +
   (if Nat.eqb (nreach p) (nreach i) then 0 else 2) +
   (if nf_b Qc qleaf (fst p) (snd p) then 0 else 4) +
   (if utree_close (uview (reprune p)) (uview p) && Nat.eqb (nreach (reprune p)) (nreach p) then 0 else 8) +
   (if forallb (fun r => Qc_eq_bool (val Qc 0%Qc 1%Qc Qcplus Qcmult qleaf qleaf_val (fst p) (snd p) r)
                                    (qroot (rc_t c) r)) (rc_rows c) then 0 else 16))%Z.
