(* Model/Json.v — executable model of the JSON node-link conversion of deeprob/spn/structure/io.py:
   spn_to_digraph / digraph_to_spn (circuits) and binary_clt_to_digraph / digraph_to_binary_clt
   (stand-alone Chow-Liu trees), generic in the number type T and in the rounding function `rnd`
   (the format's 8-decimal rounding; Model/JsonRun.v instantiates it with round8 on Qc).
   Definitions only; the theorems are in Proofs/JsonFacts.v.

   What is mirrored:
   - a circuit is given as the list of its nodes in the order of node.topological_order (root first),
     each with its id, class, scope, parameters and the ids of its children in order;
   - networkx.DiGraph is an insertion-ordered dictionary: add_node / add_edge on an existing key
     update the attributes IN PLACE (`upsert`); a simple digraph keeps ONE edge per (child, parent);
   - params_dict values are JSON values (`jval`); floats are rounded, integers and null are not;
   - digraph_to_spn builds every node with its constructor guards (abstract here: `sum_ok`,
     `leaf_ok`; concrete in JsonRun.v) and then places children by the edge attribute idx,
     padding with None. *)
From Coq Require Import List Arith ZArith Bool.
Import ListNotations.

(* insertion-ordered dictionary *)
Section Upsert.
  Variables (K V : Type) (keqb : K -> K -> bool).
  Fixpoint upsert (l : list (K * V)) (k : K) (v : V) : list (K * V) :=
    match l with
    | [] => [(k, v)]
    | (k', v') :: tl => if keqb k' k then (k', v) :: tl else (k', v') :: upsert tl k v
    end.
  Definition upsert_all (l acc : list (K * V)) : list (K * V) :=
    fold_left (fun a e => upsert a (fst e) (snd e)) l acc.
  Fixpoint lookup_key (l : list (K * V)) (k : K) : option V :=
    match l with
    | [] => None
    | (k', v) :: tl => if keqb k' k then Some v else lookup_key tl k
    end.
End Upsert.
Arguments upsert {K V}. Arguments upsert_all {K V}. Arguments lookup_key {K V}.

Definition pair_eqb (a b : nat * nat) : bool := Nat.eqb (fst a) (fst b) && Nat.eqb (snd a) (snd b).
Fixpoint jnodupb (l : list nat) : bool :=
  match l with [] => true | x :: xs => negb (existsb (Nat.eqb x) xs) && jnodupb xs end.

Inductive result (A : Type) := OK (a : A) | Err (code : nat).
Arguments OK {A}. Arguments Err {A}.
(* error codes: 1 a constructor guard rejected a node; 2 the scope is empty or has duplicates;
   3 an edge end point is not a node; 4 there is no node with id 0 (KeyError on nodes[0]);
   5 stand-alone CLT: the graph is not an arborescence; 6 CLT ids are not 0..n-1 *)

Section Json.
  Variable T : Type.
  Variable rnd : T -> T.

  (* a JSON value of params_dict after the numpy -> list conversion *)
  Inductive jval := JNull | JInt (z : Z) | JNum (x : T) | JArr (l : list jval).
  Fixpoint round_val (v : jval) : jval :=
    match v with
    | JNum x => JNum (rnd x)
    | JArr l => JArr (map round_val l)
    | _ => v
    end.

  Inductive lclass := CBernoulli | CCategorical | CIsotonic | CUniform | CGaussian | CBinaryCLT.
  (* class attribute + what is stored with it: Sum -> weights; leaf -> params_dict values in the
     dictionary's (fixed) key order *)
  Inductive skind := SSum (ws : list T) | SProd | SLeaf (c : lclass) (ps : list jval).
  Record snode := { sid : nat; skd : skind; sscope : list nat; skids : list nat }.

  (* spn_to_digraph: round(float(w), 8) / np.around(value, 8) / round(value, 8) *)
  Definition round_kind (k : skind) : skind :=
    match k with
    | SSum ws => SSum (map rnd ws)
    | SProd => SProd
    | SLeaf c ps => SLeaf c (map round_val ps)
    end.

  Definition gattr := (skind * list nat)%type.            (* class+params, scope *)
  Definition gedge := ((nat * nat) * nat)%type.           (* ((child id, parent id), idx) *)
  Record graph := { gnodes : list (nat * gattr); gedges : list gedge }.

  Definition node_attr (n : snode) : nat * gattr := (sid n, (round_kind (skd n), sscope n)).
  (* for i, c in enumerate(node.children): graph.add_edge(c.id, node.id, idx=i) *)
  Fixpoint edges_from (p i : nat) (kids : list nat) : list gedge :=
    match kids with [] => [] | c :: tl => ((c, p), i) :: edges_from p (S i) tl end.
  Definition node_edges (n : snode) : list gedge := edges_from (sid n) 0 (skids n).

  Definition spn_to_graph (t : list snode) : graph :=
    {| gnodes := upsert_all Nat.eqb (map node_attr t) [];
       gedges := upsert_all pair_eqb (flat_map node_edges t) [] |}.

  (* ---- digraph_to_spn ---- *)
  Variable sum_ok : list T -> bool.                          (* Sum.__init__ guard on the weights *)
  Variable leaf_ok : lclass -> list nat -> list jval -> bool. (* leaf constructor guards *)

  Record lnode := { lid : nat; lkd : skind; lscope : list nat; lkids : list (option nat) }.

  (* Node.__init__: the scope must be non-empty and duplicate-free *)
  Definition scope_ok (sc : list nat) : bool := negb (Nat.eqb (length sc) 0) && jnodupb sc.

  Definition construct (e : nat * gattr) : result lnode :=
    let k := fst (snd e) in let sc := snd (snd e) in
    if negb (match k with SSum ws => sum_ok ws | SProd => true | SLeaf c ps => leaf_ok c sc ps end) then Err 1
    else if negb (scope_ok sc) then Err 2
    else OK {| lid := fst e; lkd := k; lscope := sc; lkids := [] |}.

  Fixpoint construct_all (l : list (nat * gattr)) : result (list lnode) :=
    match l with
    | [] => OK []
    | e :: tl => match construct e with
                 | Err c => Err c
                 | OK n => match construct_all tl with Err c => Err c | OK ns => OK (n :: ns) end
                 end
    end.

  (* parent.children.extend([None] * (idx - n + 1)) when idx >= n; parent.children[idx] = child *)
  Definition set_kid (l : list (option nat)) (idx c : nat) : list (option nat) :=
    let l' := l ++ repeat None (S idx - length l) in
    firstn idx l' ++ Some c :: skipn (S idx) l'.

  Definition place (ns : list lnode) (e : gedge) : list lnode :=
    map (fun n => if Nat.eqb (lid n) (snd (fst e))
                  then {| lid := lid n; lkd := lkd n; lscope := lscope n;
                          lkids := set_kid (lkids n) (snd e) (fst (fst e)) |}
                  else n) ns.

  Definition has_id (ids : list nat) (i : nat) : bool := existsb (Nat.eqb i) ids.

  Definition graph_to_spn (g : graph) : result (list lnode) :=
    match construct_all (gnodes g) with
    | Err c => Err c
    | OK ns =>
        let ids := map fst (gnodes g) in
        if negb (forallb (fun e => has_id ids (fst (fst e)) && has_id ids (snd (fst e))) (gedges g)) then Err 3
        else if negb (has_id ids 0) then Err 4
        else OK (fold_left place (gedges g) ns)
    end.

  (* what the round trip is expected to give: same ids, kinds, scopes, child order; rounded parameters *)
  Definition expected (n : snode) : lnode :=
    {| lid := sid n; lkd := round_kind (skd n); lscope := sscope n; lkids := map Some (skids n) |}.

  (* ---- stand-alone Chow-Liu trees: binary_clt_to_digraph / digraph_to_binary_clt ---- *)
  (* scope[i], tree[i] (None = -1), params[i] (a 2x2 JSON array) by position *)
  Record cltj := { cj_scope : list nat; cj_tree : list (option nat); cj_params : list jval }.
  Record cgraph := { cnodes : list (nat * (nat * jval)); cedges : list (nat * nat) (* (parent, child) *) }.

  Fixpoint cnodes_from (i : nat) (sc : list nat) (ps : list jval) : list (nat * (nat * jval)) :=
    match sc, ps with
    | s :: sc', p :: ps' => (i, (s, round_val p)) :: cnodes_from (S i) sc' ps'
    | _, _ => []
    end.
  Fixpoint cedges_from (i : nat) (tree : list (option nat)) : list (nat * nat) :=
    match tree with
    | [] => []
    | Some p :: tl => (p, i) :: cedges_from (S i) tl
    | None :: tl => cedges_from (S i) tl
    end.
  (* node ids are range(len(tree)), edge keys (parent, i) are distinct by construction: the
     dictionary semantics of add_node/add_edge cannot merge anything here *)
  Definition clt_to_graph (c : cltj) : cgraph :=
    {| cnodes := cnodes_from 0 (cj_scope c) (cj_params c); cedges := cedges_from 0 (cj_tree c) |}.

  (* predecessor of node i: the source of the first edge into i *)
  Fixpoint pred_of (es : list (nat * nat)) (i : nat) : option nat :=
    match es with
    | [] => None
    | (p, c) :: tl => if Nat.eqb c i then Some p else pred_of tl i
    end.
  Fixpoint count_none (l : list (option nat)) : nat :=
    match l with [] => 0 | None :: tl => S (count_none tl) | Some _ :: tl => count_none tl end.
  (* following predecessors from i reaches a node without predecessor within `fuel` steps *)
  Fixpoint reaches_root (tree : list (option nat)) (fuel i : nat) : bool :=
    match fuel with
    | O => false
    | S f => match nth_error tree i with
             | None => false                      (* index outside the node range *)
             | Some None => true
             | Some (Some p) => reaches_root tree f p
             end
    end.
  (* networkx is_arborescence = is_tree (n - 1 edges, connected) and max in-degree <= 1, expressed on
     the predecessor vector: one node without incoming edge, n - 1 edges (so every other node has
     exactly one), every node connected to the root *)
  Definition arb_ok (tree : list (option nat)) (nedges : nat) : bool :=
    let n := length tree in
    Nat.eqb (count_none tree) 1 && Nat.eqb (S nedges) n &&
    forallb (reaches_root tree n) (seq 0 n).

  Variable clt_ok : list nat -> list (option nat) -> list jval -> bool.  (* BinaryCLT.__init__ guards *)

  Definition graph_to_clt (g : cgraph) : result cltj :=
    let n := length (cnodes g) in
    let ids := map fst (cnodes g) in
    (* scope[node_id] = ..., params[node_id] = ... index lists of length n by node id *)
    if negb (forallb (fun i => has_id ids i) (seq 0 n) && jnodupb ids) then Err 6
    else
      let tree := map (pred_of (cedges g)) (seq 0 n) in
      if negb (arb_ok tree (length (cedges g))) then Err 5
      else
        let at_id := fun i => lookup_key Nat.eqb (cnodes g) i in
        let sc := map (fun i => match at_id i with Some a => fst a | None => 0 end) (seq 0 n) in
        let ps := map (fun i => match at_id i with Some a => snd a | None => JNull end) (seq 0 n) in
        if negb (clt_ok sc tree ps) then Err 1
        else OK {| cj_scope := sc; cj_tree := tree; cj_params := ps |}.

  Definition cexpected (c : cltj) : cltj :=
    {| cj_scope := cj_scope c; cj_tree := cj_tree c; cj_params := map round_val (cj_params c) |}.
End Json.

Arguments JNull {T}. Arguments JInt {T}. Arguments JNum {T}. Arguments JArr {T}.
Arguments SSum {T}. Arguments SProd {T}. Arguments SLeaf {T}.
Arguments Build_snode {T}. Arguments sid {T}. Arguments skd {T}. Arguments sscope {T}. Arguments skids {T}.
Arguments Build_graph {T}. Arguments gnodes {T}. Arguments gedges {T}.
Arguments Build_lnode {T}. Arguments lid {T}. Arguments lkd {T}. Arguments lscope {T}. Arguments lkids {T}.
Arguments Build_cltj {T}. Arguments cj_scope {T}. Arguments cj_tree {T}. Arguments cj_params {T}.
Arguments Build_cgraph {T}. Arguments cnodes {T}. Arguments cedges {T}.
