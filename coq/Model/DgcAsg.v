(* Model/DgcAsg.v — inputs of a DGC-SPN as assignments of pixels, and the sum over all completions.
   A cell is `Some v` (observed, v ranges over a finite value list) or `None` (NaN / missing:
   SpatialGaussianLayer.forward turns the NaN log-density into 0, i.e. probability one).
   Definitions only. *)
From Coq Require Import List ZArith Bool.
From DV Require Import Model.Dgc.
Import ListNotations.
Open Scope Z_scope.

Section Asg.
  Variable V : Type.
  Definition asg := Z -> Z -> option V.                 (* row, column -> cell *)
  Definition asg_none : asg := fun _ _ => None.
  Definition upd (a : asg) (p : Z * Z) (c : option V) : asg :=
    fun h w => if (h =? fst p) && (w =? snd p) then c else a h w.

  (* all pixels of a D x D image, row major *)
  Definition pixels (D : Z) : list (Z * Z) :=
    flat_map (fun h => map (fun w => (h, w)) (zrange D)) (zrange D).

  Variable T : Type.
  Variables (t0 : T) (tadd : T -> T -> T).
  Variable dom : list V.

  (* sum over all assignments of the pixels ps (in that order) *)
  Fixpoint sum_compl (ps : list (Z * Z)) (f : asg -> T) (a : asg) : T :=
    match ps with
    | [] => f a
    | p :: ps' => zsum T t0 tadd (map (fun v => sum_compl ps' f (upd a p (Some v))) dom)
    end.

  (* base-layer outputs induced by a per-pixel leaf table: channel, row, column, cell -> value *)
  Variable leaf : Z -> Z -> Z -> option V -> T.
  Definition lf_of (a : asg) : Z -> Z -> Z -> T := fun c h w => leaf c h w (a h w).
End Asg.
