(* Model/MargRun.v — runner of the C10 correspondence at Qc. *)
From Coq Require Import List Arith ZArith QArith Qabs Qcanon Bool.
From DV Require Import Model.Core Model.Clt Model.Leaves Model.Check Model.QcInst Model.Prune Model.PruneRun
  Model.Run Model.Marg.
Import ListNotations.
Local Open Scope nat_scope.

Definition qmarg (keep : list nat) (t : qtable) : option (qtable * nat) :=
  marginalize Qc 0%Qc 1%Qc Qcplus Qcmult keep t.

Record gcase := {
  gc_t : qtable; gc_keep : list nat;
  gc_impl : option qtable;                   (* the implementation's result (root last); None = it raised *)
  gc_rows : list (row * Qc) }.               (* complete assignment of the kept variables, exp(LL) of the implementation's result *)

(* header: 1 accept/reject differs, 2 structure differs, 4 node count differs, 8 result scope <> keep set,
   16 result not valid; rows: 1 model marginalised value <> model marginal query (instance of the theorem),
   2 implementation differs from the model *)
Definition run_gcase (c : gcase) : list Z :=
  match qmarg (gc_keep c) (gc_t c), gc_impl c with
  | None, None => [0%Z]
  | None, Some _ => [1%Z]
  | Some _, None => [1%Z]
  | Some p, Some it =>
      let i := (it, length it - 1) in
      let doms := map (fun v => (v, [0; 1]%Z)) (gc_keep c) in
      ((if utree_close (uview p) (uview i) then 0 else 2) +
       (if Nat.eqb (nreach p) (nreach i) then 0 else 4) +
       (if seteqb (nscope (nth (snd p) (fst p) (dummy_node Qc qleaf))) (gc_keep c) then 0 else 8))%Z ::
      map (fun rw =>
             let r := fst rw in
             let m := val Qc 0%Qc 1%Qc Qcplus Qcmult qleaf qleaf_val (fst p) (snd p) r in
             ((if close (1#100000) (1#1000000000) m (qroot (gc_t c) r) then 0 else 1) +
              (if closeq (snd rw) m then 0 else 2))%Z) (gc_rows c)
  end.
