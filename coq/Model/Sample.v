(* Model/Sample.v — conditional sampling as a finite measure over the cells it writes.
   Mirrors deeprob/spn/algorithms/sampling.py (sample, sum_sample, leaf_sample) on top of
   evaluation.py:eval_top_down, leaf.py (<Leaf>.sample) and cltree.py (BinaryCLT.sample).

   An outcome of one sampling run on a row r is the list of cells (variable, value) that were
   written; a `meas` lists the possible outcomes with their masses.  The measure of a node is
   UNNORMALISED: its total is the node's value on r (theorem), so that
     - a sum node sends mass  w_k * val_k(r)  down child k  (scale w_k of the child's measure):
       the categorical law  argmax_k (lls_k + log w_k + Gumbel_k)  realises,
     - a product node fans out: every child writes its own cells independently (cross product),
     - a table leaf (Bernoulli / Categorical / binned continuous leaf) writes its missing cell with
       the masses of its table and weighs an observed cell by the table entry,
     - a Chow-Liu leaf samples root-to-leaves with the NORMALISED conditional
         P(x_j = k | x_pa = l, evidence below j) = cpt_j[l][k] * msg_j[k] / sum_k' cpt_j[l][k'] * msg_j[k']
       where msg_j[k] = prod over children c of j of up(c, k)  (BinaryCLT.message_passing, reduce='mar');
       the division is the explicit `log_probs[:, 1] - logsumexp(log_probs, axis=1)` of the code.
   Executable definitions only. *)
From Coq Require Import List Arith ZArith Bool.
From DV Require Import Model.Core Model.Clt Model.Leaves Model.Mpe.
Import ListNotations.

Section Sample.
  Variable T : Type.
  Variables (t0 t1 : T) (tadd tmul : T -> T -> T).
  Variable tdiv : T -> T -> T.
  Infix "+" := tadd. Infix "*" := tmul.
  Notation sumT := (sumT T t0 tadd).
  Notation prodT := (prodT T t1 tmul).
  Notation up := (up T t0 t1 tadd tmul).

  Definition asg := list (nat * Z).            (* the cells written by one run *)
  Definition meas := list (asg * T).           (* outcomes with their masses (repetitions allowed) *)

  Definition scale (w : T) (m : meas) : meas := map (fun e => (fst e, w * snd e)) m.
  Definition cross (m1 m2 : meas) : meas :=
    flat_map (fun e1 => map (fun e2 => (fst e1 ++ fst e2, snd e1 * snd e2)) m2) m1.
  Definition cross_all (ms : list meas) : meas := fold_right cross [([], t1)] ms.
  (* pairs beyond the shorter list are dropped, like dotT *)
  Fixpoint mix (ws : list T) (ms : list meas) : meas :=
    match ws, ms with w :: ws', m :: ms' => scale w m ++ mix ws' ms' | _, _ => [] end.
  Definition total (m : meas) : T := sumT (map snd m).

  (* mass of the outcomes whose completed row agrees with c on the variables sc *)
  Definition ocell_eqb (a b : option Z) : bool :=
    match a, b with Some x, Some y => Z.eqb x y | None, None => true | _, _ => false end.
  Definition agree_on (sc : list nat) (r1 r2 : row) : bool :=
    forallb (fun v => ocell_eqb (r1 v) (r2 v)) sc.
  Definition mass_at (m : meas) (r : row) (sc : list nat) (c : row) : T :=
    sumT (map (fun e => if agree_on sc (apply_assign (fst e) r) c then snd e else t0) m).
  (* c is a completion of r on sc: defined on sc and equal to r wherever r is observed *)
  Definition compl_b (r : row) (sc : list nat) (c : row) : bool :=
    forallb (fun v => match c v with
                      | None => false
                      | Some y => match r v with None => true | Some x => Z.eqb x y end
                      end) sc.

  (* ---- Chow-Liu trees: BinaryCLT.sample (normalised measure: total one) ---- *)
  Fixpoint cmeas (t : ctree T) (pv : Z) (r : row) : meas :=
    match t with
    | CT v cpt kids =>
        let term := fun x => cpt pv x * prodT (map (fun k => up k x r) kids) in
        match r v with
        | Some x => cross_all (map (fun k => cmeas k x r) kids)
        | None =>
            let z := sumT (map term dom2) in
            flat_map (fun x => map (fun e => ((v, x) :: fst e, tdiv (term x) z * snd e))
                                   (cross_all (map (fun k => cmeas k x r) kids))) dom2
        end
    end.
  (* every normaliser the sampler can meet on row r is non-zero (boolean form of SampleClt.nz) *)
  Variable teqb : T -> T -> bool.
  Fixpoint nzb (t : ctree T) (pv : Z) (r : row) : bool :=
    match t with
    | CT v cpt kids =>
        match r v with
        | Some x => forallb (fun k => nzb k x r) kids
        | None => negb (teqb (up (CT v cpt kids) pv r) t0) &&
                  forallb (fun k => nzb k 0%Z r && nzb k 1%Z r) kids
        end
    end.
  (* as a leaf of a circuit: the evidence likelihood times the sampler's law *)
  Definition clt_meas (c : clt T) (r : row) : meas :=
    scale (clt_val T t0 t1 tadd tmul c r) (cmeas (clt_tree T t0 c) 0%Z r).

  (* ---- table leaves ---- *)
  Definition tab_meas (v : nat) (tab : list (Z * T)) (r : row) : meas :=
    match r v with
    | None => map (fun kp => ([(v, fst kp)], snd kp)) tab
    | Some x => [([], lookup T t0 tab x)]
    end.
  Definition lmeas (l : Leaves.leaf T) (r : row) : meas :=
    match l with LTab v tab => tab_meas v tab r | LClt c => clt_meas c r end.

  (* ---- circuits: children first, one measure per node (like vals) ---- *)
  Variable leaf : Type.
  Variable leaf_meas : leaf -> row -> meas.
  Definition node_meas (n : node T leaf) (ms : list meas) (r : row) : meas :=
    match nkind n with
    | KLeaf l => leaf_meas l r
    | KSum ws => mix ws (map (fun k => nth k ms []) (nkids n))
    | KProd => cross_all (map (fun k => nth k ms []) (nkids n))
    end.
  Definition smeas (t : table T leaf) (r : row) : list meas :=
    fold_left (fun ms n => ms ++ [node_meas n ms r]) t [].
  Definition meas_at (t : table T leaf) (i : nat) (r : row) : meas := nth i (smeas t r) [].
  Definition root_meas (t : table T leaf) (r : row) : meas := meas_at t (length t - 1) r.
End Sample.
