(* Model/MstCert.v — a certificate of optimality for rooted spanning trees that is decidable in polynomial
   time for ANY number of variables (the cycle property): for every ordered pair (u, v) the tree path between
   u and v uses only edges of weight >= w u v - eps.  `top tau i` climbs from i towards the root while the edge
   to the predecessor weighs at least tau; two vertices are connected by tree edges of weight >= tau iff they
   climb to the same vertex. *)
From Coq Require Import List Arith ZArith Bool.
From DV Require Import Model.ChowLiu.
Import ListNotations.

Section MstCert.
  Variable w : nat -> nat -> Z.          (* w child parent *)
  Variable p : list (option nat).

  Fixpoint top (tau : Z) (fuel i : nat) : nat :=
    match fuel with
    | O => i
    | S f => match par_of p i with
             | Some j => if Z.leb tau (w i j) then top tau f j else i
             | None => i
             end
    end.

  Definition cp_ok (n : nat) (eps : Z) : bool :=
    forallb (fun u => forallb (fun v => Nat.eqb u v ||
                                        Nat.eqb (top (w u v - eps) n u) (top (w u v - eps) n v)) (seq 0 n)) (seq 0 n).

  (* accepted: a rooted spanning tree with the eps-cycle property *)
  Definition mst_cert (n root : nat) (eps : Z) : bool := is_tree n root p && cp_ok n eps.
End MstCert.
