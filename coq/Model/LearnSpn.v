(* Model/LearnSpn.v — the task-queue machine of deeprob/spn/learning/learnspn.py: learn_spn.
   Every data-dependent decision is an ORACLE ANSWER consumed in processing order: the zero-variance
   flags of the task's columns and, when a split is attempted, the cluster labels returned by the
   row / column splitter.  Rows are row identifiers of the training matrix, columns are variable ids.
   The arena holds the nodes in creation order (children have larger indices than their parent) with
   ghost fields: the rows and columns the creating task carried. *)
From Coq Require Import List Arith Bool.
Import ListNotations.

Record task := { tparent : nat; trows : list nat; tcols : list nat;
                 no_cols : bool; no_rows : bool; is_first : bool }.
(* ASum slices: the row groups in increasing label order; weight_i = |slice_i| / |rows|.
   AProd parts: the column groups its children are built for (ghost). *)
Inductive akind := ASum (slices : list (list nat)) | AProd (parts : list (list nat)) | ALeaf.
Record anode := { akind_of : akind; ascope : list nat; arows : list nat; akids : list nat }.
Record answer := { zv : list bool; labels : list nat }.
Record state := { arena : list anode; queue : list task }.
Inductive op := REM | LEAF | NAIVE | ROWS | COLS.

Definition dummy_anode : anode := {| akind_of := ALeaf; ascope := []; arows := []; akids := [] |}.

Section Machine.
  Variables (min_rows min_cols : nat).

  Definition select (t : task) (z : list bool) : op :=
    if forallb (fun b => b) z then NAIVE
    else if existsb (fun b => b) z then REM
    else if (no_rows t || Nat.ltb (length (tcols t)) min_cols || Nat.ltb (length (trows t)) min_rows)%bool then LEAF
    else if (no_cols t || is_first t)%bool then ROWS
    else COLS.

  (* np.unique: sorted distinct labels *)
  Fixpoint insert_uniq (x : nat) (l : list nat) : list nat :=
    match l with
    | [] => [x]
    | y :: tl => if Nat.ltb x y then x :: l else if Nat.eqb x y then l else y :: insert_uniq x tl
    end.
  Definition uniq_sorted (l : list nat) : list nat := fold_right insert_uniq [] l.
  (* data[clusters == c]: the items whose label is c, in their original order *)
  Fixpoint pick (c : nat) (xs ls : list nat) : list nat :=
    match xs, ls with
    | x :: xs', l :: ls' => if Nat.eqb l c then x :: pick c xs' ls' else pick c xs' ls'
    | _, _ => []
    end.
  Definition group (xs ls : list nat) : list (list nat) := map (fun c => pick c xs ls) (uniq_sorted ls).
  Fixpoint pickb (xs : list nat) (bs : list bool) (want : bool) : list nat :=
    match xs, bs with
    | x :: xs', b :: bs' => if Bool.eqb b want then x :: pickb xs' bs' want else pickb xs' bs' want
    | _, _ => []
    end.

  Definition add_child (a : list anode) (p x : nat) : list anode :=
    firstn p a ++
    (let n := nth p a dummy_anode in
     {| akind_of := akind_of n; ascope := ascope n; arows := arows n; akids := akids n ++ [x] |}) ::
    skipn (S p) a.

  (* learn_naive_factorization: a product over `cols` with one univariate leaf per variable *)
  Definition naive (a : list anode) (cols rows : list nat) : list anode * nat :=
    let b := length a in
    (a ++ {| akind_of := AProd (map (fun s => [s]) cols); ascope := cols; arows := rows; akids := seq (S b) (length cols) |} ::
          map (fun s => {| akind_of := ALeaf; ascope := [s]; arows := rows; akids := [] |}) cols, b).

  Definition mk_task (p : nat) (rows cols : list nat) (nc nr fi : bool) : task :=
    {| tparent := p; trows := rows; tcols := cols; no_cols := nc; no_rows := nr; is_first := fi |}.

  Definition step (s : state) (ans : answer) : state :=
    match queue s with
    | [] => s
    | t :: q =>
        let a := arena s in
        match select t (zv ans) with
        | NAIVE =>
            let (a1, i) := naive a (tcols t) (trows t) in
            {| arena := add_child a1 (tparent t) i; queue := q |}
        | LEAF =>
            let i := length a in
            {| arena := add_child (a ++ [{| akind_of := ALeaf; ascope := tcols t; arows := trows t; akids := [] |}]) (tparent t) i;
               queue := q |}
        | REM =>
            let b := length a in
            let rem := pickb (tcols t) (zv ans) true in
            let oth := pickb (tcols t) (zv ans) false in
            let a0 := a ++ [{| akind_of := AProd [rem; oth]; ascope := tcols t; arows := trows t; akids := [] |}] in
            let (a1, i) := naive a0 rem (trows t) in
            let a2 := add_child a1 b i in
            {| arena := add_child a2 (tparent t) b;
               queue := q ++ [mk_task b (trows t) oth false false (is_first t && match q with [] => true | _ => false end)] |}
        | ROWS =>
            let gs := group (trows t) (labels ans) in
            match gs with
            | [_] => {| arena := a; queue := mk_task (tparent t) (trows t) (tcols t) false true false :: q |}
            | _ =>
                let b := length a in
                {| arena := add_child (a ++ [{| akind_of := ASum gs; ascope := tcols t; arows := trows t; akids := [] |}]) (tparent t) b;
                   queue := q ++ map (fun g => mk_task b g (tcols t) false false false) gs |}
            end
        | COLS =>
            let gs := group (tcols t) (labels ans) in
            match gs with
            | [_] => {| arena := a; queue := mk_task (tparent t) (trows t) (tcols t) true false false :: q |}
            | _ =>
                let b := length a in
                {| arena := add_child (a ++ [{| akind_of := AProd gs; ascope := tcols t; arows := trows t; akids := [] |}]) (tparent t) b;
                   queue := q ++ map (fun g => mk_task b (trows t) g false false false) gs |}
            end
        end
    end.

  (* the pinned code re-queued a failed split at the TAIL *)
  Definition step_pinned (s : state) (ans : answer) : state :=
    match queue s with
    | [] => s
    | t :: q =>
        match select t (zv ans) with
        | ROWS =>
            match group (trows t) (labels ans) with
            | [_] => {| arena := arena s; queue := q ++ [mk_task (tparent t) (trows t) (tcols t) false true false] |}
            | _ => step s ans
            end
        | COLS =>
            match group (tcols t) (labels ans) with
            | [_] => {| arena := arena s; queue := q ++ [mk_task (tparent t) (trows t) (tcols t) true false false] |}
            | _ => step s ans
            end
        | _ => step s ans
        end
    end.

  Definition init (rows cols : list nat) : state :=
    {| arena := [{| akind_of := AProd [cols]; ascope := cols; arows := rows; akids := [] |}];
       queue := [mk_task 0 rows cols false false true] |}.
  Definition run (answers : list answer) (s : state) : state := fold_left step answers s.
  (* root = tmp_node.children[0] *)
  Definition result_root (s : state) : nat := hd 0 (akids (nth 0 (arena s) dummy_anode)).

  (* the operation sequence of a run (compared with the implementation's trace) *)
  Fixpoint ops (answers : list answer) (s : state) : list op :=
    match answers with
    | [] => []
    | ans :: tl => match queue s with
                   | [] => []
                   | t :: _ => select t (zv ans) :: ops tl (step s ans)
                   end
    end.
End Machine.
