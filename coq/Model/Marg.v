(* Model/Marg.v — deeprob/spn/algorithms/structure.py: marginalize.
   One pass in table order that rebuilds a new table; m : old index -> option new index (None = the
   node is fully marginalised, the code's nodes_map[id] = None).  A Chow-Liu leaf is converted with
   to_pc, marginalised on the kept part of its scope, pruned, and spliced in.  The whole result is
   pruned at the end. *)
From Coq Require Import List Arith ZArith Bool.
From DV Require Import Model.Core Model.Clt Model.Leaves Model.Check Model.Prune Model.ToPc.
Import ListNotations.

Section Marg.
  Variable T : Type.
  Variables (t0 t1 : T) (tadd tmul : T -> T -> T).
  Notation node := (node T (leaf T)).
  Notation table := (table T (leaf T)).
  Notation dnode := (dummy_node T (leaf T)).

  Inductive verdict := MOk | MReject.
  (* keep set: non-empty, duplicate free, inside the root scope *)
  Definition marg_guard (keep root_scope : list nat) : verdict :=
    match keep with
    | [] => MReject
    | _ => if nodupb keep && subsetb keep root_scope then MOk else MReject
    end.

  Definition mstate := (table * list (option nat))%type.
  Fixpoint somes {A} (l : list (option A)) : list A :=
    match l with [] => [] | Some x :: tl => x :: somes tl | None :: tl => somes tl end.
  Definition shift (off : nat) (t : table) : table :=
    map (fun n => Build_node (nkind n) (nscope n) (map (Nat.add off) (nkids n))) t.

  (* inner nodes (shared by the outer pass and the pass over a converted CLT) *)
  Definition marg_inner (st : mstate) (n : node) : mstate :=
    let (new, m) := st in
    let ks := somes (map (fun k => nth k m None) (nkids n)) in
    match ks with
    | [] => (new, m ++ [None])
    | [k] => (new, m ++ [Some k])
    | _ =>
        match nkind n with
        | KProd => (new ++ [Build_node KProd (concat (map (fun k => nscope (nth k new dnode)) ks)) ks],
                    m ++ [Some (length new)])
        | KSum ws => (new ++ [Build_node (KSum ws) (nscope (nth (hd 0 ks) new dnode)) ks], m ++ [Some (length new)])
        | KLeaf _ => st
        end
    end.

  (* pass over a table without Chow-Liu leaves (a converted CLT) *)
  Definition marg_step_simple (keep : list nat) (st : mstate) (n : node) : mstate :=
    let (new, m) := st in
    match nkind n with
    | KLeaf (LTab v tab) =>
        if memb v keep then (new ++ [Build_node (KLeaf (LTab v tab)) (nscope n) []], m ++ [Some (length new)])
        else (new, m ++ [None])
    | KLeaf (LClt _) => (new, m ++ [None])
    | _ => marg_inner st n
    end.
  Definition marg_simple (keep : list nat) (t : table) (root : nat) : table * option nat :=
    let st := fold_left (marg_step_simple keep) t ([], []) in (fst st, nth root (snd st) None).

  (* marginalize(node.to_pc(), clt_scope, copy=False): convert, marginalise, prune *)
  Definition marg_clt (keep : list nat) (c : clt T) : option (table * nat) :=
    let '(pc, root) := to_pc T t0 t1 c in
    match marg_simple keep pc root with
    | (mt, Some r) =>
        let st := prune_state T tadd tmul (leaf T) (firstn (S r) mt) in
        Some (fst st, nth r (snd st) 0)
    | (_, None) => None
    end.

  Definition marg_step (keep : list nat) (st : mstate) (n : node) : mstate :=
    let (new, m) := st in
    match nkind n with
    | KLeaf (LTab v tab) =>
        if memb v keep then (new ++ [Build_node (KLeaf (LTab v tab)) (nscope n) []], m ++ [Some (length new)])
        else (new, m ++ [None])
    | KLeaf (LClt c) =>
        if existsb (fun v => memb v keep) (cscope c) then
          match marg_clt keep c with
          | Some (sub, r) => (new ++ shift (length new) sub, m ++ [Some (length new + r)])
          | None => (new, m ++ [None])
          end
        else (new, m ++ [None])
    | _ => marg_inner st n
    end.

  Definition marg_state (keep : list nat) (t : table) : mstate := fold_left (marg_step keep) t ([], []).
  (* the marginalised circuit before the final prune: (table, root) *)
  Definition marg_raw (keep : list nat) (t : table) : option (table * nat) :=
    let st := marg_state keep t in
    match nth (length t - 1) (snd st) None with
    | Some r => Some (fst st, r)
    | None => None
    end.
  Definition marginalize (keep : list nat) (t : table) : option (table * nat) :=
    match marg_guard keep (nscope (nth (length t - 1) t dnode)) with
    | MReject => None
    | MOk =>
        match marg_raw keep t with
        | Some (mt, r) =>
            let st := prune_state T tadd tmul (leaf T) (firstn (S r) mt) in
            Some (fst st, nth r (snd st) 0)
        | None => None
        end
    end.
End Marg.
