(* Model/JsonRun.v — the exact-rational (Qc) instance of Model/Json.v used by the C13 correspondence:
   round8 (Python round(x, 8) / np.around(x, 8): nearest multiple of 10^-8, ties to even), the
   constructor guards of deeprob/spn/structure/node.py (Sum), leaf.py (Bernoulli, Categorical,
   Isotonic, Uniform, Gaussian) and cltree.py (BinaryCLT), tolerance comparators and the case
   runners.  Definitions only.
   Modelled, not verified: float32/float64 summation inside np.sum (the guards are evaluated on
   exact sums), the CPT normalisation guard np.allclose(exp(params).sum(axis=2), 1) of BinaryCLT
   (needs exp; inputs of the tie are normalised by construction), scipy's rv_histogram /
   rv_discrete constructors. *)
From Coq Require Import List Arith ZArith QArith Qabs Qcanon Bool.
From DV Require Import Model.Json.
Import ListNotations.

(* nearest integer, ties to even, of the rational n/d *)
Definition rhe (x : Q) : Z :=
  let n := Qnum x in let d := Zpos (Qden x) in
  let fl := (n / d)%Z in let r2 := (2 * (n mod d))%Z in
  if (r2 <? d)%Z then fl else if (d <? r2)%Z then (fl + 1)%Z else if Z.even fl then fl else (fl + 1)%Z.
Definition e8 : positive := 100000000.
Definition round8Q (x : Q) : Q := Qmake (rhe (x * inject_Z (Zpos e8))) e8.
Definition round8 (x : Qc) : Qc := Q2Qc (round8Q (this x)).

Definition qjval := jval Qc.
Definition qsnode := snode Qc.
Definition qlnode := lnode Qc.
Definition qgraph := graph Qc.
Definition qq (n : Z) (d : positive) : Qc := Q2Qc (Qmake n d).

Fixpoint qcsum (l : list Qc) : Qc := match l with [] => 0%Qc | x :: tl => (x + qcsum tl)%Qc end.
(* np.isclose(s, 1.0): |s - 1| <= atol + rtol * |1| = 1e-8 + 1e-5 *)
Definition close_tol : Q := 1001 # 100000000.
Definition isclose1 (s : Qc) : bool := Qle_bool (Qabs (this s - 1)) close_tol.
Definition sum_ok (ws : list Qc) : bool := isclose1 (qcsum ws).

Definition jnum (v : qjval) : option Qc :=
  match v with JNum x => Some x | JInt z => Some (qq z 1) | _ => None end.
Fixpoint jnums (l : list qjval) : option (list Qc) :=
  match l with
  | [] => Some []
  | v :: tl => match jnum v, jnums tl with Some x, Some xs => Some (x :: xs) | _, _ => None end
  end.
Definition qle (a b : Qc) : bool := Qle_bool (this a) (this b).
Definition sigma_min : Qc := qq 1 100000.

Definition is_int (v : qjval) : bool := match v with JInt _ => true | _ => false end.
Definition jint (v : qjval) : Z := match v with JInt z => z | _ => 0%Z end.
Fixpoint index_of (x : nat) (l : list nat) (i : nat) : option nat :=
  match l with [] => None | y :: tl => if Nat.eqb y x then Some i else index_of x tl (S i) end.
Definition is_cpt (v : qjval) : bool :=   (* one (2, 2) block of numbers *)
  match v with
  | JArr [JArr [a; b]; JArr [c; d]] =>
      match jnum a, jnum b, jnum c, jnum d with Some _, Some _, Some _, Some _ => true | _, _, _, _ => false end
  | _ => false
  end.
Definition count_m1 (l : list qjval) : nat := length (filter (fun v => Z.eqb (jint v) (-1)) l).

(* BinaryCLT.__init__(scope, root, tree, params) *)
Definition clt_leaf_ok (sc : list nat) (root tree params : qjval) : bool :=
  (match tree with
   | JNull => match root with
              | JNull => true
              | JInt r => (0 <=? r)%Z && existsb (Nat.eqb (Z.to_nat r)) sc
              | _ => false
              end
   | JArr t =>
       forallb is_int t && Nat.eqb (length t) (length sc) &&
       match root with
       | JNull => Nat.eqb (count_m1 t) 1
       | JInt r => (0 <=? r)%Z &&
                   match index_of (Z.to_nat r) sc 0 with
                   | Some i => Z.eqb (jint (nth i t JNull)) (-1)
                   | None => false
                   end
       | _ => false
       end
   | _ => false
   end) &&
  (match params with
   | JNull => true
   | JArr ps => Nat.eqb (length ps) (length sc) && forallb is_cpt ps
   | _ => false
   end).

Definition leaf_ok (c : lclass) (sc : list nat) (ps : list qjval) : bool :=
  match c, ps with
  | CBernoulli, [p] =>
      match jnum p with Some x => qle 0%Qc x && qle x 1%Qc | None => false end
  | CCategorical, [JNull; JNull] => true
  | CCategorical, [JArr cs; JArr pr] =>
      Nat.eqb (length cs) (length pr) &&
      match jnums pr with Some xs => isclose1 (qcsum xs) | None => false end
  | CIsotonic, [JNull; JNull] => true
  | CIsotonic, [JArr ds; JArr bs] =>
      Nat.eqb (length bs) (S (length ds)) &&
      match jnums ds with Some xs => isclose1 (qcsum xs) | None => false end
  | CUniform, [_; _] => true
  | CGaussian, [_; sd] =>
      match jnum sd with Some x => qle sigma_min x | None => false end
  | CBinaryCLT, [root; tree; params] => clt_leaf_ok sc root tree params
  | _, _ => false
  end.

(* stand-alone CLT file: BinaryCLT(scope, tree=tree, params=params) with root = None *)
Definition clt_ok (sc : list nat) (tree : list (option nat)) (ps : list qjval) : bool :=
  Nat.eqb (length tree) (length sc) && Nat.eqb (count_none tree) 1 &&
  Nat.eqb (length ps) (length sc) && forallb is_cpt ps && scope_ok sc.

Definition qspn_to_graph : list qsnode -> qgraph := spn_to_graph Qc round8.
Definition qgraph_to_spn : qgraph -> result (list qlnode) := graph_to_spn Qc sum_ok leaf_ok.
Definition qexpected : qsnode -> qlnode := expected Qc round8.
Definition qclt_to_graph : cltj Qc -> cgraph Qc := clt_to_graph Qc round8.
Definition qgraph_to_clt : cgraph Qc -> result (cltj Qc) := graph_to_clt Qc clt_ok.

(* ---------------- comparators ---------------- *)
(* |a - b| <= ta + tr * |b| *)
Definition qclose (ta tr : Q) (a b : Qc) : bool :=
  Qle_bool (Qabs (this a - this b)) (ta + tr * Qabs (this b)).
Fixpoint all2 {A} (f : A -> A -> bool) (la lb : list A) : bool :=
  match la, lb with
  | [], [] => true
  | x :: xs, y :: ys => f x y && all2 f xs ys
  | _, _ => false
  end.
Fixpoint jclose (ta tr : Q) (a b : qjval) : bool :=
  match a, b with
  | JNull, JNull => true
  | JInt x, JInt y => Z.eqb x y
  | JNum x, JNum y => qclose ta tr x y
  | JArr la, JArr lb =>
      (fix go (la lb : list qjval) : bool :=
         match la, lb with
         | [], [] => true
         | x :: xs, y :: ys => jclose ta tr x y && go xs ys
         | _, _ => false
         end) la lb
  | _, _ => false
  end.
Definition class_eqb (a b : lclass) : bool :=
  match a, b with
  | CBernoulli, CBernoulli | CCategorical, CCategorical | CIsotonic, CIsotonic
  | CUniform, CUniform | CGaussian, CGaussian | CBinaryCLT, CBinaryCLT => true
  | _, _ => false
  end.
Definition kind_close (ta tr : Q) (a b : skind Qc) : bool :=
  match a, b with
  | SSum wa, SSum wb => all2 (qclose ta tr) wa wb
  | SProd, SProd => true
  | SLeaf ca pa, SLeaf cb pb => class_eqb ca cb && all2 (jclose ta tr) pa pb
  | _, _ => false
  end.
Definition nats_eqb := all2 Nat.eqb.
Definition onat_eqb (a b : option nat) : bool :=
  match a, b with Some x, Some y => Nat.eqb x y | None, None => true | _, _ => false end.

(* the 8-decimal text vs the model's exact rounding: np.around computes rint(x * 1e8) / 1e8 in
   floating point and may land one unit away from the exact result *)
Definition tol_text : Q := 2 # 100000000.
(* single-precision storage of the loaded parameters: relative 2^-24 < 6e-8 *)
Definition tol_f32 : Q := 6 # 100000000.
Definition tol_tiny : Q := 1 # 1000000000000000000000000000000000000000.

Definition gnode_close (ta tr : Q) (a b : nat * gattr Qc) : bool :=
  Nat.eqb (fst a) (fst b) && kind_close ta tr (fst (snd a)) (fst (snd b)) && nats_eqb (snd (snd a)) (snd (snd b)).
Definition gedge_eqb (a b : gedge) : bool :=
  pair_eqb (fst a) (fst b) && Nat.eqb (snd a) (snd b).
Definition same_edges (a b : list gedge) : bool :=
  Nat.eqb (length a) (length b) && forallb (fun e => existsb (gedge_eqb e) b) a &&
  forallb (fun e => existsb (gedge_eqb e) a) b.
Definition lnode_close (ta tr : Q) (a b : qlnode) : bool :=
  Nat.eqb (lid a) (lid b) && kind_close ta tr (lkd a) (lkd b) && nats_eqb (lscope a) (lscope b) &&
  all2 onat_eqb (lkids a) (lkids b).

(* one save/load generation of a circuit as observed on the implementation *)
Record jcase := {
  jc_orig : list qsnode;       (* the object that was saved: nodes in topological order *)
  jc_saved : bool;             (* save_spn_json returned *)
  jc_json : qgraph;            (* the JSON text it wrote, parsed (exact decimals) *)
  jc_loaded_ok : bool;         (* load_spn_json returned *)
  jc_loaded : list qlnode      (* the loaded object, listed in the order of the JSON nodes *)
}.

(* flags: 1 JSON nodes differ from spn_to_graph; 2 JSON edges differ; 4 load accepted/rejected
   differently; 8 loaded object differs from graph_to_spn of the JSON text (structure, or numbers
   beyond single precision); 16 node with id 0 of the loaded list is not first ... unused;
   64 THE PROPERTY: the loaded object is not the original with rounded parameters *)
Definition run_jcase (c : jcase) : Z :=
  let g := qspn_to_graph (jc_orig c) in
  let f1 := if jc_saved c && all2 (gnode_close tol_text 0%Q) (gnodes g) (gnodes (jc_json c)) then 0%Z else 1%Z in
  let f2 := if jc_saved c && same_edges (gedges g) (gedges (jc_json c)) then 0%Z else 2%Z in
  let ml := qgraph_to_spn (jc_json c) in
  let f4 := match ml with OK _ => if jc_loaded_ok c then 0%Z else 4%Z | Err _ => if jc_loaded_ok c then 4%Z else 0%Z end in
  let f8 := match ml with
            | OK ns => if jc_loaded_ok c then (if all2 (lnode_close tol_tiny tol_f32) (jc_loaded c) ns then 0%Z else 8%Z) else 0%Z
            | Err _ => 0%Z
            end in
  let f64 := if jc_saved c && jc_loaded_ok c &&
                all2 (lnode_close tol_text tol_f32) (jc_loaded c) (map qexpected (jc_orig c)) then 0%Z else 64%Z in
  (f1 + f2 + f4 + f8 + f64)%Z.

(* one save/load generation of a stand-alone Chow-Liu tree *)
Record ccase := {
  cc_orig : cltj Qc;
  cc_saved : bool;
  cc_json : cgraph Qc;
  cc_loaded_ok : bool;
  cc_loaded : cltj Qc
}.
Definition cnode_close (ta tr : Q) (a b : nat * (nat * qjval)) : bool :=
  Nat.eqb (fst a) (fst b) && Nat.eqb (fst (snd a)) (fst (snd b)) && jclose ta tr (snd (snd a)) (snd (snd b)).
Definition same_cedges (a b : list (nat * nat)) : bool :=
  Nat.eqb (length a) (length b) && forallb (fun e => existsb (pair_eqb e) b) a &&
  forallb (fun e => existsb (pair_eqb e) a) b.
Definition cltj_close (ta tr : Q) (a b : cltj Qc) : bool :=
  nats_eqb (cj_scope a) (cj_scope b) && all2 onat_eqb (cj_tree a) (cj_tree b) &&
  all2 (jclose ta tr) (cj_params a) (cj_params b).
Definition run_ccase (c : ccase) : Z :=
  let g := qclt_to_graph (cc_orig c) in
  let f1 := if cc_saved c && all2 (cnode_close tol_text 0%Q) (cnodes g) (cnodes (cc_json c)) then 0%Z else 1%Z in
  let f2 := if cc_saved c && same_cedges (cedges g) (cedges (cc_json c)) then 0%Z else 2%Z in
  let ml := qgraph_to_clt (cc_json c) in
  let f4 := match ml with OK _ => if cc_loaded_ok c then 0%Z else 4%Z | Err _ => if cc_loaded_ok c then 4%Z else 0%Z end in
  let f8 := match ml with
            | OK m => if cc_loaded_ok c then (if cltj_close tol_tiny tol_f32 (cc_loaded c) m then 0%Z else 8%Z) else 0%Z
            | Err _ => 0%Z
            end in
  let f64 := if cc_saved c && cc_loaded_ok c &&
                cltj_close tol_text tol_f32 (cc_loaded c) (cexpected Qc round8 (cc_orig c)) then 0%Z else 64%Z in
  (f1 + f2 + f4 + f8 + f64)%Z.

(* several generations later: only the property clause (loaded object vs the FIRST original);
   the tolerance does not grow with the number of generations *)
Definition run_jdrift (c : list qsnode * list qlnode) : Z :=
  if all2 (lnode_close tol_text tol_f32) (snd c) (map qexpected (fst c)) then 0%Z else 64%Z.
Definition run_cdrift (c : cltj Qc * cltj Qc) : Z :=
  if cltj_close tol_text tol_f32 (snd c) (cexpected Qc round8 (fst c)) then 0%Z else 64%Z.
