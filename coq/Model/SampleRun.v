(* Model/SampleRun.v — runner of the C07 correspondence at Qc (engine E1).
   One case = one circuit + one evidence row + the observed frequency of every completion of the
   row among N draws of the implementation's `sample`.  The model's law of a completion c is
   mass_at (root measure) c / total (root measure); the Hoeffding radius eps is supplied by the
   harness (rounded up).  Division of Qc: x / 0 = 0 (Qcdiv). *)
From Coq Require Import List Arith ZArith QArith Qabs Qcanon Bool.
From DV Require Import Model.Core Model.Clt Model.Leaves Model.Check Model.QcInst Model.Mpe Model.Sample Model.Run.
Import ListNotations.
Local Open Scope nat_scope.

Definition qlmeas : qleaf -> row -> meas Qc := lmeas Qc 0%Qc 1%Qc Qcplus Qcmult Qcdiv.
Definition qroot_meas (t : qtable) (r : row) : meas Qc := root_meas Qc 1%Qc Qcmult qleaf qlmeas t r.
Definition qmass (m : meas Qc) (r : row) (sc : list nat) (c : row) : Qc := mass_at Qc 0%Qc Qcplus m r sc c.
Definition qtotal (m : meas Qc) : Qc := total Qc 0%Qc Qcplus m.
Definition qcmeas (t : ctree Qc) (pv : Z) (r : row) : meas Qc := cmeas Qc 0%Qc 1%Qc Qcplus Qcmult Qcdiv t pv r.

(* the side conditions of C07_measure_builtin_leaves that are not already part of valid_b, decided per case:
   table keys duplicate-free; no zero normaliser on the evidence row (SampleClt.nzb_sound) *)
Fixpoint znodupb (l : list Z) : bool :=
  match l with [] => true | x :: xs => negb (existsb (Z.eqb x) xs) && znodupb xs end.
Definition qbuiltin_okb (r : row) (t : qtable) : bool :=
  forallb (fun n => match nkind n with
                    | KLeaf (LTab _ tab) => znodupb (map fst tab)
                    | KLeaf (LClt c) => nzb Qc 0%Qc 1%Qc Qcplus Qcmult Qc_eq_bool (clt_tree Qc 0%Qc c) 0%Z r
                    | _ => true end) t.

Record scase := {
  sc_t : qtable;
  sc_doms : list (nat * list Z);
  sc_cont : list nat;                 (* variables whose tables are binned / point-restricted densities *)
  sc_r : row;                         (* the evidence row *)
  sc_eps : Qc;                        (* Hoeffding radius (family-wise delta = 1e-9), rounded up *)
  sc_cells : list (row * Qc) }.       (* every completion of the row on the root scope, observed frequency *)

Definition within (eps freq p : Qc) : bool := Qle_bool (Qabs (this freq - this p)) (this eps).

(* header: [64 table not valid; 16 side conditions of the theorem fail (duplicate table key / zero normaliser); 32 total mass <> val(r) (exact tables only); 8 evidence has probability zero;
            2 the listed cells do not carry the whole mass]
   then per cell: 1 frequency outside the Hoeffding radius, 4 model: mass(c) <> val(c) *)
Definition run_scase (c : scase) : list Z :=
  let t := sc_t c in let r := sc_r c in
  let sc := scope_of Qc qleaf t (length t - 1) in
  let m := qroot_meas t r in
  let tot := qtotal m in
  let ps := map (fun cf => qmass m r sc (fst cf)) (sc_cells c) in
  (if qvalid_c (sc_doms c) (sc_cont c) t then 0 else 64)%Z ::
  (if qbuiltin_okb r t then 0 else 16)%Z ::
  (match sc_cont c with [] => if Qc_eq_bool tot (qroot t r) then 0 else 32 | _ => 0 end)%Z ::
  (if Qc_eq_bool tot 0%Qc then 8 else 0)%Z ::
  (if Qc_eq_bool (qsum ps) tot then 0 else 2)%Z ::
  map (fun cf =>
         let mc := qmass m r sc (fst cf) in
         ((if within (sc_eps c) (snd cf) (mc / tot)%Qc then 0 else 1) +
          (if Qc_eq_bool mc (if compl_b r sc (fst cf) then qroot t (fst cf) else 0%Qc) then 0 else 4))%Z)
      (sc_cells c).
