(* Model/RatSample.v — the measure of RatSpn.sample (deeprob/spn/models/ratspn.py:sample with the
   layers' .sample of deeprob/spn/layers/ratspn.py) over the cells it writes, for one class y.
   Same conventions as Model/Sample.v (meas = outcomes with masses, built children-first although the
   sampler runs top-down):
     - RootLayer.sample: Categorical(softmax(weight)[y]) over (partition, node)   -> mix of the inputs,
     - SumLayer.sample:  Categorical(W[idx_group, idx_offset]) over the in-nodes   -> mix,
     - ProductLayer.sample: both child regions 2g, 2g+1 with offsets o // K, o % K  -> cross
       (out node a*K+b is the pair (a, b), exactly the forward's outer product),
     - RegionGraphLayer.sample: distribution.sample draws EVERY position k < dimension of the selected
       (region, channel) from its own table; unpad_samples then discards the dummy positions and puts
       the draw of a real position at the column of its variable mask[k] (C16_unpad): a real position
       writes the cell (mask[k], value), a dummy draw writes nothing.
   Executable definitions only. *)
From Coq Require Import List Arith ZArith Bool.
From DV Require Import Model.Core Model.Leaves Model.Mpe Model.Sample Model.Rat.
Import ListNotations.

Section RatSample.
  Variable T : Type.
  Variables (t0 t1 : T) (tadd tmul : T -> T -> T).
  Notation meas := (meas T).
  Notation cross := (cross T tmul).
  Notation mix := (mix T tmul).

  Definition pos_meas (v : nat) (p : bool) (tb : list (Z * T)) : meas :=
    map (fun kp => (if p then [] else [(v, fst kp)], snd kp)) tb.
  Fixpoint leaf_meas (mrow : list nat) (prow : list bool) (tabs : list (list (Z * T))) : meas :=
    match mrow, prow, tabs with
    | v :: m', p :: p', tb :: t' => cross (pos_meas v p tb) (leaf_meas m' p' t')
    | _, _, _ => [([], t1)]
    end.
  Definition base_meas (mask : list (list nat)) (padm : list (list bool))
             (tabs : list (list (list (list (Z * T))))) : list (list meas) :=
    map (fun mpt => map (fun tc => leaf_meas (fst (fst mpt)) (snd (fst mpt)) tc) (snd mpt))
        (combine (combine mask padm) tabs).

  Definition outerM (a b : list meas) : list meas := flat_map (fun x => map (fun y => cross x y) b) a.
  Fixpoint pairM (l : list (list meas)) : list (list meas) :=
    match l with a :: b :: tl => outerM a b :: pairM tl | _ => [] end.
  Definition sumM (W : list (list (list T))) (Ms : list (list meas)) : list (list meas) :=
    map (fun Wx => map (fun w => mix w (snd Wx)) (fst Wx)) (combine W Ms).
  Definition rootM (W : list (list T)) (Ms : list (list meas)) : list meas :=
    map (fun w => mix w (concat Ms)) W.
  Fixpoint innerM (Ws : list (list (list (list T)))) (x : list (list meas)) : list (list meas) :=
    match Ws with
    | [] => pairM x
    | W :: Ws' => innerM Ws' (sumM W (pairM x))
    end.

  (* one measure per class y *)
  Definition rat_meas (n d : nat) (permss : list (list (list (list nat))))
             (tabs : list (list (list (list (Z * T))))) (Ws : list (list (list (list T))))
             (Wroot : list (list T)) : list meas :=
    let regs := rat_leaves n permss in
    let D := dim_of n d in
    rootM Wroot (innerM Ws (base_meas (mask_of D regs) (padm_of D regs) tabs)).
End RatSample.
