(* Model/Mpe.v — most probable explanation.
   Circuits (inference.py: mpe, sum_mpe; evaluation.py: eval_top_down): the descent is defined
   bottom-up like `vals`: picks[i] = the leaves reached from node i (leaf: itself; sum: the picks of
   the first child maximising w_k * val_k(r); product: all children's picks); the completed row
   fills, for every picked leaf, the missing cells of its scope with the leaf's MPE value.
   Chow-Liu trees (cltree.py: BinaryCLT.mpe): max-product messages = `up` with a selective
   addition (tadd a b = if sel a b then a else b), then root-to-leaves decoding. *)
From Coq Require Import List Arith ZArith Bool.
From DV Require Import Model.Core Model.Clt Model.Leaves.
Import ListNotations.

Section Mpe.
  Variable T : Type.
  Variables (t0 t1 : T) (tadd tmul : T -> T -> T).
  Variable sel : T -> T -> bool.         (* sel a b = true: a wins (np.argmax keeps the first maximum) *)
  Infix "*" := tmul.
  Notation prodT := (prodT T t1 tmul).
  Notation up := (up T t0 t1 tadd tmul).

  (* ---- Chow-Liu tree decoding ---- *)
  Fixpoint assign (t : ctree T) (pv : Z) (r : row) : list (nat * Z) :=
    match t with
    | CT v cpt kids =>
        let term := fun x => cpt pv x * prodT (map (fun k => up k x r) kids) in
        let x := match r v with Some x => x | None => if sel (term 0%Z) (term 1%Z) then 0%Z else 1%Z end in
        (match r v with None => [(v, x)] | Some _ => [] end) ++ flat_map (fun k => assign k x r) kids
    end.
  Definition apply_assign (l : list (nat * Z)) (r : row) : row :=
    fold_left (fun acc vx => upd acc (fst vx) (Some (snd vx))) l r.
  Definition clt_mpe (c : clt T) (r : row) : row :=
    apply_assign (assign (clt_tree T t0 c) 0%Z r) r.

  (* ---- circuit descent ---- *)
  (* index of the first maximum of a list w.r.t. sel (np.argmax) *)
  Fixpoint argmax_from (best : T) (bi : nat) (i : nat) (l : list T) : nat :=
    match l with
    | [] => bi
    | x :: tl => if sel best x then argmax_from best bi (S i) tl else argmax_from x i (S i) tl
    end.
  Definition argmax (l : list T) : nat :=
    match l with [] => 0 | x :: tl => argmax_from x 0 1 tl end.
  Fixpoint wvals (ws vs : list T) : list T :=
    match ws, vs with w :: ws', v :: vs' => (w * v) :: wvals ws' vs' | _, _ => [] end.

  Variable leaf : Type.
  Definition branch (n : node T leaf) (ws : list T) (vs : list T) : nat :=
    argmax (wvals ws (map (fun k => nth k vs t0) (nkids n))).

  Definition node_picks (i : nat) (n : node T leaf) (vs : list T) (ps : list (list nat)) : list nat :=
    match nkind n with
    | KLeaf _ => [i]
    | KSum ws => nth (nth (branch n ws vs) (nkids n) 0) ps []
    | KProd => concat (map (fun k => nth k ps []) (nkids n))
    end.
  (* picks are computed alongside the values, children first *)
  Variable leaf_val : leaf -> row -> T.
  Definition picks (t : table T leaf) (r : row) : list (list nat) :=
    snd (fold_left (fun (acc : list T * list (list nat)) n =>
                      let '(vs, ps) := acc in
                      (vs ++ [node_val T t0 t1 tadd tmul leaf leaf_val n vs r],
                       ps ++ [node_picks (length ps) n vs ps]))
                   t ([], [])).

  (* leaf completion: a function of the leaf and the row, returning the cells it writes *)
  Variable leaf_fill : leaf -> row -> list (nat * Z).
  Definition leaf_of (t : table T leaf) (i : nat) : option leaf :=
    match nkind (nth i t (dummy_node T leaf)) with KLeaf l => Some l | _ => None end.
  Definition mpe_row (t : table T leaf) (r : row) : row :=
    let ls := nth (length t - 1) (picks t r) [] in
    fold_left (fun acc i => match leaf_of t i with
                            | Some l => apply_assign (leaf_fill l r) acc
                            | None => acc end) ls r.
End Mpe.

(* the built-in leaves: a table leaf writes its MPE value (supplied per leaf: Bernoulli p<1/2 ? 0 : 1,
   Categorical first maximal category) where its cell is missing; a CLT leaf decodes *)
Section LeafMpe.
  Variable T : Type.
  Variables (t0 t1 : T) (tadd tmul : T -> T -> T).
  Variable sel : T -> T -> bool.
  Definition tab_mode (tab : list (Z * T)) : Z :=
    match tab with
    | [] => 0%Z
    | (x, p) :: tl => fst (fold_left (fun (b : Z * T) xp => if sel (snd b) (snd xp) then b else xp) tl (x, p))
    end.
  (* modes : explicit MPE value per variable table when the leaf's rule is not "first maximum" *)
  Definition leaf_fill (mode_of : nat -> list (Z * T) -> Z) (l : leaf T) (r : row) : list (nat * Z) :=
    match l with
    | LTab v tab => match r v with None => [(v, mode_of v tab)] | Some _ => [] end
    | LClt c => assign T t0 t1 tadd tmul sel (clt_tree T t0 c) 0%Z r
    end.
End LeafMpe.
