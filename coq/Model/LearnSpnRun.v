(* Model/LearnSpnRun.v — replay runner of the C04/C05 correspondence. *)
From Coq Require Import List Arith ZArith QArith Qabs Qcanon Bool.
From DV Require Import Model.Check Model.QcInst Model.LearnSpn.
Import ListNotations.
Local Open Scope nat_scope.

(* a learned circuit as a tree: kind 0 sum / 1 product / 2 leaf (sub-model returned by the leaf learner) *)
Inductive ltree := LT (kind : nat) (scope : list nat) (nrows : nat) (ws : list Qc) (kids : list ltree).

Fixpoint arena_tree (fuel : nat) (a : list anode) (i : nat) : ltree :=
  let n := nth i a dummy_anode in
  match fuel with
  | O => LT 9 [] 0 [] []
  | S f =>
      match akind_of n with
      | ASum gs => LT 0 (ascope n) (length (arows n))
                      (map (fun g => Q2Qc (Z.of_nat (length g) # Pos.of_nat (length (arows n)))) gs)
                      (map (arena_tree f a) (akids n))
      | AProd _ => LT 1 (ascope n) (length (arows n)) [] (map (arena_tree f a) (akids n))
      | ALeaf => LT 2 (ascope n) (length (arows n)) [] []
      end
  end.

Fixpoint qlist_close (a b : list Qc) : bool :=
  match a, b with
  | [], [] => true
  | x :: a', y :: b' => closeq x y && qlist_close a' b'
  | _, _ => false
  end.

(* the implementation side does not know the rows of inner nodes: nrows is compared on leaves only *)
Fixpoint ltree_match (m i : ltree) : bool :=
  match m, i with
  | LT k1 s1 n1 w1 c1, LT k2 s2 n2 w2 c2 =>
      Nat.eqb k1 k2 && natlist_eqb s1 s2 && qlist_close w2 w1 &&
      (if Nat.eqb k1 2 then Nat.eqb n1 n2 else true) &&
      (fix go (x y : list ltree) : bool :=
         match x, y with
         | [], [] => true
         | p :: x', q :: y' => ltree_match p q && go x' y'
         | _, _ => false
         end) c1 c2
  end.

Definition op_code (o : op) : nat := match o with REM => 1 | LEAF => 2 | NAIVE => 3 | ROWS => 4 | COLS => 5 end.

(* every sum's children, in order, carry exactly the sum's row groups; weights are their proportions
   (evaluated on the model's final arena: an instance of the invariant theorem) *)
Definition sum_aligned (a : list anode) : bool :=
  forallb (fun n => match akind_of n with
                    | ASum gs => (fix eq2 (x : list (list nat)) (y : list nat) : bool :=
                                    match x, y with
                                    | [], [] => true
                                    | g :: x', k :: y' => natlist_eqb g (arows (nth k a dummy_anode)) && eq2 x' y'
                                    | _, _ => false
                                    end) gs (akids n)
                    | _ => true end) a.

Record lcase := {
  lc_minr : nat; lc_minc : nat; lc_nrows : nat; lc_ncols : nat;
  lc_answers : list answer;
  lc_ops : list nat;              (* the implementation's operation trace *)
  lc_impl : ltree }.              (* the circuit returned by learn_spn *)

(* output: [flags; -1; leaf rows ...]: flags 1 op sequence differs, 2 queue not empty at the end,
   4 tree differs, 8 model arena violates the alignment invariant; then for every leaf of the arena in
   creation order: -2, its rows *)
Definition run_lcase (c : lcase) : list Z :=
  let s0 := init (seq 0 (lc_nrows c)) (seq 0 (lc_ncols c)) in
  let s := run (lc_minr c) (lc_minc c) (lc_answers c) s0 in
  let a := arena s in
  let flags :=
    ((if natlist_eqb (map op_code (ops (lc_minr c) (lc_minc c) (lc_answers c) s0)) (lc_ops c) then 0 else 1) +
     (match queue s with [] => 0 | _ => 2 end) +
     (if ltree_match (arena_tree (S (length a)) a (result_root s)) (lc_impl c) then 0 else 4) +
     (if sum_aligned a then 0 else 8))%Z in
  flags :: flat_map (fun n => match akind_of n with
                              | ALeaf => (-2)%Z :: map Z.of_nat (arows n)
                              | _ => [] end) a.
