(* Model/Moments.v — deeprob/spn/algorithms/moments.py: `moment(root, order)` evaluates the circuit
   bottom-up on a (|scope| x |scope|) matrix of ones in which, on row j, the leaf of variable j
   contributes its k-th raw moment and every other leaf contributes one. *)
From Coq Require Import List Arith ZArith Bool.
From DV Require Import Model.Core Model.Leaves.
Import ListNotations.

Section Moments.
  Variable T : Type.
  Variables (t0 t1 : T) (tadd tmul : T -> T -> T).
  Variable ofZ : Z -> T.
  Infix "+" := tadd. Infix "*" := tmul.

  Fixpoint pw (x : T) (k : nat) : T := match k with O => t1 | S k' => x * pw x k' end.

  (* k-th raw moment of a table leaf: sum_x p(x) x^k  (scipy: bernoulli.moment / rv_discrete.moment) *)
  Fixpoint tab_moment (k : nat) (tab : list (Z * T)) : T :=
    match tab with [] => t0 | (x, p) :: tl => p * pw (ofZ x) k + tab_moment k tl end.

  (* a moment leaf: variable and its k-th raw moment (computed by tab_moment for discrete leaves,
     given by the leaf's own distribution object for continuous ones) *)
  Definition mleaf := (nat * T)%type.
  (* leaf_moment: row j of the matrix *)
  Definition mleaf_val (j : nat) (l : mleaf) (_ : row) : T :=
    if Nat.eqb (fst l) j then snd l else t1.

  Definition to_mleaf (k : nat) (l : leaf T) : mleaf :=
    match l with
    | LTab v tab => (v, tab_moment k tab)
    | LClt _ => (0, t0) (* BinaryCLT.moment raises NotImplementedError *)
    end.
  Definition to_mkind (k : nat) (kd : kind T (leaf T)) : kind T mleaf :=
    match kd with KLeaf l => KLeaf (to_mleaf k l) | KSum ws => KSum ws | KProd => KProd end.
  Definition to_mtable (k : nat) (t : table T (leaf T)) : table T mleaf :=
    map (fun n => Build_node (to_mkind k (nkind n)) (nscope n) (nkids n)) t.

  (* moment(root, order=k)[j] for k >= 1 *)
  Definition moment_at (t : table T (leaf T)) (k j : nat) : T :=
    root_val T t0 t1 tadd tmul mleaf (mleaf_val j) (to_mtable k t) row_none.

  (* the public query: negative order rejected (None = ValueError), order 0 = ones *)
  Definition moment_query (t : table T (leaf T)) (order : Z) (scope : list nat) : option (list T) :=
    if (order <? 0)%Z then None
    else if (order =? 0)%Z then Some (map (fun _ => t1) scope)
    else Some (map (moment_at t (Z.to_nat order)) scope).
End Moments.
