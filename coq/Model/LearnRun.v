(* Model/LearnRun.v — certificate runner of C04: every circuit returned by a structure learner is
   checked by the verified checker (Model/Check.v, soundness in Proofs/CheckFacts.v). *)
From Coq Require Import List Arith ZArith QArith Qcanon Bool.
From DV Require Import Model.Core Model.Clt Model.Leaves Model.Check Model.QcInst Model.Run Model.ToPcRun.
Import ListNotations.
Local Open Scope nat_scope.

Record vcase := {
  vc_t : qtable; vc_doms : list (nat * list Z); vc_cont : list nat; vc_ncols : nat;
  vc_sd : bool;                          (* structured decomposability requested *)
  vc_clt_scopes : list (list nat) }.     (* product scopes implied by Chow-Liu leaves (scopes of their subtrees) *)

(* weights strictly positive *)
Definition qnonneg (x : Qc) : bool := Qle_bool 0 (this x).
Definition weights_pos (t : qtable) : bool :=
  forallb (fun n : qnode => match nkind n with
                            | KSum ws => forallb (fun w => negb (Qle_bool (this w) 0)) ws
                            | KLeaf (LTab _ tab) => forallb (fun xp => qnonneg (snd xp)) tab
                            | KLeaf (LClt c) => forallb (forallb (forallb qnonneg)) (cparams c)
                            | KProd => true end) t.

(* flags: 1 not valid / not normalised, 2 root scope is not the set of all training columns,
   4 product scopes (incl. those implied by CLT leaves) not pairwise nested-or-disjoint, 8 a sum weight <= 0 or a leaf probability < 0 *)
Definition run_vcase (c : vcase) : Z :=
  let t := vc_t c in
  let ps := prod_scopes t ++ vc_clt_scopes c in
  ((if qvalid_c (vc_doms c) (vc_cont c) t then 0 else 1) +
   (if seteqb (nscope (nth (length t - 1) t (dummy_node Qc qleaf))) (seq 0 (vc_ncols c)) then 0 else 2) +
   (if vc_sd c then (if forallb (fun a => forallb (nested_or_disjoint a) ps) ps then 0 else 4) else 0) +
   (if weights_pos t then 0 else 8))%Z.
