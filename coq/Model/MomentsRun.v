(* Model/MomentsRun.v — runner used by the C19 correspondence (engine E1): evaluates the moment
   model at Qc and compares with the implementation's outputs inside Coq. *)
From Coq Require Import List Arith ZArith QArith Qabs Qcanon Bool.
From DV Require Import Model.Core Model.Leaves Model.Moments Model.QcInst.
Import ListNotations.
Local Open Scope nat_scope.

Definition ofZq (z : Z) : Qc := Q2Qc (inject_Z z).
Definition qmleaf := mleaf Qc.

Fixpoint assoc {A} (i : nat) (l : list (nat * A)) : option A :=
  match l with [] => None | (k, a) :: tl => if Nat.eqb k i then Some a else assoc i tl end.

(* continuous leaves: raw moments of orders 1.. supplied per node index (closed forms computed
   independently by the harness); discrete leaves go through Moments.to_mleaf *)
Fixpoint override (k : nat) (cont : list (nat * list Qc)) (i : nat) (t : table Qc qmleaf) : table Qc qmleaf :=
  match t with
  | [] => []
  | n :: tl =>
      (match assoc i cont with
       | Some ms => Build_node (KLeaf (hd 0%nat (nscope n), nth (k - 1) ms 0%Qc)) (nscope n) (nkids n)
       | None => n
       end) :: override k cont (S i) tl
  end.

Definition mtab (t : qtable) (cont : list (nat * list Qc)) (k : nat) : table Qc qmleaf :=
  override k cont 0 (to_mtable Qc 0%Qc 1%Qc Qcplus Qcmult ofZq k t).

Definition model_moment (t : qtable) (cont : list (nat * list Qc)) (k j : nat) : Qc :=
  root_val Qc 0%Qc 1%Qc Qcplus Qcmult qmleaf (mleaf_val Qc 1%Qc j) (mtab t cont k) row_none.

Definition qabs (x : Qc) : Q := Qabs (this x).
Definition near (rel abs : Q) (impl model : Qc) : bool :=
  Qle_bool (Qabs (this impl - this model)%Q) (rel * Qabs (this model) + abs)%Q.

Record mcase := {
  mc_t : qtable; mc_cont : list (nat * list Qc); mc_n : nat;
  mc_moms : list (list Qc);   (* implementation: moment(root, k) for k = 1..4 *)
  mc_var : list Qc; mc_skew : list Qc; mc_kurt : list Qc }.

Definition b2z (b : bool) (w : Z) : Z := if b then 0%Z else w.

(* per variable j: flags 1 moment, 2 variance, 4 skewness, 8 kurtosis; 16 = ill-conditioned (skipped) *)
Definition check_var (c : mcase) (j : nat) : Z :=
  let m := fun k => model_moment (mc_t c) (mc_cont c) k j in
  let m1 := m 1 in let m2 := m 2 in let m3 := m 3 in let m4 := m 4 in
  let im := fun k => nth j (nth (k - 1) (mc_moms c) []) 0%Qc in
  let okm := (near (2#10000)%Q (1#1000000)%Q (im 1) m1 && near (2#10000)%Q (1#1000000)%Q (im 2) m2 &&
              near (2#10000)%Q (1#1000000)%Q (im 3) m3 && near (2#10000)%Q (1#1000000)%Q (im 4) m4)%bool in
  let cm2 := (m2 - m1 * m1)%Qc in
  let cm3 := (m3 - Q2Qc 3 * m1 * m2 + Q2Qc 2 * m1 * m1 * m1)%Qc in
  let cm4 := (m4 - Q2Qc 4 * m1 * m3 + Q2Qc 6 * m1 * m1 * m2 - Q2Qc 3 * m1 * m1 * m1 * m1)%Qc in
  (* float32 cancellation error of the raw-moment formulas: scale = sum of the terms' magnitudes *)
  let s2 := (qabs m2 + qabs (m1 * m1)%Qc)%Q in
  let okv := Qle_bool (Qabs (this (nth j (mc_var c) 0%Qc) - this cm2)%Q) ((1#100000) * s2 + (1#10000000))%Q in
  let well := Qle_bool ((1#1000) * s2 + (1#1000))%Q (this cm2) in
  let sk := nth j (mc_skew c) 0%Qc in
  let s3 := (qabs m3 + 3 * qabs (m1 * m2)%Qc + 2 * qabs (m1 * m1 * m1)%Qc)%Q in
  let oks := if well then
      (* sk^2 * cm2^3 = cm3^2 and same sign, with relative slack for float32 *)
      (Qle_bool (Qabs (this (sk * sk * cm2 * cm2 * cm2)%Qc - this (cm3 * cm3)%Qc)%Q)
                ((2#100) * this (cm3 * cm3)%Qc + (1#1000) * s3 * s3 + (1#100000000))%Q &&
       (Qle_bool (Qabs (this cm3)) ((1#1000) * s3 + (1#100000))%Q ||
        Bool.eqb (Qle_bool 0%Q (this sk)) (Qle_bool 0%Q (this cm3))))%bool
    else true in
  let ku := nth j (mc_kurt c) 0%Qc in
  let s4 := (qabs m4 + 4 * qabs (m1 * m3)%Qc + 6 * qabs (m1 * m1 * m2)%Qc + 3 * qabs (m1 * m1 * m1 * m1)%Qc)%Q in
  let okk := if well then
      (* (ku + 3) * cm2^2 = cm4 *)
      Qle_bool (Qabs (this ((ku + Q2Qc 3) * cm2 * cm2)%Qc - this cm4)%Q)
               ((1#100) * Qabs (this cm4) + (1#1000) * s4 + (1#100000000))%Q
    else true in
  (b2z okm 1 + b2z okv 2 + b2z oks 4 + b2z okk 8 + (if well then 0 else 16))%Z.

Definition run_mcase (c : mcase) : list Z := map (check_var c) (seq 0 (mc_n c)).
