(* Model/Sched.v — parallel layer-wise evaluation (deeprob/spn/algorithms/evaluation.py:
   parallel_layerwise_eval, eval_bottom_up, eval_top_down; node.py: topological_order_layered).
   Shared memory is a function loc -> V.  The tasks of one layer each contribute a list of ATOMIC
   actions; a schedule is any interleaving of those lists; layers are separated by barriers.
   `layer_of` is the layering the code computes by Kahn counting from the root. *)
From Coq Require Import List Arith Bool.
From DV Require Import Model.Core.
Import ListNotations.

Section Sched.
  Variable loc : Type.
  Variable V : Type.
  Definition mem := loc -> V.
  (* an atomic action: a state transformer of the shared memory *)
  Definition act := mem -> mem.
  Definition exec (s : list act) (m : mem) : mem := fold_left (fun m a => a m) s m.

  (* interleavings of the per-task action lists *)
  Inductive interleave : list (list act) -> list act -> Prop :=
  | il_done ts : Forall (fun t => t = []) ts -> interleave ts []
  | il_step ts1 a t ts2 s : interleave (ts1 ++ t :: ts2) s -> interleave (ts1 ++ (a :: t) :: ts2) (a :: s).
End Sched.

Section Layers.
  Variable T : Type.
  Variable leaf : Type.
  (* depth d.(k) of node k: None = not (yet) reached from the root.  One descending sweep over a
     children-first table: a node passes depth+1 to its children, keeping the maximum *)
  Fixpoint bump (d : list (option nat)) (ks : list nat) (v : nat) : list (option nat) :=
    match ks with
    | [] => d
    | k :: ks' =>
        let old := nth k d None in
        let new := match old with Some x => Some (Nat.max x v) | None => Some v end in
        bump (firstn k d ++ [new] ++ skipn (S k) d) ks' v
    end.
  Fixpoint sweep (t : table T leaf) (i : nat) (d : list (option nat)) : list (option nat) :=
    match i with
    | O => d
    | S j =>
        let d' := match nth j d None with
                  | Some x => bump d (nkids (nth j t (dummy_node T leaf))) (S x)
                  | None => d
                  end in
        sweep t j d'
    end.
  Definition layer_of (t : table T leaf) : list (option nat) :=
    let n := length t in
    sweep t n (repeat None (n - 1) ++ [Some 0]).
  (* the nodes of layer l *)
  Definition layer (t : table T leaf) (l : nat) : list nat :=
    filter (fun i => match nth i (layer_of t) None with Some x => Nat.eqb x l | None => false end) (seq 0 (length t)).
End Layers.
