(* Model/Core.v — executable definitions only: bottom-up evaluation of a circuit table over any
   number type (T, t0, t1, tadd, tmul).  Mirrors deeprob/spn/algorithms/evaluation.py:eval_bottom_up
   with node_func = Sum.likelihood / Product.likelihood (deeprob/spn/structure/node.py). *)
From Coq Require Import List Arith ZArith Bool.
Import ListNotations.

Section Core.
  Variable T : Type.
  Variables (t0 t1 : T) (tadd tmul : T -> T -> T).
  Infix "+" := tadd. Infix "*" := tmul.

  Fixpoint sumT (l : list T) : T := match l with [] => t0 | x :: xs => x + sumT xs end.
  Fixpoint prodT (l : list T) : T := match l with [] => t1 | x :: xs => x * prodT xs end.
  (* np.dot(x, weights): pairs beyond the shorter list are dropped (validation forbids them) *)
  Fixpoint dotT (ws xs : list T) : T :=
    match ws, xs with w :: ws', x :: xs' => w * x + dotT ws' xs' | _, _ => t0 end.

  (* one input row: variable id -> cell; None is NaN (missing) *)
  Definition row := nat -> option Z.
  Definition upd (r : row) (v : nat) (c : option Z) : row :=
    fun u => if Nat.eqb u v then c else r u.
  Definition row_none : row := fun _ => None.

  Variable dom : nat -> list Z.

  (* leaves are abstract here; Leaves.v gives the built-in families *)
  Variable leaf : Type.
  Variable leaf_val : leaf -> row -> T.

  Inductive kind := KLeaf (l : leaf) | KSum (ws : list T) | KProd.
  Record node := { nkind : kind; nscope : list nat; nkids : list nat }.
  Definition table := list node.

  Definition node_val (n : node) (vs : list T) (r : row) : T :=
    match nkind n with
    | KLeaf l => leaf_val l r
    | KSum ws => dotT ws (map (fun k => nth k vs t0) (nkids n))
    | KProd => prodT (map (fun k => nth k vs t0) (nkids n))
    end.

  (* children-first evaluation: one value per node, appended in table order *)
  Definition vals (t : table) (r : row) : list T :=
    fold_left (fun vs n => vs ++ [node_val n vs r]) t [].

  Definition val (t : table) (i : nat) (r : row) : T := nth i (vals t r) t0.
  Definition root_val (t : table) (r : row) : T := val t (length t - 1) r.

  Definition dummy_node : node := {| nkind := KProd; nscope := []; nkids := [] |}.
  Definition scope_of (t : table) (k : nat) : list nat := nscope (nth k t dummy_node).

  (* sum over all completions of the variables vs (in that order) *)
  Fixpoint sum_compl (vs : list nat) (f : row -> T) (r : row) : T :=
    match vs with
    | [] => f r
    | v :: vs' => sumT (map (fun x => sum_compl vs' f (upd r v (Some x))) (dom v))
    end.
End Core.

Arguments KLeaf {T leaf}. Arguments KSum {T leaf}. Arguments KProd {T leaf}.
Arguments Build_node {T leaf}. Arguments nkind {T leaf}. Arguments nscope {T leaf}. Arguments nkids {T leaf}.
