(* Model/MpeRun.v — runner of the C06 correspondence at Qc (engine E1). *)
From Coq Require Import List Arith ZArith QArith Qabs Qcanon Bool.
From DV Require Import Model.Core Model.Clt Model.Leaves Model.Mpe Model.QcInst.
Import ListNotations.
Local Open Scope nat_scope.

Definition qmax (a b : Qc) : Qc := if Qle_bool (this b) (this a) then a else b.
(* np.argmax keeps the FIRST maximum: a wins ties *)
Definition sel_first (a b : Qc) : bool := Qle_bool (this b) (this a).
(* margin variants used only to detect numerical near-ties (excluded by the property) *)
Definition eps_tie : Q := 1 # 10000.
Definition sel_hi (a b : Qc) : bool := Qle_bool (this b * (1 + eps_tie))%Q (this a).
Definition sel_lo (a b : Qc) : bool := Qle_bool (this b) (this a * (1 + eps_tie))%Q.

Definition qfill (sel : Qc -> Qc -> bool) : qleaf -> row -> list (nat * Z) :=
  leaf_fill Qc 0%Qc 1%Qc qmax Qcmult sel (fun _ tab => tab_mode Qc sel tab).
(* circuit values are sum-product (Qcplus); CLT decoding is max-product (qmax) *)
Definition qmpe (sel : Qc -> Qc -> bool) (t : qtable) (r : row) : row :=
  mpe_row Qc 0%Qc 1%Qc Qcplus Qcmult sel qleaf qleaf_val (qfill sel) t r.
Definition qclt_mpe (sel : Qc -> Qc -> bool) (c : clt Qc) (r : row) : row :=
  clt_mpe Qc 0%Qc 1%Qc qmax Qcmult sel c r.

Definition cells (w : nat) (r : row) : list (option Z) := map r (seq 0 w).
Fixpoint ocells_eqb (a b : list (option Z)) : bool :=
  match a, b with
  | [], [] => true
  | Some x :: a', Some y :: b' => Z.eqb x y && ocells_eqb a' b'
  | None :: a', None :: b' => ocells_eqb a' b'
  | _, _ => false
  end.

(* one row: 0 agree, 1 differ, 16 numerical tie (skipped) *)
Definition cmp_row (f : (Qc -> Qc -> bool) -> row -> row) (w : nat) (rw : row * list (option Z)) : Z :=
  let m := cells w (f sel_first (fst rw)) in
  if (ocells_eqb m (cells w (f sel_hi (fst rw))) && ocells_eqb m (cells w (f sel_lo (fst rw))))%bool
  then (if ocells_eqb m (snd rw) then 0 else 1)%Z else 16%Z.

(* the same with the tie rule of the sum nodes and the tie rule of the leaves varied SEPARATELY: with one rule for both, two
   near-ties on one path (a sum node and the leaf mode below it) can cancel and hide each other *)
Definition qmpe2 (ssel lsel : Qc -> Qc -> bool) (t : qtable) (r : row) : row :=
  mpe_row Qc 0%Qc 1%Qc Qcplus Qcmult ssel qleaf qleaf_val (qfill lsel) t r.
Definition cmp_row2 (f : (Qc -> Qc -> bool) -> (Qc -> Qc -> bool) -> row -> row) (w : nat) (rw : row * list (option Z)) : Z :=
  let m := cells w (f sel_first sel_first (fst rw)) in
  if (ocells_eqb m (cells w (f sel_hi sel_hi (fst rw))) && ocells_eqb m (cells w (f sel_lo sel_lo (fst rw))) &&
      ocells_eqb m (cells w (f sel_hi sel_first (fst rw))) && ocells_eqb m (cells w (f sel_lo sel_first (fst rw))) &&
      ocells_eqb m (cells w (f sel_first sel_hi (fst rw))) && ocells_eqb m (cells w (f sel_first sel_lo (fst rw))))%bool
  then (if ocells_eqb m (snd rw) then 0 else 1)%Z else 16%Z.

Record pcase := { pc_t : qtable; pc_w : nat; pc_rows : list (row * list (option Z)) }.
(* rows whose evidence has probability zero are outside the positivity clause and every branch
   comparison on them can be an exact 0 = 0 tie (the code then prefers a floored -1e31 to -inf): 32 *)
(* 2: the implementation's completed row has probability zero although the evidence has not
   (positivity clause, checked on the implementation's own output, numerical ties included) *)
Definition run_pcase (c : pcase) : list Z :=
  map (fun rw => if Qc_eq_bool (qroot (pc_t c) (fst rw)) 0%Qc then 32%Z
                 else if Qc_eq_bool (qroot (pc_t c) (mkrow (snd rw))) 0%Qc then 2%Z
                 else cmp_row2 (fun s l => qmpe2 s l (pc_t c)) (pc_w c) rw) (pc_rows c).

Record tcase := { tc_c : clt Qc; tc_w : nat; tc_rows : list (row * list (option Z)) }.
Definition run_tcase (c : tcase) : list Z := map (cmp_row (fun s => qclt_mpe s (tc_c c)) (tc_w c)) (tc_rows c).

(* brute-force certificate for trees: joint of the decoded row >= joint of every completion *)
Definition qjoint (c : clt Qc) (r : row) : Qc := clt_val Qc 0%Qc 1%Qc Qcplus Qcmult c r.
