(* Model/QcInst.v — the exact-rational instance used to run the model inside Coq (engine E1). *)
From Coq Require Import List Arith ZArith QArith Qabs Qcanon Bool.
From DV Require Import Model.Core Model.Clt Model.Leaves.
Import ListNotations.

Definition q (n : Z) (d : positive) : Qc := Q2Qc (Qmake n d).
Definition qleaf := leaf Qc.
Definition qnode := node Qc qleaf.
Definition qtable := table Qc qleaf.
Definition qleaf_val : qleaf -> row -> Qc := leaf_val Qc 0%Qc 1%Qc Qcplus Qcmult.
Definition qleaf_lik : qleaf -> row -> Qc := leaf_lik Qc 0%Qc 1%Qc Qcplus Qcmult.
Definition qvals (t : qtable) (r : row) : list Qc := vals Qc 0%Qc 1%Qc Qcplus Qcmult qleaf qleaf_val t r.
Definition qvals_lik (t : qtable) (r : row) : list Qc := vals Qc 0%Qc 1%Qc Qcplus Qcmult qleaf qleaf_lik t r.
Definition qroot (t : qtable) (r : row) : Qc := root_val Qc 0%Qc 1%Qc Qcplus Qcmult qleaf qleaf_val t r.
Definition qroot_lik (t : qtable) (r : row) : Qc := root_val Qc 0%Qc 1%Qc Qcplus Qcmult qleaf qleaf_lik t r.
Definition qsum (l : list Qc) : Qc := sumT Qc 0%Qc Qcplus l.

Definition mkrow (l : list (option Z)) : row := fun v => nth v l None.
Definition N_ : option Z := None.
Definition S_ (z : Z) : option Z := Some z.

(* |impl - model| <= rel * |model| + abs, on exact rationals *)
Definition close (rel abs : Q) (impl model : Qc) : bool :=
  Qle_bool (Qabs (this impl - this model)) (rel * Qabs (this model) + abs).
Definition tol_rel : Q := 2 # 10000.
Definition tol_abs : Q := 1 # 1000000000.
Definition closeq := close tol_rel tol_abs.

Fixpoint count_false (l : list bool) : nat :=
  match l with [] => 0 | true :: tl => count_false tl | false :: tl => S (count_false tl) end.
Fixpoint first_false (l : list bool) (i : nat) : option nat :=
  match l with [] => None | true :: tl => first_false tl (S i) | false :: _ => Some i end.
