(* Model/DgcRun.v — runners used by harness/c17.py (engine E1).  Every runner returns a flag code,
   0 = the implementation's data agree with the model. *)
From Coq Require Import List ZArith Bool QArith Qcanon.
From DV Require Import Model.Core Model.Dgc Model.QcInst.
Import ListNotations.
Open Scope Z_scope.

Fixpoint zlist_eqb (a b : list Z) : bool :=
  match a, b with
  | [], [] => true
  | x :: a', y :: b' => (x =? y) && zlist_eqb a' b'
  | _, _ => false
  end.

(* a layer as the tuple read off the torch module:
   [kind(0 prod,1 sum); in_c; in_side; out_c; out_side; pad_l; pad_r; stride; dilation; depthwise] *)
Definition layer_code (L : layer) : list Z :=
  match lk L with
  | KProdL pl pr s d dw => [0; l_inc L; l_ins L; l_outc L; l_outs L; pl; pr; s; d; if dw then 1 else 0]
  | KSumL => [1; l_inc L; l_ins L; l_outc L; l_outs L; 0; 0; 0; 0; 0]
  end.

(* model-side sanity of a built network (what the theorems say), evaluated on the instance:
   every pixel is used exactly once under every final position *)
Definition usage_ok (g : cfg) : bool :=
  let b := build g in
  forallb (fun h => forallb (fun x => use1 (s_ls b) h x =? 1) (zrange (cf_side g))) (zrange (s_side b)).

(* configuration case: impl_ok = the constructor did not raise; impl_layers = tuples bottom first,
   followed by the root layer's in_features [c; side].
   flags: 1 acceptance differs, 2 layer data differ, 8 (divisible configs only) model usage not 1 *)
Definition run_cfgcase (g : cfg) (impl_ok : bool) (impl_layers : list (list Z)) (impl_root : list Z) : Z :=
  let acc := accepted g in
  if negb (Bool.eqb acc impl_ok) then 1
  else if negb acc then 0
  else
    let b := build g in
    let ml := map layer_code (rev (s_ls b)) in
    let same := (Nat.eqb (length ml) (length impl_layers)) &&
                forallb (fun p => zlist_eqb (fst p) (snd p)) (combine ml impl_layers) &&
                zlist_eqb [s_c b; s_side b] impl_root in
    (if same then 0 else 2) +
    (if (cf_side g mod 2 ^ cf_pool g =? 0) && negb (usage_ok g) then 8 else 0).

(* sparse kernel case: the flattened 0/1 `weight` buffer of a non-depthwise product layer with C
   input channels, in the order (o, ci, a, b) *)
Definition kernel_flat (C : Z) : list Z :=
  flat_map (fun o => flat_map (fun ci => flat_map (fun a => map (fun b =>
     if kernel_w C o ci a b then 1 else 0) [0; 1]) [0; 1]) (zrange C)) (zrange (C ^ 4)).
Definition run_kernelcase (C : Z) (impl : list Z) : Z := if zlist_eqb (kernel_flat C) impl then 0 else 1.

(* induced sub-circuit case: tabs = for every layer id (bottom first, product layers get an empty
   table) the side and the chosen input channel per (out channel, flattened position);
   ridx = flat index chosen at the root; impl = integer gradient of the class output with respect
   to the base layer outputs, order (c, x, y).  flag 4 = leaf usage differs *)
Definition mkch (tabs : list (Z * list (list Z))) : nat -> Z -> Z -> Z -> Z :=
  fun lid o h w => match nth lid tabs (0, []) with
                   | (sd, t) => nth (Z.to_nat (h * sd + w)) (nth (Z.to_nat o) t []) 0
                   end.

Definition run_usecase (g : cfg) (tabs : list (Z * list (list Z))) (ridx : Z) (impl : list Z) : Z :=
  let b := build g in
  match unravel (s_side b) ridx with
  | (c, h, w) =>
    let lv := leaves (mkch tabs) (s_ls b) c h w in
    let D := cf_side g in
    let m := flat_map (fun c => flat_map (fun x => map (fun y => count_leaf c x y lv) (zrange D)) (zrange D))
                      (zrange (cf_batch g)) in
    if zlist_eqb m impl then 0 else 4
  end.

(* forward case at exact rationals: lfv = exp(base layer outputs) in order (c,x,y); swt = softmax
   weights per layer id in order (o, ci, h, w); rwt = root softmax weights (class, flat index);
   impl = exp(forward) per class.  flag 16 = some class output is not within tolerance *)
Definition nthq (l : list Qc) (i : Z) : Qc := nth (Z.to_nat i) l 0%Qc.
Definition run_evalcase (g : cfg) (lfv : list Qc) (swt : list (Z * Z * list Qc)) (rwt : list (list Qc))
           (impl : list Qc) : Z :=
  let b := build g in
  let D := cf_side g in
  let lf := fun c h w => nthq lfv ((c * D + h) * D + w) in
  let wt := fun lid o ci h w => match nth lid swt (0, 0, []) with
                                | (Cin, sd, t) => nthq t (((o * Cin + ci) * sd + h) * sd + w) end in
  let rw := fun k idx => nthq (nth (Z.to_nat k) rwt []) idx in
  let outs := map (fun k => eval_root Qc 0%Qc 1%Qc Qcplus Qcmult wt lf rw (s_ls b) (s_c b) (s_side b) k)
                  (zrange (cf_classes g)) in
  if (Nat.eqb (length outs) (length impl)) && forallb (fun p => closeq (fst p) (snd p)) (combine impl outs)
  then 0 else 16.
