(* Model/ToPc.v — BinaryCLT.to_pc (deeprob/spn/structure/cltree.py): conversion of a Chow-Liu tree
   into a smooth, decomposable, deterministic, structured-decomposable circuit.  Per tree node with
   variable v: two indicator leaves (Bernoulli p=0, p=1), for an inner node two products
   [indicator; children's sums conditioned on that value, LAST child first], and the pair of sums
   (weights P(.|parent=0), P(.|parent=1)) sharing those children.  The builder appends to a
   children-first table and returns the positions of the (parent=0, parent=1) sums. *)
From Coq Require Import List Arith ZArith Bool.
From DV Require Import Model.Core Model.Clt Model.Leaves.
Import ListNotations.

Section ToPc.
  Variable T : Type.
  Variables (t0 t1 : T).
  Notation node := (node T (leaf T)).
  Notation table := (table T (leaf T)).

  Definition ind0 (v : nat) : node := Build_node (KLeaf (LTab v [(0%Z, t1); (1%Z, t0)])) [v] [].
  Definition ind1 (v : nat) : node := Build_node (KLeaf (LTab v [(0%Z, t0); (1%Z, t1)])) [v] [].

  (* children loop, parametrised by the recursive call (later children go to the FRONT of the
     products' child lists: the code pops the stack, last child first) *)
  Definition go_with (f : ctree T -> table -> table * (nat * nat)) :=
    fix go (ks : list (ctree T)) (acc : table) (negs poss : list nat) (sc : list (list nat))
        : table * (list nat * list nat * list (list nat)) :=
    match ks with
    | [] => (acc, (negs, poss, sc))
    | k :: ks' =>
        let '(a1, (n, p)) := f k acc in
        go ks' a1 (n :: negs) (p :: poss) (nscope (nth n a1 (dummy_node T (leaf T))) :: sc)
    end.

  Definition emit (v : nat) (cpt : Z -> Z -> T) (leafp : bool) (acc1 : table) (negs poss : list nat)
             (scs : list (list nat)) : table * (nat * nat) :=
    let i0 := length acc1 in
    let w0 := [cpt 0%Z 0%Z; cpt 0%Z 1%Z] in
    let w1 := [cpt 1%Z 0%Z; cpt 1%Z 1%Z] in
    if leafp then
      (acc1 ++ [ind0 v; ind1 v;
                Build_node (KSum w0) [v] [i0; S i0];
                Build_node (KSum w1) [v] [i0; S i0]], (i0 + 2, i0 + 3))
    else
      let psc := v :: concat scs in
      (acc1 ++ [ind0 v; ind1 v;
                Build_node KProd psc (i0 :: negs);
                Build_node KProd psc (S i0 :: poss);
                Build_node (KSum w0) psc [i0 + 2; i0 + 3];
                Build_node (KSum w1) psc [i0 + 2; i0 + 3]], (i0 + 4, i0 + 5)).

  Fixpoint topc (t : ctree T) (acc : table) {struct t} : table * (nat * nat) :=
    match t with
    | CT v cpt kids =>
        let '(acc1, (negs, poss, scs)) := go_with (fun k a => topc k a) kids acc [] [] [] in
        emit v cpt (match kids with [] => true | _ => false end) acc1 negs poss scs
    end.

  (* pc = pos_buffer[0]: the root sum with the weights of row 1 of the root factor *)
  Definition to_pc (c : clt T) : table * nat :=
    let '(t, (_, p)) := topc (clt_tree T t0 c) [] in (t, p).
End ToPc.
