(* Model/Run.v — runners of the E1 correspondence for circuit evaluation (C01, C02, ...). *)
From Coq Require Import List Arith ZArith QArith Qabs Qcanon Bool.
From DV Require Import Model.Core Model.Clt Model.Leaves Model.Check Model.QcInst.
Import ListNotations.
Local Open Scope nat_scope.

Definition qvalid_c (doms : list (nat * list Z)) (cont : list nat) (t : qtable) : bool :=
  valid_b Qc 0%Qc 1%Qc Qcplus Qc_eq_bool doms cont t.
Definition qvalid_b (doms : list (nat * list Z)) (t : qtable) : bool := qvalid_c doms [] t.

Record lcase := {
  lc_t : qtable;
  lc_doms : list (nat * list Z);
  lc_cont : list nat;                       (* continuous variables (restricted to test points) *)
  lc_exh : bool;                            (* rows = ALL complete assignments of a discrete circuit *)
  lc_rows : list (row * (Qc * Qc)) }.       (* row, implementation likelihood, exp(implementation log-likelihood) *)

(* header: [validity certificate; total mass] then one code per row:
   1 likelihood differs, 2 exp(log-likelihood) differs, 4 model: gather <> message passing *)
Definition run_lcase (c : lcase) : list Z :=
  let t := lc_t c in
  let ms := map (fun rw => qroot_lik t (fst rw)) (lc_rows c) in
  (if qvalid_c (lc_doms c) (lc_cont c) t then 0 else 64)%Z ::
  (if lc_exh c then (if Qc_eq_bool (qsum ms) 1%Qc then 0 else 32) else 0)%Z ::
  map (fun rw =>
         let r := fst rw in
         let m := qroot_lik t r in
         ((if closeq (fst (snd rw)) m then 0 else 1) +
          (if closeq (snd (snd rw)) m then 0 else 2) +
          (if Qc_eq_bool m (qroot t r) then 0 else 4))%Z) (lc_rows c).
