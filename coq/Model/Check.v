(* Model/Check.v — boolean validity checker for circuit tables (certificate checker): smoothness,
   decomposability, children-before-parents, normalised weights and leaves.  Soundness
   (valid_b = true -> valid /\ normalised) is proved in Proofs/CheckFacts.v. *)
From Coq Require Import List Arith ZArith Bool.
From DV Require Import Model.Core Model.Clt Model.Leaves.
Import ListNotations.

Section Check.
  Variable T : Type.
  Variables (t0 t1 : T) (tadd tmul : T -> T -> T).
  Variable teqb : T -> T -> bool.
  Variable doms : list (nat * list Z).
  (* variables whose table leaves are restrictions of a continuous density to the run's test
     points: their normalisation cannot be checked on a finite table (assumed, see DESIGN §3) *)
  Variable cont : list nat.

  Fixpoint dom_of (l : list (nat * list Z)) (v : nat) : list Z :=
    match l with [] => [] | (u, d) :: tl => if Nat.eqb u v then d else dom_of tl v end.
  Definition dom := dom_of doms.

  Definition memb (x : nat) (l : list nat) : bool := existsb (Nat.eqb x) l.
  Definition subsetb (a b : list nat) : bool := forallb (fun x => memb x b) a.
  Definition seteqb (a b : list nat) : bool := subsetb a b && subsetb b a.
  Definition disjb (a b : list nat) : bool := forallb (fun x => negb (memb x b)) a.
  Fixpoint pairwise_disjb (l : list (list nat)) : bool :=
    match l with [] => true | a :: tl => forallb (disjb a) tl && pairwise_disjb tl end.
  Fixpoint zlist_eqb (a b : list Z) : bool :=
    match a, b with
    | [], [] => true
    | x :: a', y :: b' => Z.eqb x y && zlist_eqb a' b'
    | _, _ => false
    end.
  Fixpoint natlist_eqb (a b : list nat) : bool :=
    match a, b with
    | [], [] => true
    | x :: a', y :: b' => Nat.eqb x y && natlist_eqb a' b'
    | _, _ => false
    end.

  Fixpoint rows_normb (t : ctree T) : bool :=
    match t with CT _ cpt kids =>
      teqb (tadd (cpt 0%Z 0%Z) (cpt 0%Z 1%Z)) t1 && teqb (tadd (cpt 1%Z 0%Z) (cpt 1%Z 1%Z)) t1 &&
      (fix all (l : list (ctree T)) := match l with [] => true | k :: ks => rows_normb k && all ks end) kids
    end.

  Definition leaf_okb (l : leaf T) (sc : list nat) : bool :=
    match l with
    | LTab v tab =>
        natlist_eqb sc [v] &&
        (existsb (Nat.eqb v) cont || teqb (sumT T t0 tadd (map (lookup T t0 tab) (dom v))) t1)
    | LClt c =>
        let vs := vars T (clt_tree T t0 c) in
        nodupb vs && subsetb vs sc && subsetb sc vs &&
        forallb (fun v => zlist_eqb (dom v) dom2) sc && rows_normb (clt_tree T t0 c)
    end.

  Definition node_okb (t : table T (leaf T)) (n : node T (leaf T)) : bool :=
    forallb (fun k => Nat.ltb k (length t)) (nkids n) &&
    match nkind n with
    | KLeaf l => leaf_okb l (nscope n)
    | KSum ws => Nat.eqb (length ws) (length (nkids n)) &&
                 forallb (fun k => seteqb (scope_of T (leaf T) t k) (nscope n)) (nkids n) &&
                 teqb (sumT T t0 tadd ws) t1
    | KProd => seteqb (concat (map (scope_of T (leaf T) t) (nkids n))) (nscope n) &&
               pairwise_disjb (map (scope_of T (leaf T) t) (nkids n))
    end.

  Fixpoint valid_aux (pre rest : table T (leaf T)) : bool :=
    match rest with [] => true | n :: tl => node_okb pre n && valid_aux (pre ++ [n]) tl end.
  Definition valid_b (t : table T (leaf T)) : bool := valid_aux [] t.
End Check.
