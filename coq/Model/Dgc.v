(* Model/Dgc.v — executable model of the DGC-SPN architecture (definitions only).
   Mirrors deeprob/spn/models/dgcspn.py:DgcSpn.__init__ (depth, per-level padding / stride / dilation,
   depthwise flags, the layer loop) and deeprob/spn/layers/dgcspn.py: SpatialProductLayer.__init__
   (pad, out_features, sparse kernels) / .forward (F.pad + F.conv2d as an indexed product of the
   2x2 dilated window), SpatialSumLayer.forward (per-position mixture over channels),
   SpatialRootLayer.forward (mixture over the flattened (c,h,w) positions),
   SpatialGaussianLayer.forward (a missing pixel contributes log 1 = 0), DgcSpn.mpe (torch.where).
   All index arithmetic is in Z.  Layer lists are kept TOP FIRST (the code appends; we cons). *)
From Coq Require Import List ZArith Bool.
Import ListNotations.
Open Scope Z_scope.

(* ---------- configuration and constructor arithmetic ---------- *)
Record cfg := { cf_chan : Z; cf_side : Z; cf_classes : Z; cf_batch : Z; cf_sumc : Z;
                cf_pool : Z; cf_dw : list bool }.

(* depth = int(np.ceil(np.log2(in_features[1]))) *)
Definition depth_of (D : Z) : Z := Z.log2_up D.

(* the ValueError checks of DgcSpn.__init__ that concern the architecture (a list of flags is
   passed; a single bool b corresponds to [b]) *)
Definition accepted (g : cfg) : bool :=
  (0 <? cf_classes g) && (0 <? cf_batch g) && (0 <? cf_sumc g) &&
  negb (Nat.eqb (length (cf_dw g)) 0) && (Z.of_nat (length (cf_dw g)) <=? depth_of (cf_side g) + 1) &&
  (0 <=? cf_pool g) && (cf_pool g <=? depth_of (cf_side g)).

(* depthwise.extend([depthwise[-1]] * rest) *)
Definition dw_flag (dws : list bool) (i : Z) : bool := nth (Z.to_nat i) dws (last dws false).

Inductive lkind :=
| KProdL (pl pr s d : Z) (dw : bool)   (* pad left/top, pad right/bottom, stride, dilation, depthwise *)
| KSumL.
Record layer := { lk : lkind; l_inc : Z; l_ins : Z; l_outc : Z; l_outs : Z }.

(* (pad_left, pad_right, stride, dilation) of product layer i — the if/else of the layer loop
   plus the 'valid' / 'full' / 'final' cases of SpatialProductLayer.__init__ (kernel 2x2, so the
   effective kernel size is d + 1) *)
Definition prod_geom (depth n i side : Z) : Z * Z * Z * Z :=
  if i <? n then (0, 0, 2, 1)
  else let d := 2 ^ (i - n) in
       if i =? depth then (0, d * 2 - side, 1, d) else (d, d, 1, d).

(* out = ceil((pad_l + pad_r + in - keh + 1) / stride) *)
Definition out_side (pl pr s d side : Z) : Z := (pl + pr + side - (d + 1) + 1 + (s - 1)) / s.

Definition mk_prod (depth n i c side : Z) (dw : bool) : layer :=
  match prod_geom depth n i side with
  | (pl, pr, s, d) =>
    {| lk := KProdL pl pr s d dw; l_inc := c; l_ins := side;
       l_outc := if dw then c else c ^ 4; l_outs := out_side pl pr s d side |}
  end.
Definition mk_sum (c side oc : Z) : layer :=
  {| lk := KSumL; l_inc := c; l_ins := side; l_outc := oc; l_outs := side |}.

(* loop state: index i, current in_features (channels, side), layers so far (top first) *)
Record st := { s_i : Z; s_c : Z; s_side : Z; s_ls : list layer }.

Definition step (g : cfg) (s : st) : st :=
  let depth := depth_of (cf_side g) in
  let P := mk_prod depth (cf_pool g) (s_i s) (s_c s) (s_side s) (dw_flag (cf_dw g) (s_i s)) in
  if s_i s =? depth
  then {| s_i := s_i s + 1; s_c := l_outc P; s_side := l_outs P; s_ls := P :: s_ls s |}
  else {| s_i := s_i s + 1; s_c := cf_sumc g; s_side := l_outs P;
          s_ls := mk_sum (l_outc P) (l_outs P) (cf_sumc g) :: P :: s_ls s |}.

(* base layer: (C, D, D) -> (n_batch, D, D) *)
Definition st0 (g : cfg) : st := {| s_i := 0; s_c := cf_batch g; s_side := cf_side g; s_ls := [] |}.
Definition state_at (g : cfg) (k : nat) : st := Nat.iter k (step g) (st0 g).
Definition nsteps (g : cfg) : nat := Z.to_nat (depth_of (cf_side g) + 1).
Definition build (g : cfg) : st := state_at g (nsteps g).

(* ---------- which nodes feed which: the indexed product / mixtures ---------- *)
Definition inb (h n : Z) : bool := (0 <=? h) && (h <? n).

(* channel read by output channel o at kernel position j = 2a+b.  Depthwise: the same channel
   (groups = in_channels, weight = ones).  Otherwise weight[o,ci,a,b] = (ci == kernel_ids[o,a,b]) with
   kernel_ids = itertools.product(range(C), repeat=4) reshaped (out_c,1,2,2): base-C digits of o *)
Definition chan (dw : bool) (C o j : Z) : Z := if dw then o else (o / C ^ (3 - j)) mod C.

(* the 0/1 kernel buffer `weight` (non-depthwise): shape (C^4, C, 2, 2) *)
Definition kernel_w (C o ci a b : Z) : bool := ci =? chan false C o (a * 2 + b).

Definition zrange (n : Z) : list Z := map Z.of_nat (seq 0 (Z.to_nat n)).

Section Struct.
  (* an induced sub-circuit = one choice of input channel per sum node: layer id (number of layers
     below it), output channel, position *)
  Variable ch : nat -> Z -> Z -> Z -> Z.

  (* the base-layer outputs (channel, row, column) used by the sub-circuit rooted at (c,h,w) above ls;
     padding positions contribute nothing *)
  Fixpoint leaves (ls : list layer) (c h w : Z) : list (Z * Z * Z) :=
    match ls with
    | [] => [(c, h, w)]
    | L :: rest =>
      match lk L with
      | KSumL => leaves rest (ch (length rest) c h w) h w
      | KProdL pl pr s d dw =>
        flat_map (fun ab : Z * Z =>
                    let h' := h * s - pl + fst ab * d in
                    let w' := w * s - pl + snd ab * d in
                    if inb h' (l_ins L) && inb w' (l_ins L)
                    then leaves rest (chan dw (l_inc L) c (fst ab * 2 + snd ab)) h' w' else [])
                 [(0, 0); (0, 1); (1, 0); (1, 1)]
      end
    end.
End Struct.

(* how often pixel (x,y) occurs under position (h,w) — channel free *)
Fixpoint use2 (ls : list layer) (h w x y : Z) : Z :=
  match ls with
  | [] => if (x =? h) && (y =? w) then 1 else 0
  | L :: rest =>
    match lk L with
    | KSumL => use2 rest h w x y
    | KProdL pl pr s d dw =>
      let h0 := h * s - pl in let h1 := h0 + d in
      let w0 := w * s - pl in let w1 := w0 + d in
      let f := fun h' w' => if inb h' (l_ins L) && inb w' (l_ins L) then use2 rest h' w' x y else 0 in
      f h0 w0 + f h0 w1 + f h1 w0 + f h1 w1
    end
  end.

(* one axis *)
Fixpoint use1 (ls : list layer) (h x : Z) : Z :=
  match ls with
  | [] => if x =? h then 1 else 0
  | L :: rest =>
    match lk L with
    | KSumL => use1 rest h x
    | KProdL pl pr s d dw =>
      let h0 := h * s - pl in let h1 := h0 + d in
      (if inb h0 (l_ins L) then use1 rest h0 x else 0) + (if inb h1 (l_ins L) then use1 rest h1 x else 0)
    end
  end.

Definition count_px (x y : Z) (l : list (Z * Z * Z)) : Z :=
  fold_right (fun p acc => (if (snd (fst p) =? x) && (snd p =? y) then 1 else 0) + acc) 0 l.
Definition count_leaf (c x y : Z) (l : list (Z * Z * Z)) : Z :=
  fold_right (fun p acc => (if (fst (fst p) =? c) && (snd (fst p) =? x) && (snd p =? y) then 1 else 0) + acc) 0 l.

(* root layer: flattened index -> (c,h,w)  (torch.flatten of (C,S,S)) *)
Definition unravel (S idx : Z) : Z * Z * Z := (idx / (S * S), (idx / S) mod S, idx mod S).

(* ---------- evaluation over any number type (linear domain) ---------- *)
Section Eval.
  Variable T : Type.
  Variables (t0 t1 : T) (tadd tmul : T -> T -> T).
  Variable wt : nat -> Z -> Z -> Z -> Z -> T.   (* softmax weights: layer id, out chan, in chan, h, w *)
  Variable lf : Z -> Z -> Z -> T.                (* base layer output (exp of it): channel, h, w *)

  Fixpoint zsum (l : list T) : T := match l with [] => t0 | a :: r => tadd a (zsum r) end.

  Fixpoint eval (ls : list layer) (c h w : Z) : T :=
    match ls with
    | [] => lf c h w
    | L :: rest =>
      match lk L with
      | KSumL => zsum (map (fun ci => tmul (wt (length rest) c ci h w) (eval rest ci h w)) (zrange (l_inc L)))
      | KProdL pl pr s d dw =>
        let f := fun a b =>
                   let h' := h * s - pl + a * d in let w' := w * s - pl + b * d in
                   if inb h' (l_ins L) && inb w' (l_ins L)
                   then eval rest (chan dw (l_inc L) c (a * 2 + b)) h' w' else t1 in
        tmul (tmul (f 0 0) (f 0 1)) (tmul (f 1 0) (f 1 1))
      end
    end.

  Variable rw : Z -> Z -> T.                     (* root softmax weights: class, flat index *)
  Definition eval_root (ls : list layer) (C S k : Z) : T :=
    zsum (map (fun idx => match unravel S idx with (c, h, w) => tmul (rw k idx) (eval ls c h w) end)
              (zrange (C * S * S))).
End Eval.

(* DgcSpn.mpe: samples = torch.where(isnan(x), estimates, x) *)
Definition mpe_cell {A} (x : option A) (est : A) : A := match x with Some v => v | None => est end.
