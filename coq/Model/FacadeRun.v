(* Model/FacadeRun.v — runners of the C20 correspondence at Qc (engine E1). *)
From Coq Require Import List Arith ZArith QArith Qabs Qcanon Bool.
From DV Require Import Model.Core Model.Clt Model.Leaves Model.Check Model.QcInst Model.Run
  Model.Mpe Model.MpeRun Model.Facade.
Import ListNotations.
Local Open Scope nat_scope.

Definition qproba (t : qtable) (nf : nat) (X : list row) : option (arr2 Qc) :=
  predict_proba Qc 0%Qc 1%Qc Qcplus Qcmult Qcinv qleaf qleaf_val t nf X.
Definition qproba_pinned (t : qtable) (nf : nat) (X : list row) : option (arr2 Qc) :=
  predict_proba_pinned Qc 0%Qc 1%Qc Qcplus Qcmult Qcinv qleaf qleaf_val t nf X.
Definition qpredict (s : Qc -> Qc -> bool) (t : qtable) (nf : nat) (X : list row) : list (option Z) :=
  predict Qc 0%Qc 1%Qc Qcplus Qcmult s qleaf qleaf_val (qfill s) t nf X.
Definition qmpe_at (s : Qc -> Qc -> bool) (t : qtable) (i : nat) (r : row) : row :=
  mpe_at Qc 0%Qc 1%Qc Qcplus Qcmult s qleaf qleaf_val (qfill s) t i r.
Definition qlists (a : arr2 Qc) : list (list Qc) := to_lists Qc a.

(* probabilities: |impl - model| <= 5e-4 |model| + 1e-6 *)
Definition closep := close (5 # 10000) (1 # 1000000).
Fixpoint all_close (a b : list Qc) : bool :=
  match a, b with
  | [], [] => true
  | x :: a', y :: b' => closep x y && all_close a' b'
  | _, _ => false
  end.
Definition oz_eqb (a b : option Z) : bool :=
  match a, b with Some x, Some y => Z.eqb x y | None, None => true | _, _ => false end.

Record fcase := {
  fc_t : qtable;
  fc_doms : list (nat * list Z);
  fc_cont : list nat;
  fc_nf : nat;                      (* number of features = id of the label variable *)
  fc_cls : list Z;                  (* class label of the c-th child of the root *)
  fc_X : list row;                  (* query batch *)
  fc_P : list (list Qc);            (* implementation: predict_proba *)
  fc_pred : list Z }.               (* implementation: predict *)

Definition root_okb (c : fcase) : bool :=
  let t := fc_t c in
  match nkind (root_node Qc qleaf t) with
  | KSum ws =>
      let ks := class_ids Qc qleaf t in
      Nat.eqb (length ws) (length ks) && Nat.eqb (length ks) (length (fc_cls c)) &&
      negb (Nat.eqb (length ks) 0) && forallb (fun k => Nat.ltb k (length t - 1)) ks
  | _ => false
  end.

(* header [validity certificate 64; classifier root 128; shape 8] then one code per query row:
   1 a probability differs, 2 model row does not sum to exactly one, 4 predicted class differs,
   16 numerical near-tie in the descent (skipped), 32 evidence of probability zero (skipped),
   256 some class branch does not complete the label with its own class *)
Definition run_fcase (c : fcase) : list Z :=
  let t := fc_t c in let nf := fc_nf c in let X := fc_X c in
  let ks := class_ids Qc qleaf t in
  let pa := qproba t nf X in
  let P := match pa with Some a => qlists a | None => [] end in
  let p1 := qpredict sel_first t nf X in
  let p2 := qpredict sel_hi t nf X in
  let p3 := qpredict sel_lo t nf X in
  (if qvalid_c (fc_doms c) (fc_cont c) t then 0 else 64)%Z ::
  (if root_okb c then 0 else 128)%Z ::
  (match pa with
   | None => 8
   | Some a => if Nat.eqb (nr a) (length X) && Nat.eqb (nc a) (length (fc_cls c)) &&
                  Nat.eqb (length (fc_P c)) (nr a) &&
                  forallb (fun rw => Nat.eqb (length rw) (nc a)) (fc_P c) then 0 else 8
   end)%Z ::
  map (fun i =>
         let d := with_label nf None (nth i X row_none) in
         if Qc_eq_bool (qroot t d) 0%Qc then 32%Z else
         let m := nth i P [] in
         ((if all_close (nth i (fc_P c) []) m then 0 else 1) +
          (if Qc_eq_bool (qsum m) 1%Qc then 0 else 2) +
          (if oz_eqb (nth i p1 None) (nth i p2 None) && oz_eqb (nth i p1 None) (nth i p3 None)
           then (if oz_eqb (nth i p1 None) (Some (nth i (fc_pred c) (-1)%Z)) then 0 else 4) else 16) +
          (if forallb (fun k => oz_eqb (qmpe_at sel_first t (nth k ks 0%nat) d nf) (Some (nth k (fc_cls c) (-1)%Z)))
                      (seq 0%nat (length ks)) then 0 else 256))%Z)
      (seq 0 (length X)).

(* SPNEstimator: predict_log_proba (exponentiated) and mpe against the wrapped circuit *)
Record ecase := {
  ec_t : qtable;
  ec_doms : list (nat * list Z);
  ec_w : nat;
  ec_rows : list (row * (Qc * list (option Z))) }.
(* header [validity 64] then per row: 1 likelihood differs, 2 completion differs, 16 near-tie, 32 zero evidence *)
Definition run_ecase (c : ecase) : list Z :=
  let t := ec_t c in
  (if qvalid_b (ec_doms c) t then 0 else 64)%Z ::
  map (fun rw =>
         let r := fst rw in
         let m := qroot t r in
         if Qc_eq_bool m 0%Qc then 32%Z else
         ((if closep (fst (snd rw)) m then 0 else 1) +
          match cmp_row (fun s => qmpe s t) (ec_w c) (r, snd (snd rw)) with
          | 0 => 0 | 16 => 16 | _ => 2 end)%Z) (ec_rows c).
