(* Model/Cnet.v — binary cutset networks (deeprob/spn/structure/cnet.py, learning/cnet_bayesian.py),
   executable definitions only.

   ornode            an OR-tree: a leaf carries the Chow-Liu tree fitted on its partition
                     (ORNode.clt), an inner node the cut variable (or_id), the two branch weights
                     and the two children; every node carries its scope (list of variable ids in
                     column order, as `node.scope` in the code).
   cnet_sem/cnet_val the OR-tree semantics on a row given as a function of the variable id
                     (branch weight selected by the value of the cut variable, CLT at the leaf;
                     a missing cut variable is summed out).
   cnet_pos          what BinaryCNet.log_likelihood computes for ONE row of the batch: the cut
                     column is found by POSITION (`node.scope.index(node.or_id)`), the column is
                     deleted by position (`np.delete(col_indices, node_idx)`), the leaf CLT is the
                     vectorised gather of BinaryCLT.log_likelihood on the remaining columns.
   bfs / cnet_batch  the iterative evaluation of BinaryCNet.log_likelihood on a whole batch:
                     FIFO queue of (node, row_indices, col_indices), accumulator `log_likes`
                     (here in the linear domain: += log w  becomes  *= w).
   grow / fit_self   the skeleton of BinaryCNet.fit / learn_cnet_bd / learn_cnet_bic with the
                     variable choice, the stopping decision, the weights' numerators and the CLT
                     learner as oracles, and the final copy of the temporary root's attributes.
   wf_cnetb          the boolean certificate evaluated on every learned object. *)
From Coq Require Import List Arith ZArith Bool.
From DV Require Import Model.Core Model.Clt Model.Check.
Import ListNotations.

(* list.index(v) (length of the list when absent: the code raises) and np.delete / del l[i] *)
Fixpoint index_of (v : nat) (l : list nat) : nat :=
  match l with [] => 0 | x :: tl => if Nat.eqb x v then 0 else S (index_of v tl) end.
Fixpoint remove_at {A : Type} (i : nat) (l : list A) {struct l} : list A :=
  match l, i with
  | [], _ => []
  | _ :: tl, O => tl
  | x :: tl, S j => x :: remove_at j tl
  end.

(* the row function of a positional row: variable sc[k] has value xs[k] *)
Fixpoint row_of (sc : list nat) (xs : list Z) (u : nat) : option Z :=
  match sc, xs with
  | a :: sc', x :: xs' => if Nat.eqb a u then Some x else row_of sc' xs' u
  | _, _ => None
  end.

Definition matrix := list (list Z).
Definition mcell (X : matrix) (i j : nat) : Z := nth j (nth i X []) 0%Z.
(* x[i][col_indices] *)
Definition prow (X : matrix) (cis : list nat) (i : nat) : list Z := map (mcell X i) cis.
Definition opt_is (o : option Z) (z : Z) : bool := match o with Some x => Z.eqb x z | None => false end.

Section Cnet.
  Variable T : Type.
  Variables (t0 t1 : T) (tadd tmul : T -> T -> T).
  Infix "+" := tadd. Infix "*" := tmul.
  Notation clt := (clt T).
  Notation prodT := (prodT T t1 tmul).

  Inductive ornode :=
  | OLeaf (sc : list nat) (c : clt)
  | OCut (sc : list nat) (v : nat) (w0 w1 : T) (l r : ornode).

  Definition osc (n : ornode) : list nat :=
    match n with OLeaf sc _ => sc | OCut sc _ _ _ _ _ => sc end.
  Fixpoint osize (n : ornode) : nat :=
    match n with OLeaf _ _ => 1 | OCut _ _ _ _ l r => S (osize l + osize r) end.

  (* ---------- OR-tree semantics (generic in the leaf evaluator) ---------- *)
  Section Sem.
    Variable lv : clt -> row -> T.
    Fixpoint cnet_sem (n : ornode) (r : row) : T :=
      match n with
      | OLeaf _ c => lv c r
      | OCut _ v w0 w1 l rr =>
          match r v with
          | Some x => if Z.eqb x 0 then w0 * cnet_sem l r
                      else if Z.eqb x 1 then w1 * cnet_sem rr r else t0
          | None => w0 * cnet_sem l r + w1 * cnet_sem rr r
          end
      end.
  End Sem.
  (* leaves by message passing (marginalises missing cells) / by the full-evidence gather *)
  Definition cnet_val : ornode -> row -> T := cnet_sem (clt_val T t0 t1 tadd tmul).
  Definition cnet_gat : ornode -> row -> T := cnet_sem (clt_gather T t0 t1 tmul).

  (* ---------- BinaryCNet.log_likelihood, one row, by position ---------- *)
  (* BinaryCLT.log_likelihood on a complete partition row: prod_i params[i, x[tree[i]], x[i]];
     tree[root] = -1 reads the LAST column *)
  Definition clt_pos (c : clt) (xs : list Z) : T :=
    let n := length (cpar c) in
    let at_ := fun i => nth i xs 0%Z in
    prodT (map (fun i =>
      let pv := match nth i (cpar c) None with Some p => at_ p | None => at_ (n - 1) end in
      cpt_fn T t0 c i pv (at_ i)) (seq 0 n)).

  Fixpoint cnet_pos (n : ornode) (xs : list Z) : T :=
    match n with
    | OLeaf _ c => clt_pos c xs
    | OCut sc v w0 w1 l r =>
        let idx := index_of v sc in
        match nth_error xs idx with
        | Some x => if Z.eqb x 0 then w0 * cnet_pos l (remove_at idx xs)
                    else if Z.eqb x 1 then w1 * cnet_pos r (remove_at idx xs)
                    else t1     (* the row is routed to neither child: nothing more is added *)
        | None => t1
        end
    end.

  (* ---------- BinaryCNet.log_likelihood, whole batch, FIFO queue ---------- *)
  Definition item := (ornode * (list nat * list nat))%type.
  (* log_likes[ris] += f   (linear domain: *=) *)
  Definition mul_at (acc : nat -> T) (ris : list nat) (f : nat -> T) : nat -> T :=
    fun j => if memb j ris then acc j * f j else acc j.

  Fixpoint bfs (fuel : nat) (X : matrix) (q : list item) (acc : nat -> T) : nat -> T :=
    match fuel with
    | O => acc
    | S f =>
        match q with
        | [] => acc
        | (OLeaf _ c, (ris, cis)) :: q' =>
            bfs f X q' (mul_at acc ris (fun i => clt_pos c (prow X cis i)))
        | (OCut sc v w0 w1 l r, (ris, cis)) :: q' =>
            let idx := index_of v sc in
            let lris := filter (fun i => opt_is (nth_error (prow X cis i) idx) 0%Z) ris in
            let rris := filter (fun i => opt_is (nth_error (prow X cis i) idx) 1%Z) ris in
            let acc1 := mul_at acc lris (fun _ => w0) in
            let acc2 := mul_at acc1 rris (fun _ => w1) in
            let cis' := remove_at idx cis in
            bfs f X (q' ++ [(l, (lris, cis')); (r, (rris, cis'))]) acc2
        end
    end.

  Definition cnet_batch (c : ornode) (X : matrix) (width : nat) : list T :=
    map (bfs (osize c) X [(c, (seq 0 (length X), seq 0 width))] (fun _ => t1)) (seq 0 (length X)).

  (* ---------- learner skeleton ---------- *)
  Section Grow.
    (* oracles: all of them see the node's scope and its row / column index partitions *)
    Variable choose : list nat -> list nat -> list nat -> option nat.  (* Some idx = cut at position idx; None = stop *)
    Variable weight0 : list nat -> list nat -> T.                      (* left rows, all rows -> left weight *)
    Variable tsub : T -> T -> T.
    Variable fitclt : list nat -> list nat -> list nat -> clt.         (* scope, rows, columns -> fitted CLT *)
    Variable X : matrix.

    Fixpoint grow (fuel : nat) (sc ris cis : list nat) : ornode :=
      match fuel with
      | O => OLeaf sc (fitclt sc ris cis)
      | S f =>
          match choose sc ris cis with
          | None => OLeaf sc (fitclt sc ris cis)
          | Some idx =>
              if Nat.leb (length sc) 1 || negb (Nat.ltb idx (length sc)) then OLeaf sc (fitclt sc ris cis)
              else
                let lris := filter (fun i => Z.eqb (mcell X i (nth idx cis 0)) 0%Z) ris in
                let rris := filter (fun i => Z.eqb (mcell X i (nth idx cis 0)) 1%Z) ris in
                let w0 := weight0 lris ris in
                OCut sc (nth idx sc 0) w0 (tsub t1 w0)
                     (grow f (remove_at idx sc) lris (remove_at idx cis))
                     (grow f (remove_at idx sc) rris (remove_at idx cis))
          end
      end.
  End Grow.

  (* BinaryCNet.fit builds a temporary `root` and then copies its attributes into `self`;
     log_likelihood reads `self`: a leaf iff `clt` is set, otherwise or_id / weights / children *)
  Definition get_or_id (n : ornode) : option nat := match n with OCut _ v _ _ _ _ => Some v | _ => None end.
  Definition get_children (n : ornode) : option (ornode * ornode) :=
    match n with OCut _ _ _ _ l r => Some (l, r) | _ => None end.
  Definition get_weights (n : ornode) : option (T * T) :=
    match n with OCut _ _ w0 w1 _ _ => Some (w0, w1) | _ => None end.
  Definition get_clt (n : ornode) : option clt := match n with OLeaf _ c => Some c | _ => None end.
  (* None = an object that log_likelihood cannot evaluate (it raises) *)
  Definition assemble (sc : list nat) (oid : option nat) (ch : option (ornode * ornode))
             (ws : option (T * T)) (c : option clt) : option ornode :=
    match c with
    | Some c => Some (OLeaf sc c)
    | None => match oid, ch, ws with
              | Some v, Some (l, r), Some (w0, w1) => Some (OCut sc v w0 w1 l r)
              | _, _, _ => None
              end
    end.
  Definition fit_self (root : ornode) : option ornode :=
    assemble (osc root) (get_or_id root) (get_children root) (get_weights root) (get_clt root).

  (* ---------- certificate ---------- *)
  Definition par_okb (n : nat) (p : option nat) : bool :=
    match p with Some j => Nat.ltb j n | None => true end.
  Definition leaf_wfb (sc : list nat) (c : clt) : bool :=
    let vs := vars T (clt_tree T t0 c) in
    natlist_eqb (cscope c) sc && nodupb sc && Nat.ltb 0 (length sc) &&
    Nat.eqb (length (cpar c)) (length sc) && forallb (par_okb (length sc)) (cpar c) &&
    nodupb vs && subsetb vs sc && subsetb sc vs.
  Fixpoint wf_cnetb (n : ornode) : bool :=
    match n with
    | OLeaf sc c => leaf_wfb sc c
    | OCut sc v w0 w1 l r =>
        nodupb sc && memb v sc &&
        natlist_eqb (osc l) (remove_at (index_of v sc) sc) &&
        natlist_eqb (osc r) (remove_at (index_of v sc) sc) &&
        wf_cnetb l && wf_cnetb r
    end.
  (* exactly normalised parameters *)
  Variable teqb : T -> T -> bool.
  Fixpoint norm_cnetb (n : ornode) : bool :=
    match n with
    | OLeaf _ c => rows_normb T t1 tadd teqb (clt_tree T t0 c)
    | OCut _ _ w0 w1 l r => teqb (w0 + w1) t1 && norm_cnetb l && norm_cnetb r
    end.
  (* the root of every leaf CLT has no predecessor and its two CPT rows coincide
     (params[root, 0, :] = params[root, 1, :]): with wf_cnetb this makes the full-evidence gather
     equal to message passing (Proofs/CltGather.v) *)
  Definition leaf_rootb (c : clt) : bool :=
    match nth (croot T c) (cpar c) None with None => true | Some _ => false end &&
    teqb (cpt_fn T t0 c (croot T c) 1%Z 0%Z) (cpt_fn T t0 c (croot T c) 0%Z 0%Z) &&
    teqb (cpt_fn T t0 c (croot T c) 1%Z 1%Z) (cpt_fn T t0 c (croot T c) 0%Z 1%Z).
  Fixpoint groot_okb (n : ornode) : bool :=
    match n with
    | OLeaf _ c => leaf_rootb c
    | OCut _ _ _ _ l r => groot_okb l && groot_okb r
    end.
End Cnet.
Arguments OLeaf {T}. Arguments OCut {T}.
