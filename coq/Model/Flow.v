(* Model/Flow.v — executable model of the normalizing-flow bijectors of deeprob-kit (C15).
   Definitions only.  Part (a): combinatorics of masks, orderings and index maps (nat / bool).
   Part (b): the layer formulas over an arbitrary number type T with operations passed as
   section variables (texp / tln / tsqrt are *parameters*: R instantiates them with exp/ln/sqrt,
   the Qc runner with oracle tables), conditioners are arbitrary functions. *)
From Coq Require Import List Arith Bool.
Import ListNotations.

(* ================= (a) masks, orderings, index maps ================= *)

(* deeprob/flows/layers/autoregressive.py  AutoregressiveLayer.build_degrees_sequential *)
Definition degrees_seq (D depth units : nat) (reverse : bool) : list (list nat) :=
  (if reverse then rev (seq 0 D) else seq 0 D) ::
  repeat (map (fun k => k mod (D - 1)) (seq 0 units)) depth.

(* np.less_equal(d1[None, :], d2[:, None]) : rows indexed by d2 (outputs), columns by d1 (inputs) *)
Definition mask_le (d1 d2 : list nat) : list (list bool) := map (fun r => map (fun c => c <=? r) d1) d2.
Definition mask_lt (d1 d2 : list nat) : list (list bool) := map (fun r => map (fun c => c <? r) d1) d2.

(* AutoregressiveLayer.build_masks *)
Fixpoint hidden_masks (d : list nat) (rest : list (list nat)) : list (list (list bool)) :=
  match rest with [] => [] | d2 :: tl => mask_le d d2 :: hidden_masks d2 tl end.
Definition build_masks (degs : list (list nat)) : list (list (list bool)) :=
  match degs with
  | [] => []
  | d0 :: rest => hidden_masks d0 rest ++ [mask_lt (last rest d0) d0]
  end.
(* np.tile(masks[-1], reps=(2, 1)) *)
Definition tile2 {A} (M : list A) : list A := M ++ M.
Fixpoint tile_last (Ms : list (list (list bool))) : list (list (list bool)) :=
  match Ms with [] => [] | [M] => [tile2 M] | M :: tl => M :: tile_last tl end.

(* boolean matrices as lists of rows; connectivity = product of the masks *)
Definition mget (M : list (list bool)) (r c : nat) : bool := nth c (nth r M []) false.
Definition bmul (A B : list (list bool)) (nin ncols : nat) : list (list bool) :=
  map (fun ra => map (fun c => existsb (fun h => nth h ra false && mget B h c) (seq 0 nin)) (seq 0 ncols)) A.
Definition ident (n : nat) : list (list bool) := map (fun r => map (fun c => r =? c) (seq 0 n)) (seq 0 n).
(* masks listed from the input side; each mask has `length P` (= previous width) columns *)
Fixpoint conn_from (P : list (list bool)) (Ms : list (list (list bool))) (ncols : nat) : list (list bool) :=
  match Ms with [] => P | M :: tl => conn_from (bmul M P (length P) ncols) tl ncols end.
Definition conn (n : nat) (Ms : list (list (list bool))) : list (list bool) := conn_from (ident n) Ms n.

(* certificate: every connected (output row r, input j) pair has ord j < ord (r mod n) *)
Definition autoreg_ok (n : nat) (ord : list nat) (C : list (list bool)) : bool :=
  forallb (fun r => forallb (fun j => implb (mget C r j) (nth j ord 0 <? nth (r mod n) ord 0)) (seq 0 n))
          (seq 0 (length C)).

(* self.inv_ordering = np.argsort(self.ordering): position of each degree value *)
Fixpoint index_of (k : nat) (l : list nat) : nat :=
  match l with [] => 0 | x :: tl => if x =? k then 0 else S (index_of k tl) end.
Definition inv_ordering (ord : list nat) : list nat := map (fun k => index_of k ord) (seq 0 (length ord)).
Definition is_perm_b (ord : list nat) : bool :=
  forallb (fun k => existsb (fun x => x =? k) ord) (seq 0 (length ord)).

(* coupling.py  CouplingLayer1d.build_alternating_masks (+ reverse swap): (mask, inv_mask) *)
Definition alt_mask (D : nat) (reverse : bool) : list bool :=
  map (fun i => xorb (i mod 2 =? 1) reverse) (seq 0 D).
(* CouplingLayer2d.build_checkerboard_masks, flattened [1,H,W] *)
Definition checker_mask (H W : nat) (reverse : bool) : list bool :=
  flat_map (fun h => map (fun w => xorb ((h + w) mod 2 =? 1) reverse) (seq 0 W)) (seq 0 H).

(* index triples (channel, row, column) *)
Definition idx3 := (nat * nat * nat)%type.
Definition flat3 (H W : nat) (p : idx3) : nat := let '(c, h, w) := p in (c * H + h) * W + w.

(* flows/utils.py squeeze_depth2d: output position -> input position it copies *)
Definition sq_src (o : idx3) : idx3 := let '(oc, oh, ow) := o in (oc / 4, 2 * oh + (oc mod 4) / 2, 2 * ow + oc mod 2).
(* unsqueeze_depth2d: output position -> input position it copies *)
Definition unsq_src (o : idx3) : idx3 := let '(oc, oh, ow) := o in (4 * oc + 2 * (oh mod 2) + ow mod 2, oh / 2, ow / 2).

(* realnvp.py build_permutation_matrix used by F.conv2d(stride 2): output channel k*C+i copies
   input channel i at in-patch offset ordering[k]: 0:(0,0) 1:(1,1) 2:(0,1) 3:(1,0) *)
Definition off_h (k : nat) : nat := match k with 1 => 1 | 3 => 1 | _ => 0 end.
Definition off_w (k : nat) : nat := match k with 1 => 1 | 2 => 1 | _ => 0 end.
Definition off_code (dh dw : nat) : nat := match dh, dw with 0, 0 => 0 | 0, _ => 2 | _, 0 => 3 | _, _ => 1 end.
(* structured output index ((k, i), oh, ow)  *)
Definition perm_src (o : nat * nat * nat * nat) : idx3 :=
  let '(k, i, oh, ow) := o in (i, 2 * oh + off_h k, 2 * ow + off_w k).
Definition perm_dst (p : idx3) : nat * nat * nat * nat :=
  let '(c, h, w) := p in (off_code (h mod 2) (w mod 2), c, h / 2, w / 2).

(* the index lists compared with the implementation run on an arange tensor *)
Definition grid3 (C H W : nat) (f : idx3 -> nat) : list nat :=
  flat_map (fun c => flat_map (fun h => map (fun w => f (c, h, w)) (seq 0 W)) (seq 0 H)) (seq 0 C).
(* squeeze of a [C,H,W] tensor: output [4C,H/2,W/2] *)
Definition squeeze_list (C H W : nat) : list nat := grid3 (4 * C) (H / 2) (W / 2) (fun o => flat3 H W (sq_src o)).
(* unsqueeze of a [C,H,W] tensor: output [C/4,2H,2W] *)
Definition unsqueeze_list (C H W : nat) : list nat := grid3 (C / 4) (2 * H) (2 * W) (fun o => flat3 H W (unsq_src o)).
(* conv2d with the permutation matrix on [C,H,W]: output [4C,H/2,W/2] *)
Definition permconv_list (C H W : nat) : list nat :=
  grid3 (4 * C) (H / 2) (W / 2) (fun o => let '(oc, oh, ow) := o in flat3 H W (perm_src (oc / C, oc mod C, oh, ow))).
(* conv_transpose2d with the same matrix on [4C,H,W]: output [C,2H,2W] *)
Definition permconvT_list (C H W : nat) : list nat :=
  grid3 C (2 * H) (2 * W) (fun p => let '(k, i, oh, ow) := perm_dst p in flat3 H W (k * C + i, oh, ow)).

(* ================= (b) layer formulas, generic number type ================= *)
Section Alg.
  Variable T : Type.
  Variables (t0 t1 : T) (tadd tmul tsub : T -> T -> T) (topp : T -> T) (tdiv : T -> T -> T).
  Variables (texp tln tsqrt : T -> T).
  Notation "a + b" := (tadd a b). Notation "a * b" := (tmul a b). Notation "a - b" := (tsub a b).
  Notation "- a" := (topp a). Notation "a / b" := (tdiv a b).
  Notation "x @ i" := (nth i x t0) (at level 9, i at next level).

  (* vectors are lists; every vector operation is "tabulate a function of the index" *)
  Definition vec (n : nat) (f : nat -> T) : list T := map f (seq 0 n).
  Definition vsum (l : list T) : T := fold_right tadd t0 l.
  Fixpoint upd (l : list T) (i : nat) (v : T) : list T :=
    match l, i with [] , _ => [] | _ :: tl, 0 => v :: tl | x :: tl, S j => x :: upd tl j v end.
  Definition b2t (b : bool) : T := if b then t1 else t0.
  Fixpoint ofnat (n : nat) : T := match n with 0 => t0 | S m => t1 + ofnat m end.
  Definition two : T := t1 + t1.

  (* ---- deeprob/torch/utils.py MaskedLinear.forward: F.linear(x, mask * weight, bias) ---- *)
  Record mlayer := { l_in : nat; l_mask : list (list bool); l_w : list (list T); l_b : list T; l_act : T -> T }.
  Definition mlin (L : mlayer) (x : list T) : list T :=
    vec (length (l_mask L)) (fun r =>
      l_act L ((l_b L)@r + vsum (vec (l_in L) (fun h => (b2t (mget (l_mask L) r h) * nth h (nth r (l_w L) []) t0) * x@h)))).
  Definition mlp (Ls : list mlayer) (x : list T) : list T := fold_left (fun h L => mlin L h) Ls x.

  (* a conditioner returns (t, s) *)
  Definition condT := list T -> list T * list T.

  (* ---- coupling.py CouplingLayer1d / CouplingLayer2d (checkerboard), masked form.
     mask, imask are the two registered buffers (as numbers). ---- *)
  Definition coupling_in (n : nat) (mask x : list T) : list T := vec n (fun i => mask@i * x@i).
  Definition coupling_bwd (affine : bool) (n : nat) (mask imask : list T) (cond : condT) (x : list T) : list T * T :=
    let '(t, s) := cond (coupling_in n mask x) in
    if affine then
      (vec n (fun i => (x@i - imask@i * t@i) * texp (- (imask@i * s@i))), - vsum (vec n (fun i => imask@i * s@i)))
    else (vec n (fun i => x@i - imask@i * t@i), t0).
  Definition coupling_fwd (affine : bool) (n : nat) (mask imask : list T) (cond : condT) (u : list T) : list T * T :=
    let '(t, s) := cond (coupling_in n mask u) in
    if affine then
      (vec n (fun i => u@i * texp (imask@i * s@i) + imask@i * t@i), vsum (vec n (fun i => imask@i * s@i)))
    else (vec n (fun i => u@i + imask@i * t@i), t0).

  (* ---- CouplingLayer2d channel-wise: the tensor is chunked in two halves of m entries;
     reverse=false: (my, mx) = chunk(x), reverse=true: (mx, my) = chunk(x); mx conditions, my moves ---- *)
  Definition lo (m : nat) (x : list T) : list T := vec m (fun i => x@i).
  Definition hi (m : nat) (x : list T) : list T := vec m (fun i => x@(m + i)).
  Definition chan_in (reverse : bool) (m : nat) (x : list T) : list T := if reverse then lo m x else hi m x.
  Definition chan_bwd (affine reverse : bool) (m : nat) (cond : condT) (x : list T) : list T * T :=
    let mx := chan_in reverse m x in
    let my := if reverse then hi m x else lo m x in
    let '(t, s) := cond mx in
    let my' := if affine then vec m (fun i => (my@i - t@i) * texp (- s@i)) else vec m (fun i => my@i - t@i) in
    (if reverse then mx ++ my' else my' ++ mx, if affine then - vsum (vec m (fun i => s@i)) else t0).
  Definition chan_fwd (affine reverse : bool) (m : nat) (cond : condT) (u : list T) : list T * T :=
    let mu := chan_in reverse m u in
    let mv := if reverse then hi m u else lo m u in
    let '(t, s) := cond mu in
    let mv' := if affine then vec m (fun i => mv@i * texp s@i + t@i) else vec m (fun i => mv@i + t@i) in
    (if reverse then mu ++ mv' else mv' ++ mu, if affine then vsum (vec m (fun i => s@i)) else t0).

  (* ---- autoregressive.py AutoregressiveLayer ---- *)
  Definition ar_bwd (n : nat) (cond : condT) (x : list T) : list T * T :=
    let '(t, s) := cond x in
    (vec n (fun i => (x@i - t@i) * texp (- s@i)), - vsum (vec n (fun i => s@i))).
  (* apply_forward: `for i in self.inv_ordering`; the conditioner is re-evaluated at every step
     on the partially filled x (condk receives the step number, so that the runner can replay the
     implementation's own conditioner answers; the theorems use condk := fun _ => cond) *)
  Fixpoint ar_loop (condk : nat -> condT) (u : list T) (k : nat) (order : list nat) (st : list T * list T) : list T * list T :=
    match order with
    | [] => st
    | i :: tl =>
        let '(x, ld) := st in
        let '(t, s) := condk k x in
        ar_loop condk u (S k) tl (upd x i (u@i * texp s@i + t@i), upd ld i s@i)
    end.
  Definition ar_fwd_k (n : nat) (condk : nat -> condT) (order : list nat) (u : list T) : list T * T :=
    let '(x, ld) := ar_loop condk u 0 order (vec n (fun _ => t0), vec n (fun _ => t0)) in (x, vsum ld).
  Definition ar_fwd (n : nat) (cond : condT) (order : list nat) (u : list T) : list T * T :=
    ar_fwd_k n (fun _ => cond) order u.

  (* the conditioner of AutoregressiveLayer: z = network(x); t, s = chunk(z, 2); s = scale_act(s);
     sact i stands for the elementwise scale activation (ScaledTanh: weight * tanh) *)
  Definition ar_cond (n : nat) (Ls : list mlayer) (sact : nat -> T -> T) : condT :=
    fun x => let z := mlp Ls x in (vec n (fun i => z@i), vec n (fun i => sact i z@(n + i))).

  (* ---- flows/utils.py BatchNormLayer1d / 2d in evaluation mode (2d: parameters repeated over
     the H*W grid by the caller, which yields the `* grid_size` of the code) ---- *)
  Definition bn_bwd (n : nat) (eps : T) (w b rvar rmean : list T) (x : list T) : list T * T :=
    (vec n (fun i => ((x@i - rmean@i) / tsqrt (rvar@i + eps)) * texp w@i + b@i),
     vsum (vec n (fun i => w@i - (t1 / two) * tln (rvar@i + eps)))).
  Definition bn_fwd (n : nat) (eps : T) (w b rvar rmean : list T) (u : list T) : list T * T :=
    (vec n (fun i => ((u@i - b@i) * texp (- w@i)) * tsqrt (rvar@i + eps) + rmean@i),
     vsum (vec n (fun i => - w@i + (t1 / two) * tln (rvar@i + eps)))).

  (* ---- LogitLayer; ldjc is the registered constant -dims*log(1-2 alpha) ---- *)
  Definition logit_x' (alpha x : T) : T := alpha + (t1 - two * alpha) * x.
  Definition logit_bwd1 (alpha x : T) : T := tln (logit_x' alpha x) - tln (t1 - logit_x' alpha x).
  Definition logit_v1 (alpha x : T) : T := tln (logit_x' alpha x) + tln (t1 - logit_x' alpha x).
  Definition logit_ldjc (n : nat) (alpha : T) : T := - (ofnat n * tln (t1 - two * alpha)).
  Definition logit_bwd (n : nat) (alpha ldjc : T) (x : list T) : list T * T :=
    (vec n (fun i => logit_bwd1 alpha x@i), - (vsum (vec n (fun i => logit_v1 alpha x@i)) + ldjc)).
  Definition sigmoid (u : T) : T := t1 / (t1 + texp (- u)).
  Definition logit_fwd1 (alpha u : T) : T := (sigmoid u - alpha) / (t1 - two * alpha).
  Definition logit_w1 (u : T) : T := tln (sigmoid u) + tln (t1 - sigmoid u).
  Definition logit_fwd (n : nat) (alpha ldjc : T) (u : list T) : list T * T :=
    (vec n (fun i => logit_fwd1 alpha u@i), vsum (vec n (fun i => logit_w1 u@i)) + ldjc).
  (* per-coordinate log-derivatives claimed by the layer *)
  Definition logit_ildj1 (alpha x : T) : T := - (logit_v1 alpha x + - tln (t1 - two * alpha)).
  Definition logit_ldj1 (alpha u : T) : T := logit_w1 u + - tln (t1 - two * alpha).

  (* ---- models/base.py: layer composition with accumulated log-determinants ---- *)
  Record bij (X : Type) := { b_bwd : X -> X * T; b_fwd : X -> X * T }.
  Arguments b_bwd {X}. Arguments b_fwd {X}.
  (* NormalizingFlow.apply_backward: for layer in self.layers *)
  Fixpoint flow_bwd {X} (bs : list (bij X)) (x : X) : X * T :=
    match bs with
    | [] => (x, t0)
    | b :: tl => let '(y, l1) := b_bwd b x in let '(u, l2) := flow_bwd tl y in (u, l1 + l2)
    end.
  (* NormalizingFlow.apply_forward: for layer in reversed(self.layers) *)
  Fixpoint flow_fwd {X} (bs : list (bij X)) (u : X) : X * T :=
    match bs with
    | [] => (u, t0)
    | b :: tl => let '(y, l2) := flow_fwd tl u in let '(x, l1) := b_fwd b y in (x, l2 + l1)
    end.
  (* realnvp.py RealNVP2d.apply_backward / apply_forward: multi-scale wiring.  Each level is
     (block, down, up) with down = conv2d(perm, stride 2), up = conv_transpose2d(perm, stride 2);
     split / cat are torch.chunk(2, dim=1) / torch.cat(dim=1). *)
  Section MS.
    Variable X : Type.
    Variable split : X -> X * X.
    Variable cat : X * X -> X.
    Definition level := (bij X * (X -> X) * (X -> X))%type.
    Fixpoint ms_bwd (lv : list level) (last : bij X) (x : X) : X * T :=
      match lv with
      | [] => b_bwd last x
      | (b, down, up) :: tl =>
          let '(y, l1) := b_bwd b x in
          let '(a, z) := split (down y) in
          let '(r, l2) := ms_bwd tl last a in
          (up (cat (r, z)), l1 + l2)
      end.
    Fixpoint ms_fwd (lv : list level) (last : bij X) (u : X) : X * T :=
      match lv with
      | [] => b_fwd last u
      | (b, down, up) :: tl =>
          let '(a', z) := split (down u) in
          let '(a, l2) := ms_fwd tl last a' in
          let '(x, l1) := b_fwd b (up (cat (a, z))) in
          (x, l2 + l1)
      end.
  End MS.

  (* NormalizingFlow.forward with the default standard-normal base: prior + ildj;
     hl2pi = 0.5*log(2*pi) *)
  Definition std_normal_logpdf (hl2pi : T) (n : nat) (u : list T) : T :=
    vsum (vec n (fun i => - ((u@i * u@i) / two) - hl2pi)).
  Definition log_prob (hl2pi : T) (n : nat) (u : list T) (ildj : T) : T := std_normal_logpdf hl2pi n u + ildj.
End Alg.
