(* Pinned/SamplePinned.v — the Chow-Liu sampler of the PINNED tree (before fix a9cfb82 in /repo):
     p1 = exp(params[j, x_pa, 1] + messages[j, x_pa])     (root: params[root, 0, 1] + messages[root, 1])
   i.e. the unnormalised product cpt_j[x_pa][1] * msg_j[x_pa] with the message indexed by the PARENT's
   value, used directly as the Bernoulli parameter.  Refuted on the chain 0 -> 1 with evidence on the
   child: the pinned law gives P(X0 = 1 | X1 = 1) = 2/5, the exact conditional is 8/9. *)
From Coq Require Import List Arith ZArith QArith Qcanon Bool.
From DV Require Import Model.Core Model.Clt Model.Leaves Model.Mpe Model.Sample Model.QcInst Model.SampleRun.
Import ListNotations.

Fixpoint cmeas_pinned (isroot : bool) (t : ctree Qc) (pv : Z) (r : row) : meas Qc :=
  match t with
  | CT v cpt kids =>
      let msg := fun k => prodT Qc 1%Qc Qcmult (map (fun c => up Qc 0%Qc 1%Qc Qcplus Qcmult c k r) kids) in
      match r v with
      | Some x => cross_all Qc 1%Qc Qcmult (map (fun k => cmeas_pinned false k x r) kids)
      | None =>
          let p1 := (cpt pv 1%Z * msg (if isroot then 1%Z else pv))%Qc in
          flat_map (fun x => map (fun e => ((v, x) :: fst e, ((if Z.eqb x 1 then p1 else 1 - p1) * snd e)%Qc))
                                 (cross_all Qc 1%Qc Qcmult (map (fun k => cmeas_pinned false k x r) kids))) dom2
      end
  end.

(* P(X0=1) = 1/2, P(X1=1 | X0=1) = 4/5, P(X1=1 | X0=0) = 1/10 *)
Definition chain01 : ctree Qc :=
  CT 0 (fun _ x => q 1 2)
     [CT 1 (fun pv x => if Z.eqb pv 1 then (if Z.eqb x 1 then q 4 5 else q 1 5)
                        else (if Z.eqb x 1 then q 1 10 else q 9 10)) []].
Definition ev_child : row := mkrow [N_; S_ 1%Z].
Definition both_one : row := mkrow [S_ 1%Z; S_ 1%Z].

Lemma Qc_neq_of_bool (a b : Qc) : Qc_eq_bool a b = false -> a <> b.
Proof. intros H E. subst. unfold Qc_eq_bool in H. destruct (Qc_eq_dec b b); congruence. Qed.

(* pinned law of X0 = 1 given X1 = 1 is 2/5; the exact conditional is up(c)/up(r) = (2/5)/(9/20) = 8/9 *)
Theorem clt_sample_pinned_refuted :
  exists (t : ctree Qc) (r c : row),
    NoDup (vars Qc t) /\
    qmass (cmeas_pinned true t 0%Z r) r (vars Qc t) c = q 2 5 /\
    (up Qc 0%Qc 1%Qc Qcplus Qcmult t 0%Z c / up Qc 0%Qc 1%Qc Qcplus Qcmult t 0%Z r)%Qc = q 8 9 /\
    (qmass (cmeas_pinned true t 0%Z r) r (vars Qc t) c * up Qc 0%Qc 1%Qc Qcplus Qcmult t 0%Z r)%Qc
      <> up Qc 0%Qc 1%Qc Qcplus Qcmult t 0%Z c.
Proof.
  exists chain01, ev_child, both_one. split; [|split; [|split]].
  - cbn. repeat constructor; cbn; intuition congruence.
  - apply Qc_eq_bool_correct. vm_compute. reflexivity.
  - apply Qc_eq_bool_correct. vm_compute. reflexivity.
  - apply Qc_neq_of_bool. vm_compute. reflexivity.
Qed.

(* the repaired sampler (Model/Sample.v: cmeas) is exact on the same input *)
Theorem clt_sample_fixed_on_witness :
  (qmass (qcmeas chain01 0%Z ev_child) ev_child (vars Qc chain01) both_one *
     up Qc 0%Qc 1%Qc Qcplus Qcmult chain01 0%Z ev_child)%Qc
  = up Qc 0%Qc 1%Qc Qcplus Qcmult chain01 0%Z both_one.
Proof. apply Qc_eq_bool_correct. vm_compute. reflexivity. Qed.
