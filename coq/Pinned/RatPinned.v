(* Pinned/RatPinned.v — C16: the un-padding of the PINNED tree (samples[inv_pad_mask], without `~`)
   keeps exactly the padded positions: wrong width on every padded architecture.  Witness: 7 features,
   depth 2 (pad = 1, dimension = 2).  Documentation of the repaired defect (fix: `~inv_pad_mask`). *)
From Coq Require Import List Arith ZArith Bool.
From DV Require Import Model.Rat.
Import ListNotations.

Definition pin_perms : list (list (list nat)) := [[[3;0;6;1;5;2;4]]; [[6;0;3]; [4;1;5;2]]].
Definition pin_regs := leaves_of [items 7] pin_perms.                 (* [[6]; [0;3]; [1;4]; [2;5]] *)
Definition pin_m := concat (mask_of (dim_of 7 2) pin_regs).           (* [6;6; 0;3; 1;4; 2;5], position 1 is the dummy *)
Definition pin_pm := concat (padm_of (dim_of 7 2) pin_regs).
Definition pin_inv : list nat := [2;4;6;3;5;7;1;0].                   (* a valid argsort of pin_m (dummy before its variable) *)

Theorem unpad_pinned_refuted :
  is_argsort_b pin_m pin_inv = true /\
  length (unpad_pinned 0 (pad_of 7 2) pin_m pin_inv (gather false pin_pm pin_inv)) = 1 /\
  unpad 0 (pad_of 7 2) pin_m pin_inv (gather false pin_pm pin_inv) = items 7.
Proof. vm_compute. repeat split. Qed.
