(* Pinned/CnetPinned.v — documentation of the defect repaired in BinaryCNet.fit (commit 1ef29d3):
   the pinned code copied or_id / children / weights of the temporary root into `self` but NOT
   `clt`; when the root is not split the resulting object is neither a leaf nor an OR node and
   log_likelihood raises (`None is not in list`). *)
From Coq Require Import List Arith ZArith QArith Qcanon Bool.
From DV Require Import Model.Core Model.Clt Model.QcInst Model.Cnet Model.CnetRun
  Proofs.CnetFacts Proofs.CnetExamples.
Import ListNotations.

Definition fit_self_pinned {T} (root : ornode T) : option (ornode T) :=
  assemble T (osc T root) (get_or_id T root) (get_children T root) (get_weights T root) None.

(* split roots were unaffected ... *)
Lemma fit_self_pinned_split {T} sc v (w0 w1 : T) l r :
  fit_self_pinned (OCut sc v w0 w1 l r) = Some (OCut sc v w0 w1 l r).
Proof. reflexivity. Qed.

(* ... but every unsplit root was lost, although the repaired copy keeps it *)
Theorem cnet_root_unsplit_pinned_refuted :
  exists root : qornode, wf_cnet Qc 0%Qc root /\ fit_self Qc root = Some root /\ fit_self_pinned root = None.
Proof.
  exists (OLeaf [3;4]%nat ex_clt34). split; [|split; reflexivity].
  apply wf_cnetb_sound. vm_compute. reflexivity.
Qed.
Print Assumptions cnet_root_unsplit_pinned_refuted.
