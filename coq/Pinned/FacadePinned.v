(* Pinned/FacadePinned.v — C20: SPNClassifier.predict_log_proba of the PINNED tree
   (`np.log(weights) + lls[class_ids]`, no transposition).  The (k,) prior vector is broadcast against
   the (k, n) matrix of class values: NumPy raises unless n = k (or one of them is 1); when n = k it
   pairs the prior of class j with SAMPLE j and normalises over samples; with one sample it returns a
   k x k array.  Witnesses on the 3-class circuit of Proofs/FacadeExamples.v.  Documentation of the
   repaired defect (fix: `lls[class_ids].T`). *)
From Coq Require Import List Arith ZArith QArith Qcanon Bool.
From DV Require Import Model.Core Model.Leaves Model.QcInst Model.Facade Model.FacadeRun
  Proofs.FacadeFacts Proofs.FacadeExamples.
Import ListNotations.
Local Open Scope nat_scope.

Definition pin_X7 : list row := fx_X3 ++ fx_X3 ++ [mkrow [S_ 1; S_ 2]%Z].
Definition shape (o : option (arr2 Qc)) : option (nat * nat) := option_map (fun a => (nr a, nc a)) o.

Theorem broadcast_pinned_refuted :
  (* 7 samples, 3 classes: the pinned code raises, the repaired code returns 7 x 3 *)
  qproba_pinned fx_t 2 pin_X7 = None /\ shape (qproba fx_t 2 pin_X7) = Some (7, 3) /\
  (* 3 samples, 3 classes: it broadcasts, rows still sum to one, but entry (0,1) is
     w_1 val_0(x_1) / sum_j w_j val_0(x_j) = 1/8 instead of the posterior 1/33 *)
  option_map (fun a => map this (nth 0 (qlists a) [])) (qproba_pinned fx_t 2 fx_X3) = Some [3 # 8; 1 # 8; 1 # 2]%Q /\
  option_map (fun a => map this (nth 0 (qlists a) [])) (qproba fx_t 2 fx_X3) = Some [8 # 11; 1 # 33; 8 # 33]%Q /\
  (* 1 sample: a 3 x 3 array (every row the prior) instead of 1 x 3 *)
  shape (qproba_pinned fx_t 2 [mkrow [S_ 1; S_ 0]%Z]) = Some (3, 3) /\
  shape (qproba fx_t 2 [mkrow [S_ 1; S_ 0]%Z]) = Some (1, 3).
Proof. vm_compute. repeat split. Qed.
