(* GENERATED on every run from deeprob/spn/algorithms/moments.py by
   harness/translate_moments.py -- do not edit. *)
Section MomentsSrc.
  Variable T : Type.
  Variables (tadd tmul tsub tdiv : T -> T -> T) (topp : T -> T) (tnum : nat -> T) (pow15 : T -> T).
  Variable mom : nat -> T.
  Definition expectation_src : T :=
    (mom 1).
  Definition variance_src : T :=
    let fst_moment := (mom 1) in
    let snd_moment := (mom 2) in
    (tsub snd_moment (tmul fst_moment fst_moment)).
  Definition skewness_src : T :=
    let fst_moment := (mom 1) in
    let snd_moment := (mom 2) in
    let thd_moment := (mom 3) in
    let g1 := (tmul fst_moment fst_moment) in
    let g2 := (tsub snd_moment g1) in
    let g3 := (tsub (tmul (tnum 3) snd_moment) (tmul (tnum 2) g1)) in
    (tdiv (tsub thd_moment (tmul fst_moment g3)) (pow15 g2)).
  Definition kurtosis_src : T :=
    let fst_moment := (mom 1) in
    let snd_moment := (mom 2) in
    let thd_moment := (mom 3) in
    let fhd_moment := (mom 4) in
    let g1 := (tmul fst_moment fst_moment) in
    let g2 := (tsub snd_moment g1) in
    let g3 := (tmul (tnum 4) (tadd (tmul g1 g1) (tmul fst_moment thd_moment))) in
    let g4 := (tmul snd_moment (tsub (tmul (tnum 8) g1) snd_moment)) in
    (tadd (topp (tnum 2)) (tdiv (tadd (tsub fhd_moment g3) g4) (tmul g2 g2))).
End MomentsSrc.
