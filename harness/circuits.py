"""Generators of valid circuits (deeprob objects) with dyadic parameters, and the mapping
implementation object -> model literal (children-first table of Model/Core.v, Model/Leaves.v)."""
import math, itertools
from fractions import Fraction
import numpy as np

from deeprob.spn.structure.leaf import Bernoulli, Categorical, Gaussian, Uniform, Isotonic, Leaf
from deeprob.spn.structure.node import Sum, Product, assign_ids
from deeprob.spn.structure.cltree import BinaryCLT

from .common import qlit, natlist, zlit, coq_list

F32_EPS = float(np.finfo(np.float32).eps)


# ------------------------------------------------------------------ generation
def dyadic_weights(rs, k, bits=5):
    """k positive integers summing to 2^bits, as exact float32 fractions."""
    tot = 2 ** bits
    assert k <= tot
    cuts = sorted(rs.choice(np.arange(1, tot), size=k - 1, replace=False).tolist()) if k > 1 else []
    parts = [b - a for a, b in zip([0] + cuts, cuts + [tot])]
    return [p / tot for p in parts]


CLT_REFIT = 0.2     # probability that a generated Chow-Liu leaf gets its tables from BinaryCLT.fit on a GIVEN structure (once or twice)
CLT_EM_INIT = 0.2   # probability that a generated Chow-Liu leaf is passed through BinaryCLT.em_init before it is used
CLT_DET = 0.0     # probability that a generated Chow-Liu leaf gets exact 0/1 table entries (set by C01/C02 only)


def rand_clt(rs, scope, permute=True):
    n = len(scope)
    if permute and n > 1 and rs.rand() < 0.4:
        scope = [int(v) for v in rs.permutation(list(scope))]      # variable ids by POSITION need not be ascending
    order = list(rs.permutation(n)); tree = [-1] * n
    for k in range(1, n):
        tree[order[k]] = int(order[rs.randint(0, k)])
    p = rs.randint(1, 16, size=(n, 2)) / 16.0
    if CLT_DET and rs.rand() < CLT_DET:
        det = rs.rand(n, 2) < 0.5
        p = np.where(det, rs.randint(0, 2, size=(n, 2)).astype(float), p)
    params = np.zeros((n, 2, 2)); params[:, :, 1] = p; params[:, :, 0] = 1 - p
    r = tree.index(-1); params[r, 1] = params[r, 0]
    with np.errstate(divide="ignore"):
        c = BinaryCLT(list(scope), tree=tree, params=np.log(params).tolist())
    c._verif_probs = params
    if CLT_REFIT and n > 1 and rs.rand() < CLT_REFIT:
        # structure given, parameters learned: a tree built from its predecessor vector alone and then fitted on data (as the XPC
        # learner builds its leaves), or a tree fitted a second time; tables put on a dyadic grid row by row as below
        if rs.rand() < 0.6:                       # the learners that hand a structure to fit() put the root at position 0
            order = [0] + [int(v) for v in 1 + rs.permutation(n - 1)]; tree = [-1] * n
            for k in range(1, n):
                tree[order[k]] = int(order[rs.randint(0, k)])
        c = BinaryCLT(list(scope), tree=list(tree))
        for _ in range(int(rs.randint(1, 3))):
            d = (rs.rand(int(rs.randint(8, 40)), n) < rs.uniform(0.2, 0.8, size=n)).astype(np.float32)
            c.fit(d, [[0, 1]] * n, alpha=float(rs.choice([0.1, 0.5, 1.0])), random_state=np.random.RandomState(int(rs.randint(1 << 30))))
        pr = np.exp(np.asarray(c.params, dtype=np.float64))[:, :, 1]
        pr = np.clip(np.round(pr * 64.0), 1, 63) / 64.0
        probs = np.zeros((n, 2, 2)); probs[:, :, 1] = pr; probs[:, :, 0] = 1.0 - pr
        c.params = np.log(probs).astype(np.float32)
        c._verif_probs = probs
        return c
    if CLT_EM_INIT and rs.rand() < CLT_EM_INIT:
        # a tree that went through the library's own random initialisation (em_init, as EM with random_init=True does): the tables
        # it drew are put on a dyadic grid ROW BY ROW (each row stays exactly normalised; nothing is tied or repaired here) and
        # written back in place, so that the tables of the case are exactly what the object holds
        c.em_init(np.random.RandomState(int(rs.randint(1 << 30))))
        pr = np.exp(np.asarray(c.params, dtype=np.float64))[:, :, 1]
        pr = np.clip(np.round(pr * 64.0), 1, 63) / 64.0
        probs = np.zeros((n, 2, 2)); probs[:, :, 1] = pr; probs[:, :, 0] = 1.0 - pr
        c.params = np.log(probs).astype(np.float32)
        c._verif_probs = probs
    return c


def rand_leaf(rs, v, kinds):
    kind = kinds[rs.randint(len(kinds))]
    if kind == "bern":
        return Bernoulli(v, float(rs.randint(0, 17) / 16.0))
    if kind == "cat":
        k = int(rs.randint(2, 5))
        cats = sorted(rs.choice(6, size=k, replace=False).tolist())
        if rs.rand() < 0.3:
            cats = [int(c) for c in rs.permutation(cats)]          # category labels need not be stored in ascending order
        return Categorical(v, cats, dyadic_weights(rs, k, 4))
    if kind == "gauss":
        return Gaussian(v, float(rs.randint(-8, 9) / 4.0), float(rs.randint(1, 9) / 4.0))
    if kind == "unif":
        return Uniform(v, float(rs.randint(-8, 9) / 4.0), float(rs.randint(1, 9) / 2.0))
    if kind == "iso":
        k = int(rs.randint(1, 5))
        start = float(rs.randint(-4, 5))
        widths = rs.randint(1, 4, size=k) / 2.0
        breaks = [start] + (start + np.cumsum(widths)).tolist()
        return Isotonic(v, dyadic_weights(rs, k, 4), breaks)
    raise ValueError(kind)


def skew_params(root, rs, p_zero_w=0.3, p_extreme=0.3, hard=True):
    """post-process a generated circuit: some sum weights become exactly 0 (their mass moves to
    another child) and some Bernoulli parameters become extreme (2^-10 / 1-2^-10 / 0 / 1) — the
    situations in which 'log(w + eps)'-style edits and floor constants matter."""
    for o in post_order(root):
        if isinstance(o, Sum) and len(o.children) >= 2 and rs.rand() < p_zero_w:
            w = np.array(o.weights, dtype=np.float64)
            i = int(rs.randint(len(w))); j = int((i + 1 + rs.randint(len(w) - 1)) % len(w))
            w[j] += w[i]; w[i] = 0.0
            o.weights = w.astype(np.float32)
        elif isinstance(o, Bernoulli) and rs.rand() < p_extreme:
            o.p = float([2.0 ** -10, 1.0 - 2.0 ** -10, 0.0, 1.0, 2.0 ** -10, 1.0 - 2.0 ** -10][rs.randint(6 if hard else 2)])
    return root


def rand_circuit(rs, scope, kinds=("bern",), clt=0.0, share=0.3, depth=0, pool=None, maxdepth=4,
                 kind_of=None):
    """Random valid DAG over `scope`.  kind_of: dict var -> leaf kind (keeps a variable's domain
    consistent across the circuit); filled lazily."""
    if pool is None:
        pool = {}
    if kind_of is None:
        kind_of = {}
    key = tuple(sorted(scope))
    if key in pool and rs.rand() < share:
        return pool[key][rs.randint(len(pool[key]))]

    def leaf(v):
        if v not in kind_of:
            kind_of[v] = kinds[rs.randint(len(kinds))]
        lf = rand_leaf(rs, v, [kind_of[v]])
        if kind_of[v] == "cat":
            # one category set per variable so that the domain is well defined
            cats = kind_of.setdefault(("cats", v), lf.categories.tolist())
            lf = Categorical(v, cats, dyadic_weights(rs, len(cats), 4))
        return lf

    binary = all(kind_of.setdefault(v, kinds[rs.randint(len(kinds))]) == "bern" for v in scope)
    if len(scope) == 1 and (depth >= 2 or rs.rand() < 0.5):
        n = leaf(scope[0])
    elif clt > 0 and len(scope) >= 2 and binary and rs.rand() < clt:
        n = rand_clt(rs, scope)
    elif depth >= maxdepth or rs.rand() < 0.45 or len(scope) == 1:
        if depth >= maxdepth and len(scope) > 1:
            n = Product(children=[rand_circuit(rs, [v], kinds, clt, share, depth + 1, pool, maxdepth, kind_of)
                                  for v in scope])
        else:
            k = int(rs.randint(1, 5)) if depth < maxdepth - 1 else 1
            ch = [rand_circuit(rs, scope, kinds, clt, share, depth + 1, pool, maxdepth, kind_of) for _ in range(k)]
            n = Sum(children=ch, weights=np.array(dyadic_weights(rs, k), dtype=np.float32))
    else:
        perm = [int(v) for v in rs.permutation(scope)]
        k = int(rs.randint(2, min(3, len(scope)) + 1)) if rs.rand() < 0.9 else 1
        cuts = sorted(rs.choice(range(1, len(scope)), size=k - 1, replace=False).tolist()) if k > 1 else []
        parts = [perm[i:j] for i, j in zip([0] + cuts, cuts + [len(scope)])]
        n = Product(children=[rand_circuit(rs, p, kinds, clt, share, depth + 1, pool, maxdepth, kind_of)
                              for p in parts])
    pool.setdefault(key, []).append(n)
    return n


def rand_nested_mixture(rs, clt=0.3):
    """mixtures nested over SEVERAL levels that share components across levels (M = Sum[X, Q], Q = Sum[X, Z], ...: a
    component listed before / after the nested mixture that uses it again), next to an independent factor under a product.
    Unpruned on purpose: sums directly below sums."""
    nv = int(rs.randint(1, 4)); base = int(rs.randint(0, 3))
    scope = [base + i for i in range(nv)]
    def component():
        if nv >= 2 and rs.rand() < clt:
            return rand_clt(rs, scope)
        ls = [Bernoulli(v, float(rs.randint(1, 16) / 16.0)) for v in scope]
        return ls[0] if nv == 1 else Product(children=ls)
    comps = [component() for _ in range(int(rs.randint(2, 5)))]
    built = []
    for level in range(int(rs.randint(2, 5))):
        cand = comps + built
        k = int(rs.randint(2, min(4, len(cand)) + 1))
        ch = [cand[i] for i in rs.choice(len(cand), size=k, replace=False)]
        if built and built[-1] not in ch:
            ch[int(rs.randint(k))] = built[-1]            # the tower stays connected
        ch = [ch[i] for i in rs.permutation(len(ch))]
        if len(set(map(id, ch))) != len(ch):
            ch = list({id(c): c for c in ch}.values())
        if len(ch) < 2:
            ch = ch + [component()]
        built.append(Sum(children=ch, weights=np.array(dyadic_weights(rs, len(ch)), dtype=np.float32)))
    top = built[-1]
    other = [base + nv + 1 + i for i in range(int(rs.randint(1, 3)))]
    factor = Sum(children=[Product(children=[Bernoulli(v, float(rs.randint(1, 16) / 16.0)) for v in other]) if len(other) > 1
                           else Bernoulli(other[0], float(rs.randint(1, 16) / 16.0)) for _ in range(2)],
                 weights=np.array(dyadic_weights(rs, 2), dtype=np.float32))
    kids = [top, factor] if rs.rand() < 0.5 else [factor, top]
    return Product(children=kids)


def rand_scope(rs, nv, spread=3, contiguous=False):
    if contiguous:
        return [int(v) for v in rs.permutation(nv)]
    return sorted(int(v) for v in rs.choice(nv + spread, size=nv, replace=False))


# ------------------------------------------------------------------ independent densities
def gauss_pdf(x, mu, sd):
    return math.exp(-0.5 * ((x - mu) / sd) ** 2) / (sd * math.sqrt(2.0 * math.pi))


def unif_pdf(x, start, width):
    return 1.0 / width if start <= x <= start + width else 0.0


def iso_pdf(x, dens, breaks):
    dens = [float(d) for d in dens]; breaks = [float(b) for b in breaks]
    if x <= breaks[0] or x >= breaks[-1]:
        return F32_EPS
    z = sum(d * (b1 - b0) for d, b0, b1 in zip(dens, breaks[:-1], breaks[1:]))
    for d, b0, b1 in zip(dens, breaks[:-1], breaks[1:]):
        if b0 <= x < b1:
            return d / z
    return F32_EPS


def cont_density(leaf, x):
    if isinstance(leaf, Gaussian):
        return gauss_pdf(x, float(leaf.mean), float(leaf.stddev))
    if isinstance(leaf, Uniform):
        return unif_pdf(x, float(leaf.start), float(leaf.width))
    if isinstance(leaf, Isotonic):
        return iso_pdf(x, leaf.densities, leaf.breaks)
    raise TypeError(type(leaf))


def cont_points(leaf, rs, n=4):
    """test points inside, at the edge of and outside the support (never ON a discontinuity:
    the float comparison at a break is not what the property is about)."""
    if isinstance(leaf, Gaussian):
        return [float(leaf.mean + leaf.stddev * z) for z in (-2.5, -0.5, 0.25, 6.0)][:n]
    if isinstance(leaf, Uniform):
        a, w = float(leaf.start), float(leaf.width)
        return [a - 1.0, a + w / 4, a + w / 2, a + w + 0.5][:n]
    if isinstance(leaf, Isotonic):
        b = [float(x) for x in leaf.breaks]
        mids = [(b0 + b1) / 2 for b0, b1 in zip(b[:-1], b[1:])]
        return ([b[0] - 1.0] + mids[:2] + [b[-1] + 2.0])[:n]
    raise TypeError(type(leaf))


def py_likelihood(root, x):
    """independent float64 evaluation of a circuit on ONE complete row x (indexable by variable id): mixture / product semantics,
    pmfs read off the parameters, continuous densities from the formulas above, Chow-Liu leaves as the product of their
    table entries.  Used where the evidence is not representable in single precision."""
    memo = {}
    def val(o):
        k = id(o)
        if k in memo:
            return memo[k]
        if isinstance(o, Sum):
            r = sum(float(w) * val(c) for w, c in zip(o.weights, o.children))
        elif isinstance(o, Product):
            r = 1.0
            for c in o.children:
                r *= val(c)
        elif isinstance(o, BinaryCLT):
            sc = [int(v) for v in o.scope]; par = np.asarray(o.params, dtype=np.float64); r = 1.0
            for i, pa in enumerate(o.tree):
                xi = int(x[sc[i]]); xp = 0 if pa == -1 else int(x[sc[pa]])
                r *= math.exp(par[i, xp, xi]) if par[i, xp, xi] > -1e30 else 0.0
        elif isinstance(o, Bernoulli):
            xv = float(x[int(o.scope[0])]); pr = float(o.p)
            r = pr if xv == 1.0 else (1.0 - pr if xv == 0.0 else 0.0)
        elif isinstance(o, Categorical):
            xv = x[int(o.scope[0])]; r = 0.0
            for c, pr in zip(o.categories, o.probabilities):
                if float(c) == float(xv) and int(c) == int(xv):
                    r = float(pr)
        else:
            r = cont_density(o, float(x[int(o.scope[0])]))
        memo[k] = r
        return r
    return val(root)


def py_log_likelihood(root, x):
    """independent float64 evaluation in the LOG domain of a circuit on one complete row (log-sum-exp by hand, Gaussian
    log-density by formula): for rows whose likelihood underflows every linear-domain number."""
    NEG = float("-inf")
    memo = {}
    def lse(terms):
        m = max(terms)
        return NEG if m == NEG else m + math.log(sum(math.exp(t - m) for t in terms))
    def val(o):
        k = id(o)
        if k in memo:
            return memo[k]
        if isinstance(o, Sum):
            r = lse([(math.log(float(w)) if float(w) > 0 else NEG) + val(c) for w, c in zip(o.weights, o.children)])
        elif isinstance(o, Product):
            r = sum(val(c) for c in o.children)
        elif isinstance(o, Gaussian):
            z = (float(x[int(o.scope[0])]) - float(o.mean)) / float(o.stddev)
            r = -0.5 * z * z - math.log(float(o.stddev)) - 0.5 * math.log(2.0 * math.pi)
        else:
            p = py_likelihood(o, x)
            r = math.log(p) if p > 0 else NEG
        memo[k] = r
        return r
    return val(root)


# ------------------------------------------------------------------ object -> table
def post_order(root):
    seen = {}; order = []
    stack = [(root, iter(root.children))]
    seen[id(root)] = True
    while stack:
        node, it = stack[-1]
        adv = False
        for c in it:
            if id(c) not in seen:
                seen[id(c)] = True
                stack.append((c, iter(c.children)))
                adv = True
                break
        if not adv:
            order.append(node); stack.pop()
    return order


class Table:
    """children-first list of node descriptions (exact Fractions) + back pointers to the objects."""
    def __init__(self, root, points=None, renorm=False):
        """renorm: learned (float32) parameter vectors sum to one only up to rounding; with renorm the
        LAST entry of every weight vector / categorical table / CPT row is replaced by one minus the
        exact sum of the others, and the largest such adjustment is kept in self.max_adjust (the
        caller must bound it: a real normalisation defect shows up as a large adjustment)."""
        self.max_adjust = Fraction(0)
        self.renorm = renorm
        self.objs = post_order(root)
        self.pos = {id(o): i for i, o in enumerate(self.objs)}
        self.points = points if points is not None else {}   # var -> list of float test points
        self.nodes = []
        for o in self.objs:
            sc = [int(v) for v in o.scope]
            kids = [self.pos[id(c)] for c in o.children]
            if isinstance(o, Sum):
                self.nodes.append(dict(kind="sum", scope=sc, kids=kids, ws=self._fix([Fraction(float(w)) for w in o.weights])))
            elif isinstance(o, Product):
                self.nodes.append(dict(kind="prod", scope=sc, kids=kids))
            elif isinstance(o, BinaryCLT):
                probs = getattr(o, "_verif_probs", None)
                if probs is None:
                    probs = np.exp(np.asarray(o.params, dtype=np.float64))
                cpt = [[self._fix([Fraction(float(probs[i][l][k])) for k in (0, 1)]) for l in (0, 1)] for i in range(len(sc))]
                tree = [int(t) for t in o.tree]
                self.nodes.append(dict(kind="clt", scope=sc, kids=[], tree=tree, cpt=cpt))
            elif isinstance(o, Bernoulli):
                p = Fraction(float(o.p))
                self.nodes.append(dict(kind="tab", scope=sc, kids=[], var=sc[0], tab=[(0, 1 - p), (1, p)]))
            elif isinstance(o, Categorical):
                ps = self._fix([Fraction(float(p)) for p in o.probabilities])
                tab = [(int(c), p) for c, p in zip(o.categories, ps)]
                self.nodes.append(dict(kind="tab", scope=sc, kids=[], var=sc[0], tab=tab))
            elif isinstance(o, (Gaussian, Uniform, Isotonic)):
                pts = self.points.get(sc[0], [])
                tab = [(i, Fraction(cont_density(o, x))) for i, x in enumerate(pts)]
                self.nodes.append(dict(kind="tab", scope=sc, kids=[], var=sc[0], tab=tab, cont=True))
            else:
                raise TypeError(f"unsupported node {type(o).__name__}")

    def _fix(self, vec):
        if not self.renorm or not vec:
            return vec
        last = 1 - sum(vec[:-1])
        self.max_adjust = max(self.max_adjust, abs(last - vec[-1]))
        return vec[:-1] + [last]

    def root_scope(self):
        return self.nodes[-1]["scope"]

    def domains(self):
        """var -> list of int codes (model domain)."""
        dom = {}
        for n in self.nodes:
            if n["kind"] == "tab":
                dom.setdefault(n["var"], [x for x, _ in n["tab"]])
            elif n["kind"] == "clt":
                for v in n["scope"]:
                    dom.setdefault(v, [0, 1])
        return dom

    def coq(self):
        items = []
        for n in self.nodes:
            sc = natlist(n["scope"]); ks = natlist(n["kids"])
            if n["kind"] == "sum":
                kd = "(KSum " + coq_list([qlit(w) for w in n["ws"]]) + ")"
            elif n["kind"] == "prod":
                kd = "KProd"
            elif n["kind"] == "tab":
                kd = f"(KLeaf (LTab {n['var']}%nat " + coq_list([f"({zlit(x)}, {qlit(p)})" for x, p in n["tab"]]) + "))"
            else:
                par = coq_list(["None" if t < 0 else f"(Some {t}%nat)" for t in n["tree"]])
                cpt = coq_list([coq_list([coq_list([qlit(x) for x in row]) for row in tbl]) for tbl in n["cpt"]])
                kd = f"(KLeaf (LClt (Build_clt {sc} {par} {cpt})))"
            items.append(f"Build_node {kd} {sc} {ks}")
        return "[" + ";\n  ".join(items) + "]"

    def describe(self):
        kinds = {}
        for n, o in zip(self.nodes, self.objs):
            kinds[type(o).__name__] = kinds.get(type(o).__name__, 0) + 1
        return dict(nodes=len(self.nodes), kinds=kinds, scope=self.root_scope())

    def brief(self):
        out = []
        for n in self.nodes:
            d = dict(kind=n["kind"], scope=n["scope"], kids=n["kids"])
            if n["kind"] == "sum":
                d["ws"] = [str(w) for w in n["ws"]]
            if n["kind"] == "tab":
                d["tab"] = [(x, str(p)) for x, p in n["tab"]]
            if n["kind"] == "clt":
                d["tree"] = n["tree"]; d["cpt"] = [[[str(x) for x in r] for r in t] for t in n["cpt"]]
            out.append(d)
        return out


def row_coq(codes, width):
    """codes: dict var -> int or None; -> `mkrow [...]` literal of length width."""
    cells = []
    for v in range(width):
        c = codes.get(v)
        cells.append("N_" if c is None else f"S_ {zlit(c)}")
    return "(mkrow [" + "; ".join(cells) + "])"


def np_row(codes, width, points):
    """the implementation's row for the same codes (continuous codes -> test points)."""
    r = np.full(width, np.nan, dtype=np.float32)
    for v, c in codes.items():
        if c is None:
            continue
        r[v] = points[v][c] if v in points else c
    return r


def assignments(scope, dom, limit=None, rs=None):
    """all complete assignments of `scope` (dict var->code), optionally subsampled."""
    doms = [dom[v] for v in scope]
    total = 1
    for d in doms:
        total *= len(d)
    if limit is None or total <= limit:
        for vals in itertools.product(*doms):
            yield dict(zip(scope, vals))
    else:
        for _ in range(limit):
            yield {v: d[rs.randint(len(d))] for v, d in zip(scope, doms)}


def fingerprint(root):
    """everything a read-only query must leave alone: structure, parameters (exact), node ids, and which objects they are."""
    import json as _json
    t = Table(root, renorm=False) if not _has_cont(root) else None
    objs = post_order(root)
    ids = [None if getattr(o, "id", None) is None else int(o.id) for o in objs]
    if t is not None:
        body = t.brief()
    else:
        body = [[type(o).__name__, [int(v) for v in o.scope], [repr(v) for k, v in sorted(getattr(o, "params_dict", lambda: {})().items())] if not o.children else
                 [float(w) for w in getattr(o, "weights", [])]] for o in objs]
    return _json.dumps([body, ids], default=str), [id(o) for o in objs]


def _has_cont(root):
    return any(isinstance(o, (Gaussian, Uniform, Isotonic)) for o in post_order(root))


def unchanged(root, before, what, rep, extra=None):
    """report if a read-only call changed the circuit; returns True when it is unchanged."""
    try:
        after = fingerprint(root)
    except Exception as e:
        after = (f"unreadable: {type(e).__name__}: {e}", None)
    if after[0] != before[0] or (after[1] is not None and after[1] != before[1]):
        rep.violation(dict(kind="read-only-call-changed-the-circuit", call=what, before=before[0][:1500], after=str(after[0])[:1500],
                           **(extra or {})), True)
        return False
    return True


def second_hand(root, rs):
    """make `root` a USED object without changing what it denotes: its array-valued parameters (sum weights, Chow-Liu
    tables) are overwritten IN PLACE with other values, every kind of query is run once, and the parameters are written
    back in place.  A correct library answers later queries from the parameters it holds now."""
    from deeprob.spn.algorithms.inference import likelihood, log_likelihood, mpe
    from deeprob.spn.algorithms.sampling import sample
    objs = post_order(root)
    saved = []
    for o in objs:
        if isinstance(o, Sum) and isinstance(o.weights, np.ndarray) and len(o.weights) > 1:
            saved.append((o.weights, o.weights.copy())); o.weights[:] = np.roll(o.weights, 1)
        elif isinstance(o, BinaryCLT) and isinstance(getattr(o, "params", None), np.ndarray):
            saved.append((o.params, o.params.copy()))
            r = int(np.argmax(np.asarray(o.tree) == -1))
            for i in range(len(o.tree)):
                if i != r:
                    o.params[i] = o.params[i][::-1].copy()          # swap the two parent rows: still normalised
    if not saved:
        return False
    width = max(int(v) for v in root.scope) + 1
    x = np.full((3, width), np.nan, dtype=np.float32)
    try:
        with np.errstate(all="ignore"):
            for q in (lambda: log_likelihood(root, x), lambda: likelihood(root, x), lambda: mpe(root, x), lambda: sample(root, x),
                      lambda: log_likelihood(root, x, n_jobs=2), lambda: mpe(root, x, n_jobs=2)):
                try:
                    q()
                except Exception:
                    pass          # a query that raises here is not this helper's business: the stages that follow exercise the
                                  # same entry points on the restored object and report the failing input themselves
    finally:
        for arr, old in saved:
            arr[...] = old
    return True
