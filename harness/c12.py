"""C12 — Chow-Liu tree -> circuit conversion is exact and structured.
Proof: Properties/C12.v (value equality for every tree and evidence pattern).  Tie: every
predecessor vector over <= 4 (quick) / 5 (thorough) variables + random trees up to 7, random dyadic
CPTs, scope relabellings: the implementation's to_pc() circuit vs the model's (structure, child
order, weights), values of PC and CLT on all evidence patterns, validity / structured
decomposability / determinism certificates (engine E1) and the library's own checks."""
import itertools, json
import numpy as np
from . import common as C
from . import circuits as G
from . import c01, c06

PID = "C12"
HEADER = ["From Coq Require Import List ZArith QArith Qcanon.",
          "From DV Require Import Model.Core Model.Clt Model.Leaves Model.QcInst Model.ToPc Model.ToPcRun.",
          "Import ListNotations. Open Scope Z_scope."]


def all_parent_vectors(n):
    """every predecessor vector encoding a rooted tree on n positions."""
    out = []
    for vec in itertools.product(range(-1, n), repeat=n):
        if list(vec).count(-1) != 1:
            continue
        ok = True
        for i in range(n):
            seen = set(); j = i
            while j != -1 and j not in seen:
                seen.add(j); j = vec[j]
            if j != -1:
                ok = False; break
        if ok and all(vec[i] != i for i in range(n)):
            out.append(list(vec))
    return out


def make_clt(rs, tree, scope):
    from deeprob.spn.structure.cltree import BinaryCLT
    n = len(tree)
    p = rs.randint(1, 16, size=(n, 2)) / 16.0
    if rs.rand() < 0.25:      # deterministic rows (p = 0 / 1) exercise determinism and zero weights
        p[rs.randint(n), rs.randint(2)] = float(rs.randint(2))
    params = np.zeros((n, 2, 2)); params[:, :, 1] = p; params[:, :, 0] = 1 - p
    r = tree.index(-1); params[r, 1] = params[r, 0]
    with np.errstate(divide="ignore"):
        c = BinaryCLT(list(scope), tree=list(tree), params=np.log(params).tolist())
    c._verif_probs = params
    if rs.rand() < 0.3:
        # a second-hand tree: converted and queried once under OTHER tables, which are then replaced (in place, or by assigning
        # a new array as learners do) by the tables of this case
        final = np.array(c.params, copy=True)
        other = final.copy()
        for i in range(n):
            if i != r:
                other[i] = final[i][::-1]
        with np.errstate(all="ignore"):
            if rs.rand() < 0.5:
                c.params[...] = other; c.to_pc(); c.log_likelihood(np.full((2, n), np.nan, dtype=np.float32)); c.params[...] = final
            else:
                c.params = other; c.to_pc(); c.log_likelihood(np.full((2, n), np.nan, dtype=np.float32)); c.params = final
    return c


def main(tier, seed, replay=None):
    rep = C.Report(PID, tier, seed)
    rs = np.random.RandomState(seed % (2 ** 31))
    C.proof_stage(rep, PID)
    rep.cov["trusted_base"] += ["harness/circuits.py object->table mapping of the CLT and of the implementation's converted circuit",
                                "validity, structured decomposability and determinism are theorems about the model's conversion (C12_valid, C12_structured, C12_deterministic); on the implementation's circuit they are certificates evaluated per run (and the library's own check_spn)"]
    from deeprob.spn.utils.validity import check_spn
    from deeprob.spn.algorithms.inference import log_likelihood, likelihood
    from deeprob.spn.structure.node import Sum
    trees = []
    nmax = 4 if tier == "quick" else 5
    for n in range(1, nmax + 1):
        for vec in all_parent_vectors(n):
            trees.append(vec)
    n_exh = len(trees)
    for _ in range(40 if tier == "quick" else 1000):
        n = int(rs.randint(5, 8))
        order = list(rs.permutation(n)); tree = [-1] * n
        for k in range(1, n):
            tree[order[k]] = int(order[rs.randint(0, k)])
        trees.append(tree)
    cases = []; dist = dict(exhaustive_vectors=n_exh, random=len(trees) - n_exh, sizes={}, rows=0)
    for ti, tree in enumerate(trees):
        n = len(tree)
        scope = G.rand_scope(rs, n, spread=2) if ti % 2 else list(range(n))
        if ti % 3 == 0:
            scope = [int(v) for v in rs.permutation(scope)]
        clt = make_clt(rs, tree, scope); clt.id = 0
        try:
            pc = clt.to_pc()
        except Exception as e:
            rep.violation(dict(kind="to_pc-raised", tree=tree, scope=scope, error=f"{type(e).__name__}: {e}"), True); continue
        bad = None
        try:
            check_spn(pc, labeled=True, smooth=True, decomposable=True, structured_decomposable=True)
        except Exception as e:
            bad = dict(what="converted circuit rejected by the library's own validation", error=str(e))
        # get_scopes = product scopes (as sets)
        from deeprob.spn.structure.node import Product
        ps = sorted(tuple(sorted(o.scope)) for o in G.post_order(pc) if isinstance(o, Product))
        gs = sorted(tuple(sorted(s)) for s in clt.get_scopes())
        if not bad and sorted(set(ps)) != sorted(set(gs)):
            bad = dict(what="get_scopes() differs from the product scopes of to_pc()", get_scopes=gs, product_scopes=ps)
        width = max(scope) + 1
        dom = {v: [0, 1] for v in scope}
        rows = c01.missing_rows(rs, sorted(scope), dom, "quick")
        if len(rows) > 48:
            rows = [rows[i] for i in rs.choice(len(rows), size=48, replace=False)]
        X = np.array([G.np_row(c, width, {}) for c in rows], dtype=np.float32)
        with np.errstate(all="ignore"):
            e_pc = np.exp(np.clip(log_likelihood(pc, X).reshape(-1).astype(np.float64), -700, 50))
            e_clt = np.exp(np.clip(clt.log_likelihood(X[:, scope]).reshape(-1).astype(np.float64), -700, 50))
        if not bad and not (np.all(np.isfinite(e_pc)) and np.all(np.isfinite(e_clt))):
            i = int(np.argmin(np.isfinite(e_pc) & np.isfinite(e_clt)))
            bad = dict(what="the tree or the converted circuit returns a non-finite value on a query", row=sorted(rows[i].items()),
                       pc=repr(float(e_pc[i])), clt=repr(float(e_clt[i])))
        e_pc = np.where(np.isfinite(e_pc), e_pc, -1.0); e_clt = np.where(np.isfinite(e_clt), e_clt, -1.0)     # sentinels for the literals
        if not bad and not np.allclose(e_pc, e_clt, rtol=2e-4, atol=1e-9):
            i = int(np.argmax(np.abs(e_pc - e_clt)))
            bad = dict(what="converted circuit and tree disagree", row=sorted(rows[i].items()), pc=float(e_pc[i]), clt=float(e_clt[i]))
        # every row again as a batch of its own: the value of a row may not depend on which other rows (evidence patterns) share its batch
        if not bad:
            with np.errstate(all="ignore"):
                solo = np.array([float(np.exp(np.clip(clt.log_likelihood(X[i:i + 1][:, scope]).reshape(-1).astype(np.float64), -700, 50))[0])
                                 for i in range(len(rows))])
            if not np.allclose(solo, e_clt, rtol=2e-4, atol=1e-9):
                i = int(np.argmax(np.abs(solo - e_clt)))
                bad = dict(what="the tree's value of a row differs between a single-row query and the mixed batch", row=sorted(rows[i].items()),
                           alone=float(solo[i]), in_batch=float(e_clt[i]), converted_circuit=float(e_pc[i]))
        # determinism on complete rows (implementation): at most one non-zero child per sum
        comp = [i for i, c in enumerate(rows) if all(v is not None for v in c.values())]
        if comp and not bad:
            _, ls = likelihood(pc, X[comp], return_results=True)
            for o in G.post_order(pc):
                if isinstance(o, Sum):
                    nz = sum((ls[c.id] > 0).astype(int) for c in o.children)
                    if (nz > 1).any():
                        bad = dict(what="converted circuit is not deterministic", sum_id=int(o.id)); break
        ctab = G.Table(clt); ptab = G.Table(pc)
        cases.append(dict(tree=tree, scope=scope, ctab=ctab, ptab=ptab, rows=rows, width=width, e_pc=e_pc, e_clt=e_clt, oracle=bad))
        dist["sizes"][n] = dist["sizes"].get(n, 0) + 1; dist["rows"] += len(rows)
    rep.cov["input_distribution"] = dist
    rep.cov["exhaustive"] = False
    shard = 40
    files = []
    for s in range(0, len(cases), shard):
        body = list(HEADER); names = []
        for i, cs in enumerate(cases[s:s + shard]):
            nm = f"c{s + i}"
            rws = C.coq_list([f"({G.row_coq(c, cs['width'])}, ({C.qlit(float(a))}, {C.qlit(float(b))}))"
                              for c, a, b in zip(cs["rows"], cs["e_pc"], cs["e_clt"])])
            body.append(f"Definition {nm}_p : qtable :=\n  {cs['ptab'].coq()}.\n"
                        f"Definition {nm} := run_ccase (Build_ccase {c06.clt_coq(cs['ctab'].nodes[0])} {nm}_p {rws}).")
            names.append(nm)
        body.append("Eval vm_compute in (concat (map (fun l => (-1)%Z :: l) [" + "; ".join(names) + "])).")
        files.append((f"cases_{s // shard}", "\n".join(body)))
    res = C.run_case_files(PID, files)
    flagged = []
    for (name, rc, ints, raw), s in zip(res, range(0, len(cases), shard)):
        if rc != 0 or ints is None:
            rep.obligation(False); rep.violation(dict(kind="correspondence-shard-failed", shard=name, log=raw), False); continue
        rep.obligation(True)
        groups = []
        for z in ints:
            if z == -1:
                groups.append([])
            else:
                groups[-1].append(z)
        for cs, codes in zip(cases[s:s + shard], groups):
            rep.count(dict(tree=cs["tree"], scope=cs["scope"], cpt=cs["ctab"].brief()), nontrivial=len(cs["tree"]) > 1)
            if any(codes) or cs["oracle"]:
                flagged.append((cs, codes))
    for cs in cases[:1] + cases[-1:]:
        rep.sample(dict(tree=cs["tree"], scope=cs["scope"], clt=cs["ctab"].brief(), implementation_pc=cs["ptab"].brief()))
    for cs, codes in flagged[:5]:
        rep.violation(dict(kind="model-implementation-disagreement" if any(codes) else "property-oracle-failed",
                           tree=cs["tree"], scope=cs["scope"], clt=cs["ctab"].brief(), implementation_pc=cs["ptab"].brief(),
                           header_flags=codes[0] if codes else None, row_flags=codes[1:] if codes else None, oracle=cs["oracle"],
                           note="header: 1 structure differs, 2 model circuit invalid, 4 not structured decomposable, 8 node count; "
                                "rows: 1 model circuit <> model tree, 2 implementation PC differs, 4 implementation CLT differs, 8 not deterministic"),
                      True)
    if replay:
        print(open(replay).read()[:3000])
    rep.cov["rule"] = (f"every predecessor vector over 1..{nmax} variables ({n_exh}) + random trees with 5-7 variables, random dyadic CPTs (25% with a deterministic row), "
                       "scope relabellings (contiguous / non-contiguous / permuted); rows = every subset of variables missing (<=48 sampled); "
                       "one evaluation = one tree whose converted circuit and values are compared inside Coq; non-trivial = more than one variable; distinct by tree+scope+CPT hash")
    C.clean_gen(PID)
    return rep.finish("proof")
