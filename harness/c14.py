"""C14 — EM keeps the model valid and applies the exact expected-statistics update.
Proof: Properties/C14.v.  Tie: `expectation_maximization` from /repo on random valid DAGs with
Bernoulli / Categorical / Gaussian / Chow-Liu leaves; a RandomState subclass records the sampled
batches and the initialisation draws and snapshots the parameters at every `choice` call (= before
every iteration), so EVERY prefix of the iteration sequence is observed; after each iteration all
parameters are compared inside Coq with Model/Em.v run at Qc on the same batch (engine E1).
Direct oracle: validity + structure scan after every iteration, and responsibilities recomputed by
enumeration of induced trees (sum-node indicator assignments) on small circuits."""
import copy, math, itertools, json
from fractions import Fraction
import numpy as np
from . import common as C
from . import circuits as G

PID = "C14"
HEADER = ["From Coq Require Import List ZArith QArith Qcanon.",
          "From DV Require Import Model.Core Model.Clt Model.Leaves Model.QcInst Model.Em Model.EmRun.",
          "Import ListNotations. Open Scope Z_scope."]
ALPHA = 2.0 ** -10      # np.finfo(np.float16).eps
EPS32 = 2.0 ** -23      # np.finfo(np.float32).eps


# ------------------------------------------------------------------ recording random state
class RecState(np.random.RandomState):
    """records dirichlet / rand / randn / choice results; `on_choice` is called before a batch is
    drawn, i.e. after the initialisation and between iterations."""
    def __init__(self, seed):
        super().__init__(seed)
        self.log = []
        self.on_choice = None

    def dirichlet(self, *a, **k):
        r = super().dirichlet(*a, **k); self.log.append(("dirichlet", np.array(r, dtype=np.float64))); return r

    def rand(self, *a):
        r = super().rand(*a); self.log.append(("rand", np.array(r, dtype=np.float64))); return r

    def randn(self, *a):
        r = super().randn(*a); self.log.append(("randn", np.array(r, dtype=np.float64))); return r

    def choice(self, *a, **k):
        if self.on_choice:
            self.on_choice()
        r = super().choice(*a, **k); self.log.append(("choice", np.array(r))); return r


# ------------------------------------------------------------------ parameters of the implementation
def kind_of(o):
    from deeprob.spn.structure.leaf import Bernoulli, Categorical, Gaussian
    from deeprob.spn.structure.node import Sum, Product
    from deeprob.spn.structure.cltree import BinaryCLT
    for cls, k in ((Sum, "sum"), (Product, "prod"), (Bernoulli, "bern"), (Categorical, "cat"),
                   (Gaussian, "gauss"), (BinaryCLT, "clt")):
        if isinstance(o, cls):
            return k
    raise TypeError(type(o).__name__)


def get_params(o, exact_clt=False):
    """flat float64 parameter vector of one node (CLT tables in the linear domain)."""
    k = kind_of(o)
    if k == "sum":
        return [float(w) for w in np.asarray(o.weights).reshape(-1)]
    if k == "prod":
        return []
    if k == "bern":
        return [float(o.p)]
    if k == "cat":
        return [float(p) for p in np.asarray(o.probabilities).reshape(-1)]
    if k == "gauss":
        return [float(o.mean), float(o.stddev)]
    if exact_clt and getattr(o, "_verif_probs", None) is not None:
        return [float(x) for x in np.asarray(o._verif_probs).reshape(-1)]
    # BinaryCLT.em_step itself works with np.exp(self.params) in float32
    return [float(x) for x in np.exp(np.asarray(o.params, dtype=np.float32)).reshape(-1)]


def snapshot(objs, exact_clt=False):
    return [get_params(o, exact_clt) for o in objs]


def structure(objs):
    pos = {id(o): i for i, o in enumerate(objs)}
    out = []
    for o in objs:
        k = kind_of(o)
        extra = None
        if k == "cat":
            extra = [int(c) for c in o.categories]
        if k == "clt":
            extra = ([int(t) for t in o.tree], int(o.root))
        out.append((k, int(o.id), [int(v) for v in o.scope], [pos[id(c)] for c in o.children], extra))
    return out


def validity_scan(objs, snap, tol=1e-4):
    """direct oracle, part 1: the parameters are finite and inside their domains."""
    bad = []
    for i, (o, p) in enumerate(zip(objs, snap)):
        k = kind_of(o)
        if not all(math.isfinite(x) for x in p):
            bad.append((i, k, "non-finite parameter")); continue
        if k == "sum":
            if min(p) < 0 or abs(sum(p) - 1) > tol or len(p) != len(o.children):
                bad.append((i, k, f"weights off the simplex: sum={sum(p)!r} min={min(p)!r}"))
        elif k == "bern":
            if not 0.0 <= p[0] <= 1.0:
                bad.append((i, k, f"p={p[0]!r}"))
        elif k == "cat":
            if min(p) < 0 or abs(sum(p) - 1) > tol or len(p) != len(o.categories):
                bad.append((i, k, f"probabilities off the simplex: sum={sum(p)!r}"))
        elif k == "gauss":
            if not p[1] > 0:
                bad.append((i, k, f"stddev={p[1]!r}"))
        elif k == "clt":
            a = np.array(p).reshape(-1, 2)
            if a.min() < 0 or np.abs(a.sum(axis=1) - 1).max() > tol or len(p) != 4 * len(o.scope):
                bad.append((i, k, f"CPT rows not normalised: {a.sum(axis=1).tolist()}"))
    return bad


# ------------------------------------------------------------------ model literals
def etable_coq(objs, snap):
    pos = {id(o): i for i, o in enumerate(objs)}
    items = []
    for o, p in zip(objs, snap):
        k = kind_of(o)
        sc = C.natlist([int(v) for v in o.scope]); ks = C.natlist([pos[id(c)] for c in o.children])
        ql = lambda xs: C.coq_list([C.qlit(x) for x in xs])
        if k == "sum":
            kd = f"(KSum {ql(p)})"
        elif k == "prod":
            kd = "KProd"
        elif k == "bern":
            kd = f"(KLeaf (EBern {int(o.scope[0])}%nat {C.qlit(p[0])}))"
        elif k == "cat":
            kd = f"(KLeaf (ECat {int(o.scope[0])}%nat {C.coq_list([C.zlit(c) for c in o.categories])} {ql(p)}))"
        elif k == "gauss":
            kd = f"(KLeaf (EGauss {int(o.scope[0])}%nat {C.qlit(p[0])} {C.qlit(p[1])}))"
        else:
            par = C.coq_list(["None" if t < 0 else f"(Some {int(t)}%nat)" for t in o.tree])
            n = len(o.scope)
            cpt = C.coq_list([C.coq_list([ql(p[4 * i + 2 * l: 4 * i + 2 * l + 2]) for l in (0, 1)]) for i in range(n)])
            kd = f"(KLeaf (EClt (Build_clt {sc} {par} {cpt})))"
        items.append(f"Build_node {kd} {sc} {ks}")
    return "[" + ";\n  ".join(items) + "]"


def exp_coq(snap):
    return C.coq_list([C.coq_list([C.qlit(x) for x in p]) for p in snap])


def exactly_normalised(objs, snap):
    for o, p in zip(objs, snap):
        k = kind_of(o)
        if k in ("sum", "cat") and sum(Fraction(x) for x in p) != 1:
            return False
        if k == "clt" and any(Fraction(p[j]) + Fraction(p[j + 1]) != 1 for j in range(0, len(p), 2)):
            return False
    return True


class Setup:
    """one circuit + data set + the coding of the data for the model."""
    def __init__(self, root, rs, n_rows):
        self.root = root
        self.objs = G.post_order(root)
        self.kinds = {}
        self.cats = {}
        for o in self.objs:
            k = kind_of(o)
            if k in ("bern", "cat", "gauss"):
                self.kinds[int(o.scope[0])] = k
                if k == "cat":
                    self.cats[int(o.scope[0])] = [int(c) for c in o.categories]
            elif k == "clt":
                for v in o.scope:
                    self.kinds[int(v)] = "bern"
        self.scope = sorted(int(v) for v in root.scope)
        self.width = max(self.scope) + 1
        # test points of a continuous variable: quarter units around 0, or — when its leaves sit far from the origin (gen_root
        # shifts some variables by 20..40) — integers around their centre, so that the column can also be stored in a narrow
        # integer dtype
        from deeprob.spn.structure.leaf import Gaussian as _Ga
        centre = {}
        for o in self.objs:
            if isinstance(o, _Ga):
                centre.setdefault(int(o.scope[0]), []).append(float(o.mean))
        self.points = {}
        for v in self.scope:
            if self.kinds[v] == "gauss":
                c = int(round(float(np.mean(centre.get(v, [0.0])))))
                if c >= 10:
                    self.points[v] = sorted(set(float(c + x) for x in rs.randint(-3, 4, size=6)))
                else:
                    self.points[v] = sorted(set(float(x) for x in rs.randint(-12, 13, size=6) / 4.0))
        codes = np.zeros((n_rows, self.width), dtype=np.int64)
        data = np.zeros((n_rows, self.width), dtype=np.float32)
        for v in self.scope:
            k = self.kinds[v]
            if k == "bern":
                codes[:, v] = rs.randint(0, 2, size=n_rows); data[:, v] = codes[:, v]
            elif k == "cat":
                codes[:, v] = rs.choice(self.cats[v], size=n_rows); data[:, v] = codes[:, v]
            else:
                codes[:, v] = rs.randint(0, len(self.points[v]), size=n_rows)
                data[:, v] = np.array(self.points[v])[codes[:, v]]
        self.codes, self.data = codes, data

    def doms_coq(self):
        items = []
        for v in self.scope:
            k = self.kinds[v]
            if k == "bern":
                items.append(f"({v}%nat, [0%Z; 1%Z])")
            elif k == "cat":
                items.append(f"({v}%nat, {C.coq_list([C.zlit(c) for c in self.cats[v]])})")
        return C.coq_list(items)

    def cont_coq(self):
        return C.natlist([v for v in self.scope if self.kinds[v] == "gauss"])

    def xs_coq(self):
        return C.coq_list([f"({v}%nat, {C.coq_list([C.qlit(x) for x in pts])})" for v, pts in sorted(self.points.items())])

    def rows_coq(self, idx):
        out = []
        for i in idx:
            out.append(G.row_coq({v: int(self.codes[i, v]) for v in self.scope}, self.width))
        return C.coq_list(out)

    def gd_coq(self, objs, snap):
        items = []
        for o, p in zip(objs, snap):
            if kind_of(o) == "gauss":
                v = int(o.scope[0])
                ds = [gauss_pdf_frac(x, p[0], p[1]) for x in self.points[v]]
                if any(d is None for d in ds):
                    return None
                tab = C.coq_list([f"({C.zlit(c)}, {C.qlit(d)})" for c, d in enumerate(ds)])
                items.append(f"(({C.qlit(p[0])}, {C.qlit(p[1])}, {v}%nat), {tab})")
        return C.coq_list(items)


# ------------------------------------------------------------------ direct oracle, part 2
def round_bits(x, bits=20):
    """x rounded to `bits` significant bits (keeps the exact rationals of the model run small)."""
    if x == 0.0 or not math.isfinite(x):
        return x
    m, e = math.frexp(x)
    return math.ldexp(round(m * 2 ** bits) / 2 ** bits, e)


def gauss_pdf_frac(x, mu, sd):
    """N(mu, sd^2) density at x as an exact rational m * 2^k (m rounded to 20 bits): computed through the
    logarithm so that densities far below the float64 range (narrow leaves, distant points) do not
    underflow to 0 — the library works in the log-domain and has no such underflow."""
    a = -0.5 * ((x - mu) / sd) ** 2 - math.log(sd) - 0.5 * math.log(2.0 * math.pi)
    k = math.floor(a / math.log(2.0))
    if k < -4000:
        return None   # outside the range the linear-domain model run can represent
    m = round_bits(math.exp(a - k * math.log(2.0)))
    return Fraction(m) * (Fraction(2) ** k)


def leaf_lik(o, p, row):
    """independent likelihood of a leaf with parameter vector p on one complete data row."""
    k = kind_of(o)
    if k == "bern":
        x = row[int(o.scope[0])]
        return p[0] if x == 1 else (1.0 - p[0] if x == 0 else 0.0)
    if k == "cat":
        x = row[int(o.scope[0])]
        return sum(q for c, q in zip(o.categories, p) if int(c) == int(x))
    if k == "gauss":
        return G.gauss_pdf(float(row[int(o.scope[0])]), p[0], p[1])
    a = np.array(p).reshape(-1, 2, 2); r = 1.0
    for i, v in enumerate(o.scope):
        pa = int(o.tree[i])
        l = int(row[int(o.scope[pa])]) if pa >= 0 else 0
        r *= a[i, l, int(row[int(v)])]
    return r


def enum_responsibilities(objs, snap, rows, limit=4000):
    """posterior responsibilities by enumeration of the induced trees: for every assignment of one
    child to each sum node (unreached sums pinned to child 0) the tree's value is the product of the
    chosen weights and the reached leaves.  Returns (edge[i][k], reach[i]) summed... per row lists,
    or None when the enumeration is too large."""
    pos = {id(o): i for i, o in enumerate(objs)}
    kids = [[pos[id(c)] for c in o.children] for o in objs]
    kinds = [kind_of(o) for o in objs]
    sums = [i for i, k in enumerate(kinds) if k == "sum"]
    total = 1
    for i in sums:
        total *= len(kids[i])
    if total > limit:
        return None
    n = len(objs); rootpos = n - 1
    edge = [[[0.0] * len(kids[i]) for i in range(n)] for _ in rows]
    reach = [[0.0] * n for _ in rows]
    for z in itertools.product(*[range(len(kids[i])) for i in sums]):
        zz = dict(zip(sums, z))
        # reached set
        seen = []; stack = [rootpos]
        while stack:
            i = stack.pop(); seen.append(i)
            if kinds[i] == "sum":
                stack.append(kids[i][zz[i]])
            elif kinds[i] == "prod":
                stack.extend(kids[i])
        ss = set(seen)
        if any(zz[i] != 0 for i in sums if i not in ss):
            continue
        for ri, row in enumerate(rows):
            val = 1.0
            for i in seen:
                if kinds[i] == "sum":
                    val *= snap[i][zz[i]]
                elif kinds[i] != "prod":
                    val *= leaf_lik(objs[i], snap[i], row)
            for i in seen:
                reach[ri][i] += val
                if kinds[i] == "sum":
                    edge[ri][i][zz[i]] += val
    for ri in range(len(rows)):
        tot = reach[ri][rootpos]
        if tot <= 0:
            return None
        reach[ri] = [x / tot for x in reach[ri]]
        edge[ri] = [[x / tot for x in e] for e in edge[ri]]
    return edge, reach


def oracle_step(objs, snap, data_rows, eta):
    """expected parameters after one iteration from the enumerated responsibilities (sums,
    Bernoulli, Categorical, Gaussian; CLT leaves -> None)."""
    r = enum_responsibilities(objs, snap, data_rows)
    if r is None:
        return None
    edge, reach = r
    out = []
    for i, (o, p) in enumerate(zip(objs, snap)):
        k = kind_of(o)
        if k == "sum":
            u = [sum(edge[ri][i][c] for ri in range(len(data_rows))) + EPS32 for c in range(len(p))]
            out.append([(1 - eta) * w + eta * x / sum(u) for w, x in zip(p, u)])
        elif k == "prod":
            out.append([])
        elif k == "clt":
            out.append(None)
        else:
            st = [reach[ri][i] for ri in range(len(data_rows))]
            xs = [float(row[int(o.scope[0])]) for row in data_rows]
            tot = sum(st)
            if k == "bern":
                e = (sum(s * x for s, x in zip(st, xs)) + ALPHA) / (tot + 2 * ALPHA)
                out.append([(1 - eta) * p[0] + eta * e])
            elif k == "cat":
                K = len(p)
                es = [(sum(s for s, x in zip(st, xs) if int(x) == int(c)) + ALPHA) / (tot + K * ALPHA) for c in o.categories]
                out.append([(1 - eta) * q + eta * e for q, e in zip(p, es)])
            else:
                t2 = tot + EPS32
                m = sum(s * x for s, x in zip(st, xs)) / t2
                sd = max(math.sqrt(sum(s * (x - m) ** 2 for s, x in zip(st, xs)) / t2), 1e-5)
                out.append([(1 - eta) * p[0] + eta * m, (1 - eta) * p[1] + eta * sd])
    return out


def oracle_compare(objs, before, after, data_rows, eta, rel=2e-3, abs_=1e-6):
    exp = oracle_step(objs, before, data_rows, eta)
    if exp is None:
        return None, []
    bad = []
    for i, (e, a) in enumerate(zip(exp, after)):
        if e is None:
            continue
        if len(e) != len(a) or any(abs(x - y) > rel * abs(x) + abs_ for x, y in zip(e, a)):
            bad.append(dict(node=i, kind=kind_of(objs[i]), oracle_expected=e, implementation=a))
    return exp, bad


# ------------------------------------------------------------------ generation
def gen_root(rs, idx, tier):
    from deeprob.spn.structure.node import assign_ids
    from deeprob.spn.structure.leaf import Bernoulli
    kinds = [("bern",), ("bern", "cat"), ("gauss",), ("bern", "gauss", "cat"), ("bern",), ("cat", "gauss")][idx % 6]
    clt = [0.5, 0.25, 0.0, 0.2, 0.0, 0.0][idx % 6]
    while True:
        nv = int(rs.randint(1, 5 if tier == "quick" else 6))
        scope = G.rand_scope(rs, nv, spread=2)
        root = G.rand_circuit(rs, scope, kinds=kinds, clt=clt, share=0.35, maxdepth=3 if tier == "quick" else 4)
        objs = G.post_order(root)
        if len(objs) <= (22 if tier == "quick" else 30):
            break
    for o in objs:   # strictly positive likelihoods: EM's responsibilities are undefined on zero-probability rows
        if isinstance(o, Bernoulli) and o.p in (0.0, 1.0):
            o.p = 1.0 / 16 if o.p == 0.0 else 15.0 / 16
    from deeprob.spn.structure.leaf import Gaussian as _Ga
    gv = sorted({int(o.scope[0]) for o in objs if isinstance(o, _Ga)})
    for v in gv:
        if rs.rand() < 0.4:
            off = float(rs.randint(20, 41))          # a continuous variable far from the origin (a count, an age, a temperature)
            for o in objs:
                if isinstance(o, _Ga) and int(o.scope[0]) == v:
                    o.mean = float(o.mean) + off
    assign_ids(root)
    if rs.rand() < 0.35:
        # sums of equal arity start from ONE weight array object (a circuit built by hand from a common initial vector);
        # the constructor stores an ndarray as given, so the nodes alias the caller's storage
        from deeprob.spn.structure.node import Sum
        by_arity = {}
        for o in objs:
            if isinstance(o, Sum):
                by_arity.setdefault(len(o.children), []).append(o)
        for grp in by_arity.values():
            if len(grp) >= 2:
                buf = np.array(grp[int(rs.randint(len(grp)))].weights, dtype=np.float32, copy=True)
                for o in grp:
                    o.weights = buf
    if rs.rand() < 0.5:
        perm = rs.permutation(len(objs))
        for o, i in zip(objs, perm):
            o.id = int(i)
    return root


def run_em(root, data, n_iter, bp, eta, rinit, seed, one_call):
    """returns (snapshots S_0..S_n, batches, log, objs); S_0 = state before the first iteration
    (after the random initialisation when rinit)."""
    from deeprob.spn.learning.em import expectation_maximization
    root = copy.deepcopy(root)
    objs = G.post_order(root)
    st = RecState(seed)
    snaps = []
    if one_call:
        st.on_choice = lambda: snaps.append(snapshot(objs, exact_clt=(not rinit and len(snaps) == 0)))
        with np.errstate(all="ignore"):
            expectation_maximization(root, data, num_iter=n_iter, batch_perc=bp, step_size=eta,
                                     random_init=rinit, random_state=st, verbose=False)
        snaps.append(snapshot(objs))
    else:
        for k in range(n_iter):
            if k == 0:
                st.on_choice = lambda: snaps.append(snapshot(objs, exact_clt=not rinit))
            else:
                st.on_choice = None
            with np.errstate(all="ignore"):
                expectation_maximization(root, data, num_iter=1, batch_perc=bp, step_size=eta,
                                         random_init=(rinit and k == 0), random_state=st, verbose=False)
            snaps.append(snapshot(objs))
    batches = [r for m, r in st.log if m == "choice"]
    return snaps, batches, st.log, objs, root


def draws_coq(objs, root, log):
    """pair the recorded initialisation draws with the nodes in the order the code makes them."""
    from deeprob.spn.utils.filter import filter_nodes_by_type
    from deeprob.spn.structure.node import Sum
    from deeprob.spn.structure.leaf import Leaf
    pos = {id(o): i for i, o in enumerate(objs)}
    calls = [(m, r) for m, r in log if m != "choice"]
    out = ["None"] * len(objs)
    ql = lambda xs: C.coq_list([C.qlit(float(x)) for x in xs])
    it = iter(calls)
    def nxt(name):
        m, r = next(it)
        if m != name:
            raise RuntimeError(f"unexpected draw {m}, wanted {name}")
        return r
    for o in filter_nodes_by_type(root, Sum):
        # the code casts the dirichlet draw to float32
        out[pos[id(o)]] = f"(Some (DVec {ql(np.asarray(nxt('dirichlet')).astype(np.float32))}))"
    for o in filter_nodes_by_type(root, Leaf):
        k = kind_of(o)
        if k == "bern":
            out[pos[id(o)]] = f"(Some (DOne {C.qlit(float(nxt('rand')))}))"
        elif k == "cat":
            out[pos[id(o)]] = f"(Some (DVec {ql(nxt('dirichlet'))}))"
        elif k == "gauss":
            z = float(nxt("randn")); z2 = float(nxt("randn"))
            out[pos[id(o)]] = f"(Some (DGauss {C.qlit(z)} {C.qlit(math.tanh(z2))}))"
        else:
            r = np.asarray(nxt("rand")).reshape(-1, 2)
            prs = C.coq_list([f"({C.qlit(float(a))}, {C.qlit(float(b))})" for a, b in r])
            out[pos[id(o)]] = f"(Some (DClt {prs}))"
    if next(it, None) is not None:
        raise RuntimeError("unconsumed initialisation draws")
    return C.coq_list(out)


# ------------------------------------------------------------------ main
def main(tier, seed, replay=None):
    rep = C.Report(PID, tier, seed)
    rs = np.random.RandomState(seed % (2 ** 31))
    C.proof_stage(rep, PID)
    rep.cov["trusted_base"] += [
        "harness/c14.py: object -> Model/Em.v table mapping, data coding (continuous values as codes into a point table), "
        "the RandomState subclass that records draws and snapshots the parameters at every `choice` call",
        "Gaussian densities of the forward pass are an oracle input (math.exp in the harness, not the library's scipy call); "
        "sqrt in the model run is a rational approximation with relative error < 2^-39; tanh of the initialisation is an oracle",
        "tolerances: relative 1e-3 + 1e-7 absolute per parameter per iteration (float32 implementation vs exact rationals); "
        "chained model runs 5e-3",
        "complete data only (EM on rows with NaN is outside the model); strictly positive leaf parameters (zero-probability rows excluded)"]
    ncirc = 150 if tier == "quick" else 900
    files = []; metas = []
    body = list(HEADER); names = []; cur = []
    dist = dict(circuits=0, iterations=0, random_init=0, given_init=0, leaf_kinds={}, nodes=[], batch_sizes={}, etas=[],
                chained=0, oracle_checked_iterations=0, skipped_density_below_model_range=0)

    def flush():
        nonlocal body, names, cur
        if names:
            body.append("Eval vm_compute in (concat (map (fun l => (-1)%Z :: l) [" + "; ".join(names) + "])).")
            files.append((f"cases_{len(files)}", "\n".join(body))); metas.append(cur)
        body = list(HEADER); names = []; cur = []

    for ci in range(ncirc):
        root = gen_root(rs, ci, tier)
        n_rows = int(rs.randint(12, 41))
        S = Setup(root, rs, n_rows)
        n_iter = int(rs.randint(2, 5 if tier == "quick" else 9))
        bsize = int(rs.randint(3, min(n_rows - 1, 12) + 1))
        bp = (bsize + 0.5) / n_rows
        eta = float(rs.randint(1, 16) / 16.0) if rs.rand() < 0.7 else float(np.round(rs.uniform(0.02, 0.98), 3))
        rinit = bool(ci % 3 == 1)
        em_seed = int(rs.randint(0, 2 ** 31 - 1))
        st0 = structure(S.objs)
        try:
            snaps, batches, log, objs, r1 = run_em(root, S.data, n_iter, bp, eta, rinit, em_seed, one_call=True)
            snaps2, batches2, _, objs2, _ = run_em(root, S.data, n_iter, bp, eta, rinit, em_seed, one_call=False)
        except Exception as e:   # the routine must accept every valid circuit
            rep.violation(dict(kind="em-raised", error=repr(e), circuit=structure(S.objs), eta=eta, batch_perc=bp), True)
            continue
        info = dict(circuit=[(k, sc, ks, ex) for k, _, sc, ks, ex in st0], eta=eta, batch_perc=bp, n_iter=n_iter,
                    random_init=rinit, em_seed=em_seed, data=S.data[:, S.scope].tolist(), scope=S.scope)
        dist["circuits"] += 1; dist["iterations"] += n_iter
        dist["random_init" if rinit else "given_init"] += 1
        dist["nodes"].append(len(objs)); dist["etas"].append(eta)
        for o in objs:
            dist["leaf_kinds"][kind_of(o)] = dist["leaf_kinds"].get(kind_of(o), 0) + 1
        # --- correspondence-only clauses: every prefix, structure, validity
        if len(snaps) != n_iter + 1 or len(batches) != n_iter or any(len(b) != int(bp * n_rows) for b in batches):
            rep.violation(dict(info, kind="iteration-or-batch-count", got=[len(b) for b in batches]), True); continue
        # prefixes: n calls with num_iter=1 on one random state give the same sequence of states
        # (snaps2 has no separate S_0 entry after the first hook: index shift by construction)
        seq2 = snaps2
        if len(seq2) != n_iter + 1 or any(not np.allclose(np.concatenate([np.ravel(x) for x in a] + [[0.0]]),
                                                           np.concatenate([np.ravel(x) for x in b] + [[0.0]]), rtol=1e-6, atol=1e-9)
                                          for a, b in zip(snaps, seq2)):
            rep.violation(dict(info, kind="prefix-mismatch", what="num_iter=n differs from n calls with num_iter=1 on the same random state"), True)
            continue
        # the same run on the same numbers stored in another dtype (float64; integer dtypes when every entry is integral)
        alt = [np.float64]
        if np.all(S.data == np.round(S.data)):
            alt += [np.int64, np.uint8 if (S.data.min() >= 0 and S.data.max() <= 255) else np.int16]
        flat = lambda sn: np.concatenate([np.ravel(np.asarray(x, dtype=np.float64)) for x in sn] + [[0.0]])
        bad_dt = None
        # (a Gaussian component that has collapsed onto a few data points — standard deviation below 1e-2 — makes the
        # responsibilities ill-conditioned: double and single precision then legitimately part ways; such runs are not compared)
        collapsed = any(kind_of(o) == "gauss" and float(np.ravel(sn[j])[1]) < 1e-2 for sn in snaps for j, o in enumerate(objs))
        if collapsed:
            alt = []; dist["dtype_twins_skipped_collapsed"] = dist.get("dtype_twins_skipped_collapsed", 0) + 1
        for dt in alt:
            try:
                snaps3, batches3, _, _, _ = run_em(root, S.data.astype(dt), n_iter, bp, eta, rinit, em_seed, one_call=True)
                if len(snaps3) != len(snaps) or len(batches3) != len(batches) or any(not np.array_equal(a_, b_) for a_, b_ in zip(batches, batches3)) or any(
                        not np.allclose(flat(a), flat(b), rtol=2e-2, atol=1e-3) for a, b in zip(snaps, snaps3)):
                    k3 = next((k for k, (a, b) in enumerate(zip(snaps, snaps3)) if not np.allclose(flat(a), flat(b), rtol=2e-2, atol=1e-3)), None)
                    bad_dt = dict(dtype=np.dtype(dt).name, first_differing_state=k3,
                                  as_float32=None if k3 is None else snaps[k3], as_this_dtype=None if k3 is None else snaps3[k3])
            except Exception as e:
                bad_dt = dict(dtype=np.dtype(dt).name, error=f"{type(e).__name__}: {e}")
            if bad_dt:
                break
        dist["dtype_twins"] = dist.get("dtype_twins", 0) + len(alt)
        if bad_dt:
            dist["dtype_viol"] = dist.get("dtype_viol", 0) + 1
            if dist["dtype_viol"] <= 3:
                rep.violation(dict(info, kind="em-depends-on-the-dtype-the-data-is-stored-in", **bad_dt), True)
            continue
        if structure(objs) != st0 or structure(objs2) != st0:
            rep.violation(dict(info, kind="structure-changed", before=st0, after=structure(objs)), True); continue
        broke = False
        for k, sn in enumerate(snaps):
            bad = validity_scan(objs, sn)
            if bad:
                rep.violation(dict(info, kind="invalid-parameters", after_iteration=k, nodes=bad, parameters=sn), True); broke = True; break
        if broke:
            continue
        # --- direct oracle on small circuits (independent responsibilities by enumeration); a
        # disagreement is reported after the model comparison (so that both verdicts are in the replay)
        orc = {}
        for k in range(n_iter):
            rows = [S.data[j] for j in batches[k]]
            exp, bad = oracle_compare(objs, snaps[k], snaps[k + 1], rows, eta)
            if exp is not None:
                dist["oracle_checked_iterations"] += 1
                orc[k + 1] = bad
        # --- model cases
        base = f"c{ci}"
        if rinit:
            pre = snapshot(S.objs, exact_clt=True)
            try:
                ds = draws_coq(objs, r1, log)
            except Exception as e:
                rep.violation(dict(info, kind="initialisation-draws-unexpected", error=repr(e)), False); continue
            body.append(f"Definition {base}_i := run_icase (Build_icase\n  {etable_coq(objs, pre)}\n  {ds}\n  {exp_coq(snaps[0])}).")
            names.append(f"{base}_i"); cur.append(dict(info=info, what="init", objs=objs, before=pre, after=snaps[0], k=0))
        for k in range(n_iter):
            exact = exactly_normalised(objs, snaps[k]) and not S.points
            gd = S.gd_coq(objs, snaps[k])
            if gd is None:   # a Gaussian leaf so narrow that a data point's density is below 2^-4000
                dist["skipped_density_below_model_range"] += 1
                continue
            body.append(f"Definition {base}_{k} := run_ecase (Build_ecase\n  {etable_coq(objs, snaps[k])}\n  {S.xs_coq()}\n  {gd}\n"
                        f"  {C.qlit(eta)} {S.rows_coq(batches[k])}\n  {exp_coq(snaps[k + 1])}\n  {'false' if exact else 'true'} {'true' if exact else 'false'} {S.doms_coq()} {S.cont_coq()}).")
            names.append(f"{base}_{k}")
            cur.append(dict(info=info, what="iteration", objs=objs, before=snaps[k], after=snaps[k + 1], k=k + 1,
                            batch=[int(j) for j in batches[k]], rows=[S.data[j] for j in batches[k]], eta=eta, exact=exact,
                            oracle_bad=orc.get(k + 1)))
            dist["batch_sizes"][len(batches[k])] = dist["batch_sizes"].get(len(batches[k]), 0) + 1
        if (not rinit and not S.points and len(objs) <= 10 and len(batches[0]) <= 8 and exactly_normalised(objs, snaps[0])
                and not any(kind_of(o) == "clt" for o in objs)):
            # the exact rationals grow quickly: chain the first two iterations only
            bs = C.coq_list([S.rows_coq(b) for b in batches[:2]])
            body.append(f"Definition {base}_ch := run_ccase (Build_ccase\n  {etable_coq(objs, snaps[0])}\n  {C.qlit(eta)} {bs}\n  {exp_coq(snaps[2])} {S.doms_coq()}).")
            names.append(f"{base}_ch"); cur.append(dict(info=info, what="chain", objs=objs, before=snaps[0], after=snaps[2], k=2))
            dist["chained"] += 1
        if len(names) >= 6:
            flush()
    flush()
    dist["nodes"] = dict(min=min(dist["nodes"] or [0]), max=max(dist["nodes"] or [0]), mean=float(np.mean(dist["nodes"] or [0])))
    dist["etas"] = dict(min=min(dist["etas"] or [0]), max=max(dist["etas"] or [0]))
    rep.cov["input_distribution"] = dist
    res = C.run_case_files(PID, files)
    nviol = 0
    for (name, rc, ints, raw), meta in zip(res, metas):
        if rc != 0 or ints is None:
            rep.obligation(False); rep.violation(dict(kind="correspondence-shard-failed", shard=name, log=raw), False); continue
        rep.obligation(True)
        groups = []
        for z in ints:
            if z == -1:
                groups.append([])
            else:
                groups[-1].append(z)
        if len(groups) != len(meta):
            rep.violation(dict(kind="correspondence-shard-malformed", shard=name), False); continue
        for cs, codes in zip(meta, groups):
            nontriv = cs["what"] == "iteration" and any(kind_of(o) != "prod" for o in cs["objs"])
            rep.count(dict(c=cs["info"]["circuit"], s=cs["info"]["em_seed"], k=cs["k"], w=cs["what"]), nontrivial=nontriv)
            if any(codes) and nviol < 5:
                nviol += 1
                v = dict(cs["info"], kind="model-implementation-disagreement", stage=cs["what"], iteration=cs["k"],
                         codes=codes, header=dict(model_result_invalid=bool(codes[0] == 64), length_mismatch=bool(codes[1] == 32)),
                         nodes_differing=[i for i, c in enumerate(codes[2:]) if c], before=cs["before"], implementation_after=cs["after"],
                         batch=cs.get("batch"))
                if cs["what"] == "iteration":
                    exp, bad = oracle_compare(cs["objs"], cs["before"], cs["after"], cs["rows"], cs["eta"])
                    v["oracle"] = dict(available=exp is not None, expected=exp, nodes_differing=bad)
                rep.violation(v, True)
            elif cs.get("oracle_bad") and nviol < 5:
                nviol += 1
                rep.violation(dict(cs["info"], kind="update-differs-from-enumerated-responsibilities", iteration=cs["k"], batch=cs.get("batch"),
                                   note="the model agrees with the implementation here; the independent enumeration does not",
                                   before=cs["before"], implementation_after=cs["after"], nodes=cs["oracle_bad"]), True)
    for m in metas[:1] + metas[-1:]:
        for cs in m[:1]:
            rep.sample(dict(stage=cs["what"], iteration=cs["k"], circuit=cs["info"]["circuit"], eta=cs["info"]["eta"],
                            before=cs["before"], after=cs["after"]))
    if replay:
        print(open(replay).read()[:3000])
    rep.cov["rule"] = ("random valid DAGs (<= 22 nodes quick / 30 thorough, 1-5 variables) with Bernoulli / Categorical / Gaussian / Chow-Liu leaves and "
                       "strictly positive parameters; complete data sets of 12-40 rows (Gaussian cells from 6 points per variable); step size k/16 or "
                       "uniform in (0.02,0.98); batch of 3-12 rows; 2-4 (quick) / 2-8 (thorough) iterations; every third circuit with random_init=True; "
                       "one evaluation = one (circuit, random state, iteration) whose complete parameter vector after the iteration is compared "
                       "inside Coq with Model/Em.v on the same batch, plus one per initialisation and per chained run; distinct by circuit+seed+iteration hash")
    C.clean_gen(PID)
    return rep.finish("proof")
