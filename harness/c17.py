"""C17 — DGC-SPNs are smooth, decomposable and normalised for every configuration.
Proof: Properties/C17.v (constructor arithmetic, usage counts of every pixel in every induced
sub-circuit, closed-form scopes, decomposability, all-missing = 1, single-pixel marginalisation).
Tie (engine E1, model = coq/Model/Dgc.v run by vm_compute):
  * constructor: accept/reject and (kind, in/out features, pad, stride, dilation, depthwise) of every
    layer of DgcSpn(...) against `build`;
  * sparse kernels: the 0/1 `weight` buffer of non-depthwise product layers against `kernel_w`;
  * induced sub-circuits: sum/root weights are made one-hot (a random choice of child per sum node), the
    gradient of a class output w.r.t. the base-layer outputs is then the integer usage count of every
    leaf (channel, pixel); compared with `leaves` for the same choices;
  * forward: exp(forward(x)) against `eval_root` at exact rationals (small sides);
direct oracles on the implementation (also run when a tie breaks): with the constructor's random weights
the gradient mass of every pixel is 1 per class, all-NaN input gives log-probability 0, mpe keeps observed
pixels (bitwise) and fills the others with convex combinations of the leaf modes, and the density of 2x2
models integrates to one on a grid."""
import itertools, json, math, os
from fractions import Fraction
import numpy as np
from . import common as C

PID = "C17"
OWN_FILES = ["Model/Dgc.v", "Model/DgcRun.v", "Proofs/DgcFacts.v", "Proofs/DgcGeom.v", "Proofs/DgcEval.v", "Proofs/DgcMain.v", "Model/DgcAsg.v", "Proofs/DgcNorm.v"]


# ---------------------------------------------------------------- build of the property's own files
def pre_build():
    """The C17 files may not be listed in _CoqProject yet: compile the stale ones here (dependency
    order).  Files that _CoqProject lists are left to `make`."""
    ok, log = C.build_coq()
    if not ok:
        return None  # proof_stage reports the broken build itself
    proj = open(os.path.join(C.COQ, "_CoqProject")).read().split()
    stale = False
    with C.Lock(os.path.join(C.COQ, ".build_c17.lock")):
        for f in OWN_FILES:
            src = os.path.join(C.COQ, f)
            if f in proj or not os.path.exists(src):
                continue
            vo = src[:-2] + ".vo"
            if stale or not os.path.exists(vo) or os.path.getmtime(vo) < os.path.getmtime(src):
                stale = True
                rc, out = C.sh(f"timeout 900 coqc -R . DV {f}", cwd=C.COQ, timeout=950)
                if rc != 0:
                    return f"{f} does not compile: {out[-2500:]}"
    return None


# ---------------------------------------------------------------- configurations
def depth_of(D):
    return int(math.ceil(math.log2(D)))


def cfg_coq(g):
    dws = "[" + "; ".join("true" if b else "false" for b in g["dw"]) + "]"
    return (f"(Build_cfg {g['C']} {g['D']} {C.zlit(g['classes'])} {C.zlit(g['batch'])} {C.zlit(g['sumc'])} "
            f"{C.zlit(g['n'])} {dws})")


def zl(l):
    return "[" + "; ".join(C.zlit(v) for v in l) + "]"


def make_model(g, seed):
    import torch
    from deeprob.spn.models.dgcspn import DgcSpn
    torch.manual_seed(seed)
    m = DgcSpn((g["C"], g["D"], g["D"]), out_classes=g["classes"], n_batch=g["batch"], sum_channels=g["sumc"],
               depthwise=list(g["dw"]), n_pooling=g["n"])
    # the constructor's Dirichlet initialisation stores log-probabilities, i.e. weights that are already
    # normalised; move them off that manifold so that normalisation really depends on the layers' softmax
    from deeprob.spn.layers.dgcspn import SpatialSumLayer
    with torch.no_grad():
        for l in list(m.layers) + [m.root_layer]:
            if isinstance(l, SpatialSumLayer) or l is m.root_layer:
                l.weight.add_(0.7 + 0.8 * torch.randn(l.weight.shape))
    m.eval()
    return m


def layer_tuples(m):
    """(tuples bottom first, root in_features, list of inconsistencies seen while reading the modules)."""
    from deeprob.spn.layers.dgcspn import SpatialProductLayer, SpatialSumLayer
    out = []
    bad = []
    j = 0
    for l in m.layers:
        ic, ih, iw = [int(v) for v in l.in_features]
        oc, oh, ow = [int(v) for v in l.out_features]
        if ih != iw or oh != ow:
            bad.append("non-square features")
        if isinstance(l, SpatialProductLayer):
            pl, pr, pt, pb = [int(v) for v in l.pad]
            if not (pl == pt and pr == pb and l.stride[0] == l.stride[1] and l.dilation[0] == l.dilation[1]):
                bad.append("non-square geometry")
            dw = 1 if m.depthwise[j] else 0      # the flag list after the constructor extended it
            if ic > 1 and (l.groups == ic) != bool(dw):
                bad.append("groups inconsistent with the depthwise flag")
            if tuple(l.weight.shape) != (oc, 1 if dw else ic, 2, 2):
                bad.append("kernel shape")
            j += 1
            out.append([0, ic, ih, oc, oh, pl, pr, int(l.stride[0]), int(l.dilation[0]), dw])
        elif isinstance(l, SpatialSumLayer):
            if tuple(l.weight.shape) != (oc, ic, ih, iw):
                bad.append("sum weight shape")
            out.append([1, ic, ih, oc, oh, 0, 0, 0, 0, 0])
        else:
            out.append([9])
    rc, rh, rw = [int(v) for v in m.root_layer.in_features]
    if rh != rw or tuple(m.root_layer.weight.shape) != (m.out_classes, rc * rh * rw):
        bad.append("root shape")
    return out, [rc, rh], bad


def gen_configs(rs, tier):
    """every (side, n_pooling) with 2^n | side, several channel/flag settings each."""
    maxD = 8 if tier == "quick" else 12
    reps = 2 if tier == "quick" else 5
    out = []
    for D in range(2, maxD + 1):
        depth = depth_of(D)
        for n in range(0, depth + 1):
            if D % (2 ** n):
                continue
            for r in range(reps):
                ln = int(rs.randint(1, depth + 2))
                dw = [bool(rs.randint(0, 2)) for _ in range(ln)]
                if r == 0:
                    dw = [False]
                g = dict(C=int(rs.randint(1, 3)), D=D, classes=int(rs.randint(1, 4)), batch=int(rs.randint(1, 3)),
                         sumc=int(rs.randint(1, 3)), n=n, dw=dw)
                if D >= 10 and not all(dw):   # keep C^4 channel blow-up small on the big sides
                    g["batch"] = min(g["batch"], 2)
                out.append(g)
    # wide layers: ONE dense product layer fed by 5-6 channels (5^4 = 625, 6^4 = 1296 output channels), so that the sum layer above
    # it mixes several hundred channels (round 8: a block-wise reduction that normalises the weights per block only shows beyond 256
    # input channels); every other product layer is depthwise, which keeps the network small
    for D, dw, wide_at in ((2, [False, True], "batch"), (4, [False, True], "batch"), (4, [True, False, True], "sumc")):
        k = int(rs.randint(5, 7))
        k = 5 if wide_at == "sumc" else k
        g = dict(C=2 if D == 2 else int(rs.randint(1, 3)),   # (two image channels on side 2: the 37^4-point grid integral is for the small networks)
                 D=D, classes=int(rs.randint(1, 4)), batch=k if wide_at == "batch" else int(rs.randint(1, 3)),
                 sumc=k if wide_at == "sumc" else int(rs.randint(1, 3)), n=(1 if D == 4 else int(rs.randint(0, 2))) if wide_at == "batch" else 0, dw=dw, wide=True)
        out.append(g)
    return out


def gen_side_configs(rs):
    """constructor-only cases: rejected arguments and sides outside the divisibility premise."""
    out = []
    for D in (1, 2, 3, 5, 6, 7, 8, 12):
        depth = depth_of(D)
        base = dict(C=1, D=D, classes=1, batch=1, sumc=2, n=0, dw=[True])
        out += [dict(base, n=depth + 1), dict(base, n=-1), dict(base, dw=[]), dict(base, dw=[True] * (depth + 2)),
                dict(base, classes=0), dict(base, batch=0), dict(base, sumc=0), dict(base, sumc=-1),
                dict(base, dw=[False, True] if depth >= 1 else [False]), dict(base, n=depth)]
        for n in range(1, depth + 1):
            if D % (2 ** n):
                out.append(dict(base, n=n, batch=2, dw=[bool(rs.randint(0, 2))]))
    return out


# ---------------------------------------------------------------- implementation probes
def grad_wrt_base(m, x, k):
    """gradient of class output k w.r.t. the base layer outputs z (shape (batch, D, D))."""
    import torch
    z = m.base_layer(x).detach().requires_grad_(True)
    y = z
    for l in m.layers:
        y = l(y)
    y = m.root_layer(y)
    go = torch.zeros_like(y); go[:, k] = 1.0
    g, = torch.autograd.grad(y, z, grad_outputs=go)
    return g[0].double().numpy()


def direct_oracle(g, seed, rs=None):
    """the property itself, checked on the implementation only.  Returns a failure description or None."""
    import torch
    rs = rs or np.random.RandomState(seed % (2 ** 31))
    try:
        m = make_model(g, seed)
    except Exception as e:  # accepted configuration that cannot be built
        return dict(what="constructor raised on an admissible configuration", error=f"{type(e).__name__}: {e}")
    C_, D = g["C"], g["D"]
    x = torch.tensor(rs.uniform(-2, 2, size=(1, C_, D, D)).round(3), dtype=torch.float32)
    try:
        # (1) every pixel carries gradient mass exactly 1 per class (usage of the pixel in induced sub-circuits)
        for k in range(g["classes"]):
            gr = grad_wrt_base(m, x, k)
            mass = gr.sum(0)
            if (not np.all(np.isfinite(gr))) or gr.min() < -1e-5 or np.abs(mass - 1).max() > 1e-3:
                return dict(what="a pixel is not used exactly once by the induced sub-circuits (gradient mass per pixel != 1)",
                            cls=k, x=x.tolist(), mass=mass.round(5).tolist())
        # (1b) base layer: the model of the network takes the base layer's outputs as its leaf values, so the base layer is
        #      tied here: log-density of each (batch component, pixel) = sum over the OBSERVED channels of the Gaussian
        #      log-density (a missing channel contributes log 1, whatever the other channels of the pixel are)
        xm = rs.uniform(-2, 2, size=(3, C_, D, D)).astype(np.float32)
        xm[rs.rand(3, C_, D, D) < 0.35] = np.nan
        xm[1, 0] = np.nan                                   # one whole channel missing
        with torch.no_grad():
            z = m.base_layer(torch.tensor(xm)).double().numpy()
        loc = m.base_layer.loc.detach().double().numpy(); sc = m.base_layer.scale.detach().double().numpy()
        xe = xm.astype(np.float64)[:, None]                                   # (n, 1, C, D, D)
        lp = -0.5 * ((xe - loc[None]) / sc[None]) ** 2 - np.log(sc[None]) - 0.5 * np.log(2 * np.pi)
        ref = np.where(np.isnan(lp), 0.0, lp).sum(axis=2)
        if z.shape != ref.shape or not np.all(np.abs(z - ref) <= 1e-4 + 1e-5 * np.abs(ref)):
            i = np.unravel_index(int(np.nanargmax(np.abs(np.nan_to_num(z, nan=1e30) - ref))), ref.shape) if z.shape == ref.shape else None
            return dict(what="base layer: a pixel's log-density is not the sum of its OBSERVED channels' Gaussian log-densities",
                        x=np.where(np.isnan(xm), None, xm).tolist(), at=[int(t) for t in i] if i else None,
                        impl=float(z[i]) if i else list(z.shape), expected=float(ref[i]) if i else list(ref.shape))
        # (1e) learned scales (optimize_scale=True, scales moved away from the constructor's values): the base layer is still the
        #      sum of the observed channels' Gaussian log-densities, and the density of ONE observed pixel channel with everything
        #      else missing integrates to one for every class (trapezoid rule, step 0.01 on [-14, 14])
        from deeprob.spn.models.dgcspn import DgcSpn as _Dgc
        torch.manual_seed(seed + 21)
        ms = _Dgc((C_, D, D), out_classes=g["classes"], n_batch=g["batch"], sum_channels=g["sumc"], depthwise=list(g["dw"]),
                  n_pooling=g["n"], optimize_scale=True)
        with torch.no_grad():
            ms.base_layer.scale.copy_(torch.tensor(rs.uniform(0.5, 1.8, size=tuple(ms.base_layer.scale.shape)).astype(np.float32)))
        ms.eval()
        with torch.no_grad():
            zs = ms.base_layer(torch.tensor(xm)).double().numpy()
        loc_s = ms.base_layer.loc.detach().double().numpy(); sc_s = ms.base_layer.scale.detach().double().numpy()
        lps = -0.5 * ((xe - loc_s[None]) / sc_s[None]) ** 2 - np.log(sc_s[None]) - 0.5 * np.log(2 * np.pi)
        refs = np.where(np.isnan(lps), 0.0, lps).sum(axis=2)
        if zs.shape != refs.shape or not np.all(np.abs(zs - refs) <= 1e-4 + 1e-5 * np.abs(refs)):
            i = np.unravel_index(int(np.nanargmax(np.abs(np.nan_to_num(zs, nan=1e30) - refs))), refs.shape) if zs.shape == refs.shape else None
            return dict(what="base layer with learned scales: a pixel's log-density is not the sum of its observed channels' Gaussian log-densities",
                        at=[int(t) for t in i] if i else None, impl=float(zs[i]) if i else list(zs.shape),
                        expected=float(refs[i]) if i else list(refs.shape), scale_range=[float(sc_s.min()), float(sc_s.max())])
        grid1 = np.arange(-14.0, 14.0001, 0.01)
        ci, hi, wi = int(rs.randint(C_)), int(rs.randint(D)), int(rs.randint(D))
        xg = torch.full((len(grid1), C_, D, D), float("nan")); xg[:, ci, hi, wi] = torch.tensor(grid1, dtype=torch.float32)
        with torch.no_grad():
            dens = torch.exp(ms(xg).double()).numpy()
        mass1 = (dens[1:] + dens[:-1]).sum(0) * 0.005
        if not np.all(np.abs(mass1 - 1.0) <= 5e-3):
            return dict(what="learned scales: the marginal density of one pixel channel (all else missing) does not integrate to one",
                        pixel=[ci, hi, wi], mass_per_class=mass1.tolist(), scale_range=[float(sc_s.min()), float(sc_s.max())])
        # (1c) a model with the dropout options, in evaluation mode, queried through a HISTORY: forward, mpe, forward again.
        #      Evaluation mode is the caller's; no query may leave it, so the all-missing input still scores 0 and a complete
        #      image gets the same log-density every time.
        from deeprob.spn.models.dgcspn import DgcSpn
        torch.manual_seed(seed + 11)
        md = DgcSpn((C_, D, D), out_classes=g["classes"], n_batch=g["batch"], sum_channels=g["sumc"], depthwise=list(g["dw"]),
                    n_pooling=g["n"], in_dropout=0.3, sum_dropout=0.3)
        md.eval()
        xc = torch.tensor(rs.uniform(-2, 2, size=(2, C_, D, D)).astype(np.float32))
        xh = xc.clone(); xh[rs.rand(2, C_, D, D) < 0.4] = float("nan")
        with torch.no_grad():
            a0 = md(xc).double().numpy(); n0 = md(torch.full((1, C_, D, D), float("nan"))).double().numpy()
        md.mpe(xh.clone())
        with torch.no_grad():
            a1 = md(xc).double().numpy(); n1 = md(torch.full((1, C_, D, D), float("nan"))).double().numpy()
        still_eval = (not md.training) and all(not mod.training for mod in md.modules())
        if not still_eval or not np.allclose(a0, a1, rtol=1e-6, atol=1e-6, equal_nan=True) or not np.all(np.abs(n1) <= 1e-4) or not np.all(np.abs(n0) <= 1e-4):
            return dict(what="history eval(); forward; mpe; forward on a model with dropout options: the second forward differs "
                             "(a query left evaluation mode, so dropout is active and outputs are no longer normalised densities)",
                        still_in_evaluation_mode=bool(still_eval), all_missing_before=n0.tolist(), all_missing_after=n1.tolist(),
                        complete_before=a0.tolist(), complete_after=a1.tolist())
        # (1d) parameters replaced on a used model in evaluation mode (load_state_dict / in-place copy / one bounded optimiser
        #      step) with no further .eval()/.train() call: normalisation is a property of the weights the model holds NOW
        import copy as _copy
        mh = make_model(g, seed + 3); donor = make_model(g, seed + 5)
        xn1 = torch.full((1, C_, D, D), float("nan"))
        with torch.no_grad():
            mh(xn1); mh(xc)
        mh.mpe(xh.clone())
        how = ["load_state_dict", "in-place copy", "optimiser step"][seed % 3]
        if how == "load_state_dict":
            mh.load_state_dict(_copy.deepcopy(donor.state_dict()))
        elif how == "in-place copy":
            with torch.no_grad():
                for (_, a_), (_, b_) in zip(mh.named_parameters(), donor.named_parameters()):
                    a_.copy_(b_)
        else:
            opt = torch.optim.SGD([q for q in mh.parameters() if q.requires_grad], lr=0.3)
            opt.zero_grad(); (-mh(xc).sum()).backward()
            gmax = max([float(q.grad.abs().max()) for q in mh.parameters() if q.grad is not None] + [1e-12])
            for q in mh.parameters():
                if q.grad is not None:
                    q.grad.div_(gmax)
            opt.step()
        twin = make_model(g, seed + 9); twin.load_state_dict(_copy.deepcopy(mh.state_dict())); twin.eval()
        with torch.no_grad():
            h0 = mh(xn1).double().numpy(); h1 = mh(xc).double().numpy(); t1 = twin(xc).double().numpy()
        if not np.all(np.abs(h0) <= 1e-4) or not np.allclose(h1, t1, rtol=1e-5, atol=1e-5):
            return dict(what=f"history eval(); queries; {how}; query: outputs are not those of the parameters the model now holds",
                        all_missing_log_prob=h0.tolist(), complete_input=h1.tolist(), fresh_model_with_the_same_state_dict=t1.tolist())
        # (2) fully missing input has log-probability zero
        xn = torch.full((2, C_, D, D), float("nan"))
        lp = m(xn).detach().double().numpy()
        if not np.all(np.abs(lp) <= 1e-4):
            return dict(what="fully missing input does not have log-probability 0", log_prob=lp.tolist())
        # (3) mpe keeps observed pixels, fills missing ones with convex combinations of the modes
        mask = rs.rand(2, C_, D, D) < 0.5
        x2 = rs.uniform(-2, 2, size=(2, C_, D, D)).astype(np.float32)
        x2m = x2.copy(); x2m[mask] = np.nan
        xin = torch.tensor(x2m)
        r = m.mpe(xin).detach().numpy()
        if r.shape != x2m.shape or not np.array_equal(r[~mask], x2[~mask]):
            return dict(what="mpe changed an observed pixel", x=x2m.tolist(), mpe=np.asarray(r).tolist())
        loc = m.base_layer.loc.detach().numpy()
        # (the gradient in mpe is taken of the SUM of the class outputs, so the estimate is the sum over
        #  classes of one convex combination of the modes per class: estimate / classes lies in the hull)
        K = float(g["classes"])
        lo, hi = loc.min(0) - 1e-3, loc.max(0) + 1e-3
        if not np.all(np.isfinite(r)) or np.any((r / K < lo[None])[mask]) or np.any((r / K > hi[None])[mask]):
            return dict(what="mpe filled a missing pixel with a value outside the hull of the leaf modes (times the number of classes)",
                        x=x2m.tolist(), mpe=np.asarray(r).tolist())
        if not np.array_equal(np.isnan(xin.numpy()), mask):
            return dict(what="mpe modified its input")
        # (4) marginalising one pixel: p(x with pixel missing) >= p(x) is not implied for densities; instead
        #     2x2 single-channel models are integrated on a grid (Gaussian leaves, scale 1)
        if D == 2 and C_ == 1:
            tot = grid_mass(m, g)
            if np.abs(tot - 1).max() > 2e-3:
                return dict(what="class density does not integrate to one (trapezoid rule on [-9,9]^4, step 0.5)",
                            mass=tot.tolist())
    except Exception as e:
        return dict(what="inference raised on an admissible configuration", error=f"{type(e).__name__}: {e}")
    return None


def grid_mass(m, g):
    import torch
    pts = np.arange(-9.0, 9.0001, 0.5)
    grid = np.array(list(itertools.product(pts, repeat=4)), dtype=np.float64)
    md = make_model(g, 0).double()
    md.load_state_dict({k: v.double() for k, v in m.state_dict().items()})
    md.base_layer.distribution = torch.distributions.Normal(md.base_layer.loc, md.base_layer.scale, validate_args=False)
    tot = np.zeros(g["classes"])
    with torch.no_grad():
        for s in range(0, len(grid), 200000):
            xb = torch.tensor(grid[s:s + 200000]).view(-1, 1, 2, 2)
            tot += torch.exp(md(xb)).sum(0).numpy() * 0.5 ** 4
    return tot


def set_one_hot(m, rs):
    """make every sum node deterministic; returns (tabs per layer id, root indices per class)."""
    import torch
    from deeprob.spn.layers.dgcspn import SpatialSumLayer
    tabs = []
    for l in m.layers:
        if isinstance(l, SpatialSumLayer):
            oc, ic, H, W = l.weight.shape
            ch = rs.randint(0, ic, size=(oc, H, W))
            w = np.full((oc, ic, H, W), -1e4, dtype=np.float32)
            o, h, ww = np.meshgrid(np.arange(oc), np.arange(H), np.arange(W), indexing="ij")
            w[o, ch, h, ww] = 0.0
            with torch.no_grad():
                l.weight.copy_(torch.tensor(w))
            tabs.append((int(H), [[int(v) for v in ch[o_].reshape(-1)] for o_ in range(oc)]))
        else:
            tabs.append((0, []))
    K, F = m.root_layer.weight.shape
    ridx = rs.randint(0, F, size=K)
    w = np.full((K, F), -1e4, dtype=np.float32)
    w[np.arange(K), ridx] = 0.0
    with torch.no_grad():
        m.root_layer.weight.copy_(torch.tensor(w))
    return tabs, [int(v) for v in ridx]


def tabs_coq(tabs):
    return "[" + "; ".join(f"({S}, [" + "; ".join(zl(row) for row in t) + "])" for S, t in tabs) + "]"


def eval_case(m, g, rs):
    """exact-rational forward case: returns the Coq argument text."""
    import torch
    from deeprob.spn.layers.dgcspn import SpatialSumLayer
    C_, D = g["C"], g["D"]
    x = rs.uniform(-1.5, 1.5, size=(1, C_, D, D)).round(2).astype(np.float32)
    x[rs.rand(1, C_, D, D) < 0.25] = np.nan
    xt = torch.tensor(x)
    with torch.no_grad():
        z = m.base_layer(xt)[0].double().numpy()
        out = np.exp(m(xt)[0].double().numpy())
    f32 = lambda a: [C.qlit(float(np.float32(v))) for v in np.asarray(a, dtype=np.float64).reshape(-1)]
    lf = C.coq_list(f32(np.exp(z)))
    sw = []
    for l in m.layers:
        if isinstance(l, SpatialSumLayer):
            w = torch.softmax(l.weight.detach().double(), dim=1).numpy()
            sw.append(f"({w.shape[1]}, {w.shape[2]}, {C.coq_list(f32(w))})")
        else:
            sw.append("(0, 0, [])")
    rw = torch.softmax(m.root_layer.weight.detach().double(), dim=1).numpy()
    rwt = C.coq_list([C.coq_list(f32(r)) for r in rw])
    impl = C.coq_list([C.qlit(float(v)) for v in out])
    return f"{lf} {C.coq_list(sw)} {rwt} {impl}", x


HEADER = ("From Coq Require Import List ZArith Bool QArith Qcanon.\n"
          "From DV Require Import Model.Core Model.QcInst Model.Dgc Model.DgcRun.\n"
          "Import ListNotations.\nOpen Scope Z_scope.\n")


def main(tier, seed, replay=None):
    import torch
    torch.set_num_threads(1)
    rep = C.Report(PID, tier, seed)
    rs = np.random.RandomState(seed % (2 ** 31))
    C.proof_stage(rep, PID, pre_build=pre_build,
                  search=lambda: next((dict(config=g, failure=f) for g in gen_configs(np.random.RandomState(seed % (2 ** 31)), "quick")[:20]
                                       for f in [direct_oracle(g, seed)] if f), None))
    rep.cov["trusted_base"] += [
        "harness/c17.py: reading (in/out features, pad, stride, dilation, groups, weight buffers) off the torch modules; "
        "one-hot re-parameterisation of sum/root weights; autograd gradient w.r.t. the base-layer outputs read as leaf usage",
        "PyTorch kernels F.pad / F.conv2d / logsumexp / log_softmax / autograd are tied (usage counts, forward values), not proved",
        "float32 rounding absorbed by tolerances (relative 2e-4 on exp(forward), evaluated inside Coq; 1e-3 on gradient masses)"]
    rep.assumptions += ["Gaussian base densities integrate to one (real analysis, not formalised): the marginalisation theorem is stated for "
                        "finite-domain leaf families whose values sum to one per pixel and channel",
                        "a pixel with C image channels is one scope element (the base layer multiplies its C Gaussian factors)"]
    configs = gen_configs(rs, tier)
    side = gen_side_configs(rs)
    if replay:
        try:
            ro = json.load(open(replay))
            if isinstance(ro.get("config"), dict):
                configs = [ro["config"]] + configs[:5]; side = side[:5]
        except Exception:
            pass
    cases = []       # (kind, config, coq term, extra)
    dist = dict(sides={}, pooling={}, flags=dict(depthwise=0, dense=0), rejected=0, indivisible=0)
    oracle_fail = []
    n_use = 2 if tier == "quick" else 4
    eval_budget = 6 if tier == "quick" else 24
    kernels_done = set()
    for gi, g in enumerate(configs + side):
        primary = gi < len(configs)
        try:
            m = make_model(g, seed + gi)
            ok = True; err = None
        except ValueError as e:
            m = None; ok = False; err = str(e)
        except Exception as e:  # any other exception type is not the documented rejection
            m = None; ok = False; err = f"{type(e).__name__}: {e}"
            oracle_fail.append((g, dict(what="constructor raised something other than ValueError", error=err)))
        if ok:
            lt, root, bad = layer_tuples(m)
            if bad:
                oracle_fail.append((g, dict(what="inconsistent module attributes", problems=bad, layers=lt)))
        else:
            lt, root = [], []
            dist["rejected"] += 1
        cases.append(("cfg", g, f"run_cfgcase {cfg_coq(g)} {'true' if ok else 'false'} "
                                f"[{'; '.join(zl(t) for t in lt)}] {zl(root)}", dict(layers=lt, error=err)))
        rep.count(["cfg", g], nontrivial=ok)
        if not ok:
            continue
        if not primary:
            if g["D"] % (2 ** max(g["n"], 0)):
                dist["indivisible"] += 1
            continue
        if g.get("wide"):
            # wide configurations: constructor geometry against the model (above) and the direct oracles; the per-value comparisons
            # inside Coq stay on the small configurations (the un-memoised model evaluation is exponential in the channel count)
            dist["wide_sum_inputs"] = dist.get("wide_sum_inputs", []) + [max(t[1] for t in lt if t[0] == 1)]
            f = direct_oracle(g, seed + gi, np.random.RandomState((seed + 7919 * gi) % (2 ** 31)))
            rep.count(["oracle", g])
            if f:
                oracle_fail.append((g, f))
            continue
        dist["sides"][g["D"]] = dist["sides"].get(g["D"], 0) + 1
        dist["pooling"][g["n"]] = dist["pooling"].get(g["n"], 0) + 1
        for t in lt:
            if t[0] == 0:
                dist["flags"]["depthwise" if t[9] else "dense"] += 1
        # sparse kernels
        from deeprob.spn.layers.dgcspn import SpatialProductLayer
        for l, t in zip(m.layers, lt):
            if isinstance(l, SpatialProductLayer):
                ic = t[1]
                w = l.weight.detach().numpy()
                if t[9]:
                    if not np.all(w == 1):
                        oracle_fail.append((g, dict(what="depthwise kernel is not all ones")))
                elif ic not in kernels_done or rs.rand() < 0.1:
                    kernels_done.add(ic)
                    cases.append(("kernel", g, f"run_kernelcase {ic} {zl(w.astype(int).reshape(-1))}", dict(C=ic)))
                    rep.count(["kernel", ic, gi])
        # direct oracles with the constructor's own random weights
        f = direct_oracle(g, seed + gi, np.random.RandomState((seed + 7919 * gi) % (2 ** 31)))
        rep.count(["oracle", g])
        if f:
            oracle_fail.append((g, f))
        # forward values at exact rationals (small sides only: the model recursion is not memoised)
        cost = root[0] * root[1] ** 2          # leaves visited by the (top-down, un-memoised) model evaluation
        for t in lt:
            cost *= 4 if t[0] == 0 else t[1]
        small = g["D"] <= 4 and cost <= 30000
        if small and eval_budget > 0:
            eval_budget -= 1
            txt, x = eval_case(m, g, rs)
            cases.append(("eval", g, f"run_evalcase {cfg_coq(g)} {txt}", dict(x=np.where(np.isnan(x), None, x).tolist(), model_seed=seed + gi)))
            rep.count(["eval", g, x.tolist()])
        # induced sub-circuits
        for u in range(n_use):
            tabs, ridx = set_one_hot(m, rs)
            x = torch.tensor(rs.uniform(-1, 1, size=(1, g["C"], g["D"], g["D"])), dtype=torch.float32)
            for k in range(g["classes"]):
                gr = grad_wrt_base(m, x, k)
                gi_ = np.rint(gr)
                if not np.all(np.isfinite(gr)) or np.abs(gr - gi_).max() > 1e-3:
                    oracle_fail.append((g, dict(what="gradient of a deterministic sub-circuit is not integral", grad=gr.tolist())))
                    continue
                cases.append(("use", g, f"run_usecase {cfg_coq(g)} {tabs_coq(tabs)} {ridx[k]} {zl(gi_.astype(int).reshape(-1))}",
                              dict(tabs=tabs, root_index=ridx[k], cls=k, grad=gi_.astype(int).tolist())))
                rep.count(["use", g, ridx[k], u, k])
    rep.cov["input_distribution"] = dist
    # ---- run the model on the same inputs
    # eval cases are the expensive ones (one per file); the others are spread over 12 files
    order = [i for i, c in enumerate(cases) if c[0] == "eval"]
    groups = [[i] for i in order]
    rest = [i for i, c in enumerate(cases) if c[0] != "eval"]
    nf = 12
    groups += [rest[j::nf] for j in range(nf) if rest[j::nf]]
    files = []
    for k, grp in enumerate(groups):
        files.append((f"cases_{k}", HEADER + "Eval vm_compute in ([" + ";\n".join(cases[i][2] for i in grp) + "]).\n"))
    import time as _t
    t_impl = _t.time() - rep.t0
    res = C.run_case_files(PID, files)
    rep.cov["timing_s"] = dict(proof_and_implementation=round(t_impl, 1), model_cases=round(_t.time() - rep.t0 - t_impl, 1))
    flagged = []
    for (name, rc, ints, raw), grp in zip(res, groups):
        chunk = [cases[i] for i in grp]
        if rc != 0 or ints is None or len(ints) != len(chunk):
            rep.obligation(False)
            rep.violation(dict(kind="correspondence-shard-failed", shard=name, log=raw), False)
            continue
        rep.obligation(True)
        for c, code in zip(chunk, ints):
            if code:
                flagged.append((c, code))
    by = {}
    for c in cases:
        by[c[0]] = by.get(c[0], 0) + 1
    rep.cov["case_kinds"] = by
    for c in cases[:1] + [c for c in cases if c[0] == "use"][:1] + [c for c in cases if c[0] == "eval"][:1]:
        rep.sample(dict(kind=c[0], config=c[1], detail={k: v for k, v in c[3].items() if k in ("layers", "root_index", "cls", "C")}))
    # ---- report
    for g, f in oracle_fail[:6]:
        rep.violation(dict(kind="property-fails-on-implementation", config=g, failure=f), True)
    seen = set()
    for (kind, g, term, extra), code in flagged:
        key = (kind, json.dumps(g, sort_keys=True))
        if key in seen or len(seen) >= 6:
            continue
        seen.add(key)
        w = direct_oracle(g, seed) if kind != "cfg" or extra.get("error") is None else None
        info = dict(kind="model-implementation-disagreement", case=kind, config=g, flags=code, detail=extra, oracle=w,
                    note="flags: 1 accept/reject differs, 2 layer geometry differs, 4 leaf usage of an induced sub-circuit differs, "
                         "8 model usage != 1, 16 forward value differs; kernel case: 1 = sparse kernel buffer differs")
        concrete = bool(w) or kind in ("use", "eval", "kernel") or (kind == "cfg" and code & 1)
        rep.violation(info, found_input=concrete)
    rep.cov["rule"] = ("all (side, n_pooling) with side in 2..%d and 2^n | side, x %d draws of (image channels 1-2, classes 1-3, base batch 1-2, "
                       "sum channels 1-2, depthwise flag vector of random length 1..depth+1; first draw all-dense); per configuration: constructor "
                       "geometry vs model, sparse kernels, %d random one-hot sub-circuits x every class (integer gradient = leaf usage vs model), "
                       "direct oracles with random weights (gradient mass, all-NaN, mpe, 2x2 grid integral), exact forward for sides <= 4; plus "
                       "three wide configurations (one dense product layer fed by 5-6 channels, 625-1296 inputs to the sum layer above it): "
                       "constructor geometry vs model and the direct oracles only; "
                       "constructor-only cases (rejected arguments, sides outside the divisibility premise, side 1). one evaluation = one case "
                       "compared inside Coq or one oracle run; non-trivial = configuration accepted by the constructor; distinct by content hash"
                       % (8 if tier == "quick" else 12, 2 if tier == "quick" else 5, n_use))
    if not os.environ.get("VERIF_KEEP_GEN"):
        C.clean_gen(PID)
    return rep.finish("proof")
