"""C10 — structural marginalisation equals marginal inference.
Proof: Properties/C10.v.  Tie: random valid DAGs (discrete and CLT leaves, shared sub-circuits)
and learned XPC circuits x every non-empty subset of the root scope (<= 5 variables; sampled
beyond) x all assignments of the kept variables: the implementation's marginalised circuit vs the
model's (structure, node count, scope) and its values vs the model's marginal query (engine E1);
rejected keep sets; copy=True snapshot."""
import itertools, json
import numpy as np
from . import common as C
from . import circuits as G
from . import c01

PID = "C10"
HEADER = ["From Coq Require Import List ZArith QArith Qcanon.",
          "From DV Require Import Model.Core Model.Clt Model.Leaves Model.QcInst Model.Marg Model.MargRun.",
          "Import ListNotations. Open Scope Z_scope."]


def learned_circuits(rs, n):
    from deeprob.spn.learning.xpc import learn_xpc
    from deeprob.spn.learning.wrappers import learn_estimator
    from deeprob.spn.structure.leaf import Bernoulli
    out = []
    for i in range(n):
        nv = int(rs.randint(4, 7))
        z = rs.rand(200, 1) < 0.5
        x = (rs.rand(200, nv) < np.where(z, 0.2, 0.75)).astype(np.float32)
        try:
            if i % 2 == 0:
                root, _ = learn_xpc(x, det=bool(i % 4 == 0), sd=True, min_part_inst=40, conj_len=2, arity=2, n_max_parts=8,
                                    random_seed=int(rs.randint(1000)))
            else:
                root = learn_estimator(x, [Bernoulli] * nv, [[0, 1]] * nv, learn_leaf="binary-clt", split_rows="kmeans",
                                       split_cols="gvs", min_rows_slice=60, random_state=int(rs.randint(1000)), verbose=False)
            out.append(root)
        except Exception as e:  # learners may legitimately refuse a data set
            continue
    return out


def main(tier, seed, replay=None):
    rep = C.Report(PID, tier, seed)
    rs = np.random.RandomState(seed % (2 ** 31))
    C.proof_stage(rep, PID)
    rep.cov["trusted_base"] += ["harness/circuits.py object->table mapping (original and marginalised circuits)",
                                "learned circuits (XPC, LearnSPN with CLT leaves) enter through the same mapping; Python deepcopy (copy=True) checked by snapshot only"]
    from deeprob.spn.algorithms.structure import marginalize
    from deeprob.spn.algorithms.inference import log_likelihood
    _raw_violation = rep.violation; _per_kind = {}
    def capped(info, found):
        k = info.get("kind"); _per_kind[k] = _per_kind.get(k, 0) + 1
        if _per_kind[k] <= 3:                      # at most three replays per kind of failure
            _raw_violation(info, found)
    rep.violation = capped
    from deeprob.spn.structure.node import assign_ids
    roots = []
    for i in range(30 if tier == "quick" else 300):
        roots.append(("random", c01.gen_circuit(rs, i, tier, kinds=[("bern",), ("bern", "cat")][i % 2], clt=0.35)))
    for i in range(8 if tier == "quick" else 60):
        r = G.rand_nested_mixture(rs); assign_ids(r)
        if rs.rand() < 0.5:
            c01.relabel_ids(r, rs)
        roots.append(("random", r))
    for r in learned_circuits(rs, 4 if tier == "quick" else 20):
        roots.append(("learned", r))
    cases = []; dist = dict(random=0, learned=0, keep_sets=0, rejected_keep_sets=0, rows=0, clt_leaves=0)
    for tag, root in roots:
        tab = G.Table(root)
        before = json.dumps(tab.brief())
        scope = sorted(tab.root_scope()); dom = tab.domains(); width = max(scope) + 1
        dist[tag] += 1; dist["clt_leaves"] += sum(1 for n in tab.nodes if n["kind"] == "clt")
        subsets = [list(s) for k in range(1, len(scope) + 1) for s in itertools.combinations(scope, k)]
        if len(subsets) > (31 if tier == "quick" else 63):
            idx = rs.choice(len(subsets), size=31 if tier == "quick" else 63, replace=False)
            subsets = [subsets[i] for i in idx]
        # keep sets are passed in a random order (the code must treat them as sets)
        keeps = [[int(v) for v in rs.permutation(s)] for s in subsets]
        bad_keeps = [[], [scope[0], scope[0]], [scope[0], max(scope) + 3], [max(scope) + 3], list(scope) + [max(scope) + 1]]
        # the kept-set guard is about the ARGUMENT, not about the circuit: switching the structural checks off (the public
        # context flag) must not switch it off
        from deeprob.context import ContextState as _CS
        for keep in bad_keeps:
            try:
                with _CS(check_spn=False):
                    mr_ = marginalize(root, list(keep), copy=True)
                rep.violation(dict(kind="invalid-kept-set-accepted", circuit=tab.brief(), keep=keep, context="ContextState(check_spn=False)",
                                   what="empty, duplicated or out-of-scope kept sets must be rejected whatever the check_spn flag is",
                                   returned_scope=[int(v) for v in mr_.scope]), True)
            except ValueError:
                pass
            except Exception as e:
                rep.violation(dict(kind="invalid-kept-set-not-rejected-with-ValueError", circuit=tab.brief(), keep=keep,
                                   context="ContextState(check_spn=False)", error=f"{type(e).__name__}: {e}"), True)
        for keep in keeps + bad_keeps:
            try:
                mroot = marginalize(root, list(keep), copy=True)
                err = None
            except ValueError as e:
                mroot = None; err = str(e)
            except Exception as e:
                rep.violation(dict(kind="marginalize-raised-unexpectedly", circuit=tab.brief(), keep=keep,
                                   error=f"{type(e).__name__}: {e}"), True)
                continue
            if mroot is not None and keep in bad_keeps:
                rep.violation(dict(kind="invalid-kept-set-accepted", circuit=tab.brief(), keep=keep,
                                   what="empty, duplicated or out-of-scope kept sets must be rejected",
                                   returned_scope=[int(v) for v in mroot.scope]), True)
                continue
            try:
                after = json.dumps(G.Table(root).brief())
            except Exception as e:
                after = f"unreadable: {type(e).__name__}: {e}"
            if after != before:
                rep.violation(dict(kind="original-changed-with-copy-true", circuit=json.loads(before), keep=keep,
                                   original_afterwards=after[:1500]), True)
                break           # the original of this case is no longer the circuit under test
            rows = []; E = []
            mtab = None; oracle = None
            if mroot is not None:
                mtab = G.Table(mroot)
                ks = sorted(set(keep))
                rows = list(G.assignments(ks, dom, limit=32, rs=rs))
                X = np.array([G.np_row(c, width, {}) for c in rows], dtype=np.float32)
                try:
                    with np.errstate(all="ignore"):
                        E = np.exp(np.clip(log_likelihood(mroot, X).reshape(-1).astype(np.float64), -700, 50))
                        E0 = np.exp(np.clip(log_likelihood(root, X).reshape(-1).astype(np.float64), -700, 50))
                except Exception as e:
                    rep.violation(dict(kind="inference-raised-on-the-marginalised-or-original-circuit", circuit=tab.brief(), keep=keep,
                                       marginalised=mtab.brief(), error=f"{type(e).__name__}: {e}"), True)
                    break
                try:
                    import copy as _cp
                    twin = _cp.deepcopy(root); inpl = marginalize(twin, list(keep), copy=False)
                    if json.dumps(G.Table(inpl).brief()) != json.dumps(mtab.brief()):
                        oracle = dict(what="marginalize(copy=False) on a deep copy differs from marginalize(copy=True)", in_place=G.Table(inpl).brief())
                except Exception as e:
                    oracle = dict(what="marginalize(copy=False) raised where copy=True returned", error=f"{type(e).__name__}: {e}")
                if oracle is not None:
                    pass
                elif sorted(int(v) for v in mroot.scope) != ks:
                    oracle = dict(what="scope of the marginalised circuit is not the kept set", scope=[int(v) for v in mroot.scope])
                elif not np.allclose(E, E0, rtol=2e-4, atol=1e-9):
                    i = int(np.argmax(np.abs(E - E0)))
                    oracle = dict(what="marginalised circuit differs from marginal inference on the original",
                                  row=sorted(rows[i].items()), marginalised=float(E[i]), marginal_query=float(E0[i]))
                dist["keep_sets"] += 1; dist["rows"] += len(rows)
            else:
                dist["rejected_keep_sets"] += 1
            cases.append(dict(tag=tag, tab=tab, keep=keep, mtab=mtab, err=err, rows=rows, E=E, width=width, oracle=oracle))
    rep.cov["input_distribution"] = dist
    shard = 60
    files = []
    tabs_defined = {}
    for s in range(0, len(cases), shard):
        body = list(HEADER); names = []; defined = {}
        for i, cs in enumerate(cases[s:s + shard]):
            nm = f"c{s + i}"
            key = id(cs["tab"])
            if key not in defined:
                defined[key] = f"t{len(defined)}"
                body.append(f"Definition {defined[key]} : qtable :=\n  {cs['tab'].coq()}.")
            impl = "None" if cs["mtab"] is None else f"(Some {cs['mtab'].coq()})"
            rws = C.coq_list([f"({G.row_coq(c, cs['width'])}, {C.qlit(float(e))})" for c, e in zip(cs["rows"], cs["E"])])
            body.append(f"Definition {nm} := run_gcase (Build_gcase {defined[key]} {C.natlist(cs['keep'])} {impl} {rws}).")
            names.append(nm)
        body.append("Eval vm_compute in (concat (map (fun l => (-1)%Z :: l) [" + "; ".join(names) + "])).")
        files.append((f"cases_{s // shard}", "\n".join(body)))
    res = C.run_case_files(PID, files)
    flagged = []
    for (name, rc, ints, raw), s in zip(res, range(0, len(cases), shard)):
        if rc != 0 or ints is None:
            rep.obligation(False); rep.violation(dict(kind="correspondence-shard-failed", shard=name, log=raw), False); continue
        rep.obligation(True)
        groups = []
        for z in ints:
            if z == -1:
                groups.append([])
            else:
                groups[-1].append(z)
        for cs, codes in zip(cases[s:s + shard], groups):
            rep.count(dict(c=cs["tab"].brief(), keep=cs["keep"]), nontrivial=cs["mtab"] is not None and len(set(cs["keep"])) < len(cs["tab"].root_scope()))
            if any(codes) or cs["oracle"]:
                flagged.append((cs, codes))
    for cs in cases[:1] + [c for c in cases if c["tag"] == "learned"][:1]:
        rep.sample(dict(tag=cs["tag"], circuit=cs["tab"].brief(), keep=cs["keep"],
                        implementation_result=None if cs["mtab"] is None else cs["mtab"].brief()))
    for cs, codes in flagged[:5]:
        rep.violation(dict(kind="model-implementation-disagreement" if any(codes) else "property-oracle-failed",
                           circuit=cs["tab"].brief(), keep=cs["keep"], implementation_error=cs["err"],
                           implementation_result=None if cs["mtab"] is None else cs["mtab"].brief(),
                           header_flags=codes[0], row_flags=codes[1:], oracle=cs["oracle"],
                           note="header: 1 accept/reject differs, 2 structure differs, 4 node count, 8 scope <> keep; rows: 1 model marginalised <> model marginal query, 2 implementation differs"),
                      True)
    if replay:
        print(open(replay).read()[:3000])
    rep.cov["rule"] = ("random valid DAGs as C01 (Bernoulli/Categorical, CLT leaves 0.35, sharing 0.3) + learned XPC(sd)/LearnSPN(binary-clt) circuits; "
                       "keep sets = every non-empty subset of the root scope (<=31 quick / 63 thorough per circuit, passed in random order) + empty, duplicated and "
                       "out-of-scope keep sets; rows = all assignments of the kept variables (<=32); one evaluation = one (circuit, keep set) compared inside Coq; "
                       "non-trivial = accepted and at least one variable marginalised; distinct by circuit+keep hash")
    C.clean_gen(PID)
    return rep.finish("proof")
