"""C11 — Chow-Liu fitting returns a maximum-mutual-information tree with exact CPTs.
Proof: Properties/C11.v (CPT rows sum to one and equal the smoothed conditionals for every data
matrix and alpha > 0; fitted tree normalised; certificate/brute-force soundness for every n).
Tie (engine E1, Model/ChowLiuRun.v run_c11case): for random binary matrices (constant / duplicated
columns, fewer rows than variables, roots, alphas, scope labellings) the implementation's
exp(params) vs the exact model at Qc from integer counts; its predecessor vector is a spanning tree
rooted at the requested root, with weight >= brute-force maximum over ALL labelled spanning trees
(n <= 7) / >= the model's Prim reference (n <= 14) on the implementation's float MI matrix taken as
exact integers; bfs order valid; likelihood of query rows vs the model's fitted tree.
Python side (correspondence-only): MI matrix vs an independent float64 recomputation from exact
counts; total mass of the fitted tree by enumeration; root bookkeeping."""
import itertools, math, os, json
from fractions import Fraction
import numpy as np
from . import common as C

PID = "C11"
MY_FILES = ["Model/ChowLiu.v", "Model/ChowLiuRun.v", "Proofs/ChowLiuTree.v", "Proofs/ChowLiuFacts.v"]
ALPHAS = [0.1, 1.0, 0.5, 0.01, 2.0, 0.25, 0.001]
MI_TOL = 2e-5          # |float32 MI - float64 reference MI|
MASS_TOL = 2e-4        # |sum of likelihoods over all assignments - 1|


# ---------------------------------------------------------------- local build of the C11 files
def pre_build():
    """The C11 .v files are compiled here when _CoqProject does not list them yet (the integrator
    adds them); no-op when their .vo files are fresh."""
    proj = open(os.path.join(C.COQ, "_CoqProject")).read()
    todo = [f for f in MY_FILES if f not in proj]
    if not todo:
        return None
    ok, log = C.build_coq()
    if not ok:
        return log
    with C.Lock(os.path.join(C.COQ, ".build_c11.lock")):
        stale = False
        for f in todo:
            src = os.path.join(C.COQ, f)
            vo = src[:-2] + ".vo"
            if stale or not os.path.exists(vo) or os.path.getmtime(vo) < os.path.getmtime(src):
                stale = True
                rc, out = C.sh(f"timeout 900 coqc -R . DV {f}", cwd=C.COQ, timeout=950)
                if rc != 0:
                    return f"coqc {f} failed:\n{out[-3000:]}"
    return None


# ---------------------------------------------------------------- generator
def gen_data(rs, n, kind, m):
    if m == 0:
        return np.zeros((0, n), dtype=np.float32)
    if kind == "iid":
        p = rs.choice([0.1, 0.25, 0.5, 0.75, 0.9], size=n)
        d = (rs.rand(m, n) < p).astype(np.float32)
    else:  # tree-structured: each column copies a random earlier column with flip noise
        d = np.zeros((m, n), dtype=np.float32)
        d[:, 0] = rs.rand(m) < 0.5
        for j in range(1, n):
            src = rs.randint(0, j)
            eps = rs.choice([0.05, 0.15, 0.3, 0.45])
            flip = rs.rand(m) < eps
            d[:, j] = np.where(flip, 1 - d[:, src], d[:, src])
        d = d[:, rs.permutation(n)]
    if kind in ("const", "mixed") and n >= 1:
        for j in rs.choice(n, size=max(1, n // 3), replace=False):
            d[:, j] = rs.randint(0, 2)
    if kind in ("dup", "mixed") and n >= 2:
        for _ in range(max(1, n // 3)):
            a, b = rs.choice(n, size=2, replace=False)
            d[:, b] = d[:, a] if rs.rand() < 0.6 else 1 - d[:, a]
    if kind == "allsame":
        d[:, :] = rs.randint(0, 2)
    return d


def gen_case(rs, idx, n):
    kind = ["tree", "iid", "const", "dup", "mixed", "tree", "few", "allsame"][idx % 8]
    if kind == "few":
        m = int(rs.randint(1, max(2, n)))          # fewer rows than variables (or a single row)
        dk = "tree"
    else:
        m = int(rs.choice([1, 2, 3, 5, 8, 13, 20, 35, 60]))
        dk = kind
    if idx % 37 == 36:
        m = 0
    data = gen_data(rs, n, dk, m)
    alpha = float(ALPHAS[idx % len(ALPHAS)]) if idx % 5 else float(np.float32(rs.uniform(0.002, 3.0)))
    scope = [int(v) for v in rs.permutation(max(n + 3, 12))[:n]]
    if idx % 3 == 0:
        scope = sorted(scope)
    req = None if idx % 4 == 3 else scope[int(rs.randint(n))]
    fit_seed = int(rs.randint(0, 2 ** 31 - 1))
    nq = 3
    queries = []
    for qi in range(nq):
        x = rs.randint(0, 2, size=n).astype(np.float32)
        if qi == 1:
            x[rs.rand(n) < 0.5] = np.nan
        if qi == 2:
            x[:] = np.nan
        queries.append(x)
    return dict(kind=kind, n=n, m=m, data=data, alpha=alpha, scope=scope, req=req, fit_seed=fit_seed,
                queries=queries)


# ---------------------------------------------------------------- implementation runner
def run_impl(case):
    from deeprob.spn.structure.cltree import BinaryCLT
    from deeprob.utils.statistics import estimate_priors_joints, compute_mutual_information
    n = case["n"]
    clt = BinaryCLT(list(case["scope"]), root=case["req"])
    clt.fit(case["data"].copy(), [[0, 1]] * n, alpha=case["alpha"], random_state=case["fit_seed"])
    pri, joi = estimate_priors_joints(case["data"].copy(), alpha=case["alpha"])
    mi = np.asarray(compute_mutual_information(pri, joi))
    out = dict(root=int(clt.root), tree=[int(t) for t in clt.tree], bfs=[int(b) for b in clt.bfs],
               params=np.exp(np.asarray(clt.params, dtype=np.float64)), mi=mi, clt=clt)
    Q = np.stack(case["queries"]).astype(np.float32)
    out["qlik"] = [float(v) for v in np.asarray(clt.likelihood(Q)).reshape(-1)]
    if n <= 10:
        X = np.array(list(itertools.product([0, 1], repeat=n)), dtype=np.float32)
        out["mass"] = float(np.asarray(clt.likelihood(X), dtype=np.float64).sum())
    else:
        out["mass"] = None
    return out


# ---------------------------------------------------------------- independent references (direct oracles)
def exact_counts(data):
    """direct row counting (no inclusion-exclusion): N1[i][k], N2[i][j][k][l]."""
    m, n = data.shape
    d = data.astype(np.int64)
    N1 = [[int(np.sum(d[:, i] == k)) for k in (0, 1)] for i in range(n)]
    N2 = [[[[int(np.sum((d[:, i] == k) & (d[:, j] == l))) for l in (0, 1)] for k in (0, 1)]
           for j in range(n)] for i in range(n)]
    return m, N1, N2


def ref_mi(data, alpha):
    m, N1, N2 = exact_counts(data)
    n = data.shape[1]
    a = Fraction(alpha); den = m + 4 * a
    R = np.zeros((n, n))
    for i in range(n):
        for j in range(n):
            if i == j:
                continue
            s = 0.0
            for k in (0, 1):
                for l in (0, 1):
                    J = (N2[i][j][k][l] + a) / den
                    P = ((N1[i][k] + 2 * a) / den) * ((N1[j][l] + 2 * a) / den)
                    s += float(J) * (math.log(J.numerator) - math.log(J.denominator)
                                     - math.log(P.numerator) + math.log(P.denominator))
            R[i, j] = s
    return R


def ref_cpt(data, alpha, tree):
    """smoothed empirical conditionals by direct counting: cpt[i][l][k]."""
    m, N1, N2 = exact_counts(data)
    a = Fraction(alpha)
    out = []
    for i, p in enumerate(tree):
        if p < 0:
            row = [(N1[i][k] + 2 * a) / (m + 4 * a) for k in (0, 1)]
            out.append([row, row])
        else:
            out.append([[(N2[i][p][k][l] + a) / (N1[p][l] + 2 * a) for k in (0, 1)] for l in (0, 1)])
    return out


def py_is_tree(tree, root):
    n = len(tree)
    if not (0 <= root < n) or tree[root] != -1:
        return False
    for i in range(n):
        if i != root and not (0 <= tree[i] < n):
            return False
        j = i; steps = 0
        while j != root:
            j = tree[j]; steps += 1
            if steps > n or j < 0:
                return False
    return True


def py_brute(Wm, root):
    """best rooted spanning tree by enumeration of all predecessor vectors (n <= 7)."""
    n = Wm.shape[0]
    best = None
    others = [i for i in range(n) if i != root]
    for choice in itertools.product(range(n), repeat=len(others)):
        t = [-1] * n
        for i, p in zip(others, choice):
            t[i] = p
        if any(t[i] == i for i in others) or not py_is_tree(t, root):
            continue
        wt = sum(Wm[i, t[i]] for i in others)
        if best is None or wt > best[0]:
            best = (wt, t)
    return best


def py_kruskal(Wm):
    n = Wm.shape[0]
    comp = list(range(n))
    def find(x):
        while comp[x] != x:
            comp[x] = comp[comp[x]]; x = comp[x]
        return x
    edges = sorted(((max(Wm[i, j], Wm[j, i]), i, j) for i in range(n) for j in range(i)), reverse=True)
    tot = 0.0
    for wgt, i, j in edges:
        a, b = find(i), find(j)
        if a != b:
            comp[a] = b; tot += wgt
    return tot


def direct_oracle(case, out):
    """the property itself, checked on the implementation's outputs with independent references.
    Returns a dict describing the first failure, or None."""
    n = case["n"]; data = case["data"]; alpha = case["alpha"]
    tree, root = out["tree"], out["root"]
    want = case["scope"].index(case["req"]) if case["req"] is not None else root
    if not (0 <= root < n) or root != want:
        return dict(what="root is not the requested / an in-scope variable", root=root, expected=want)
    if len(tree) != n or not py_is_tree(tree, want):
        return dict(what="predecessor vector is not a spanning tree rooted at the root", tree=tree, root=want)
    R = ref_mi(data, alpha)
    wt = sum(R[i, tree[i]] for i in range(n) if i != want)
    if n <= 7:
        best = py_brute(R, want)
        if best and wt < best[0] - 1e-5:
            return dict(what="tree does not maximise total mutual information (brute force over all spanning trees)",
                        tree=tree, weight=wt, better_tree=best[1], better_weight=best[0])
    else:
        kw = py_kruskal(R)
        if wt < kw - 1e-5:
            return dict(what="tree weight below an independent maximum spanning tree", tree=tree, weight=wt,
                        reference_weight=kw)
    cp = ref_cpt(data, alpha, tree)
    P = out["params"]
    for i in range(n):
        for l in (0, 1):
            if abs(P[i, l, 0] + P[i, l, 1] - 1.0) > 1e-5:
                return dict(what="CPT row does not sum to one", var=i, parent_value=l, row=P[i, l].tolist())
            for k in (0, 1):
                r = float(cp[i][l][k])
                if abs(P[i, l, k] - r) > 2e-4 * r + 1e-6:
                    return dict(what="CPT entry is not the smoothed empirical conditional", var=i, parent_value=l,
                                value=k, impl=float(P[i, l, k]), expected=r)
    if out["mass"] is not None and abs(out["mass"] - 1.0) > MASS_TOL:
        return dict(what="fitted tree is not normalised (sum over all assignments)", total_mass=out["mass"])
    return None


# ---------------------------------------------------------------- Coq case text
def scaled_mi(mi):
    fr = [[Fraction(float(x)) for x in row] for row in mi]
    D = 1
    for row in fr:
        for f in row:
            D = D * f.denominator // math.gcd(D, f.denominator)
    W = [[int(f * D) for f in row] for row in fr]
    slack = -((-len(mi) * D) // (2 ** 20))      # ceil(n * D / 2^20)
    return W, slack, D


def edge_eps(D):
    """tolerance of the cycle-property certificate per pair: ceil(D / 2^20) (8 float32 ulps of 1 + MI)."""
    return -((-D) // (2 ** 20))


def case_coq(case, out, want_root):
    n = case["n"]
    zrow = lambda r: "[" + "; ".join(str(int(v)) for v in r) + "]%Z"
    d = "[" + "; ".join(zrow(r) for r in case["data"]) + "]"
    par = "[" + "; ".join("None" if t < 0 else f"Some {t}%nat" for t in out["tree"]) + "]"
    params = C.coq_list([C.coq_list([C.coq_list([C.qlit(float(out["params"][i, l, k])) for k in (0, 1)])
                                     for l in (0, 1)]) for i in range(n)])
    W, slack, D_ = scaled_mi(out["mi"])
    Wc = "[" + "; ".join(zrow(r) for r in W) + "]"
    width = max(case["scope"]) + 1
    qs = []
    for x, lik in zip(case["queries"], out["qlik"]):
        cells = ["N_"] * width
        for pos, v in enumerate(case["scope"]):
            if not np.isnan(x[pos]):
                cells[v] = f"S_ {int(x[pos])}"
        qs.append("([" + "; ".join(cells) + "], " + C.qlit(lik) + ")")
    return (f"(run_c11case {d} {C.qlit(Fraction(case['alpha']))} {want_root}%nat {par} {C.natlist(out['bfs'])}\n"
            f"  {params}\n  {Wc} ({slack})%Z ({edge_eps(D_)})%Z {C.natlist(case['scope'])} {C.coq_list(qs)})")


FLAGS = {1: "params differ from the model's smoothed conditionals", 2: "predecessor vector is not a spanning tree rooted at the root",
         4: "tree weight below the brute-force maximum over all spanning trees", 8: "tree weight below the model's Prim reference",
         16: "bfs order invalid", 32: "model's fitted tree malformed / all-missing value is not one",
         64: "likelihood of a query row differs from the model's fitted tree", 128: "data not binary (generator error)",
         256: "cycle-property certificate fails: some pair of variables is not connected by tree edges at least as heavy as its mutual information (the tree is not a maximum spanning tree)"}


def brief(case, out=None):
    b = dict(kind=case["kind"], n=case["n"], rows=case["m"], alpha=case["alpha"], scope=case["scope"],
             requested_root=case["req"], fit_random_state=case["fit_seed"],
             data=case["data"].astype(int).tolist())
    if out is not None:
        b.update(impl_root=out["root"], impl_tree=out["tree"], impl_bfs=out["bfs"],
                 impl_params=np.round(out["params"], 7).tolist(), impl_total_mass=out["mass"])
    return b


def sizes(tier):
    if tier == "quick":
        return {1: 12, 2: 24, 3: 40, 4: 48, 5: 48, 6: 32, 7: 16, 8: 8, 9: 8, 10: 8, 12: 8, 14: 8}
    return {1: 16, 2: 160, 3: 500, 4: 800, 5: 800, 6: 500, 7: 250, 8: 100, 9: 100, 10: 100, 11: 80, 12: 80, 13: 80, 14: 80}


def main(tier, seed, replay=None):
    rep = C.Report(PID, tier, seed)
    rs = np.random.RandomState(seed % (2 ** 31))
    C.proof_stage(rep, PID, pre_build=pre_build)
    rep.cov["trusted_base"] += [
        "harness/c11.py: generator, mapping of BinaryCLT attributes (root, tree, bfs, exp(params)) to Model/ChowLiuRun.v literals, scaling of the float32 MI matrix to integers (exact, common denominator), tolerances (params 2e-4 rel + 1e-6 abs, tree weight n*2^-20, MI 2e-5, mass 2e-4)",
        "scipy.sparse.csgraph minimum_spanning_tree / breadth_first_order are NOT modelled: their output is certificate-checked per run (is_tree, brute_max for n <= 7, Prim reference above)",
        "compute_mutual_information is tied in Python only (float64 recomputation from exact counts); Model/ChowLiu.v mi_pair is not executed",
        "float32 rounding absorbed by the tolerances; numpy einsum / broadcasting modelled index-wise"]
    rep.assumptions += ["optimality of the implementation's tree for n > 7 is differential (Prim / Kruskal references), not certified by brute force",
                        "alpha > 0 (the property's premise); alpha = 0 is not generated"]
    run_tie(rep, tier, rs, replay)
    C.clean_gen(PID)
    return rep.finish("proof")


def run_tie(rep, tier, rs, replay=None):
    cases = []
    if replay:
        try:
            r = json.load(open(replay))
            b = r.get("case", r)
            cases.append(dict(kind=b.get("kind", "replay"), n=b["n"], m=b["rows"], data=np.array(b["data"], dtype=np.float32).reshape(b["rows"], b["n"]),
                              alpha=b["alpha"], scope=b["scope"], req=b["requested_root"], fit_seed=b["fit_random_state"],
                              queries=[np.full(b["n"], np.nan, dtype=np.float32)]))
        except Exception as e:  # noqa
            print(f"replay file not usable ({e}); running the generated cases")
    if not cases:
        idx = 0
        for n, cnt in sizes(tier).items():
            for _ in range(cnt):
                cases.append(gen_case(rs, idx, n)); idx += 1
    dist = dict(n={}, kind={}, rows_lt_vars=0, const_cols=0, dup_cols=0, root_random=0, zero_rows=0)
    runs = []
    ndirect = 0
    for case in cases:
        n = case["n"]; d = case["data"]
        dist["n"][n] = dist["n"].get(n, 0) + 1
        dist["kind"][case["kind"]] = dist["kind"].get(case["kind"], 0) + 1
        dist["rows_lt_vars"] += int(case["m"] < n); dist["zero_rows"] += int(case["m"] == 0)
        dist["root_random"] += int(case["req"] is None)
        if case["m"] > 0:
            dist["const_cols"] += int(np.any(np.all(d == d[0:1], axis=0)))
            dist["dup_cols"] += int(any(np.array_equal(d[:, a], d[:, b]) or np.array_equal(d[:, a], 1 - d[:, b])
                                        for a in range(n) for b in range(a)))
        try:
            out = run_impl(case)
        except Exception as e:  # the fit must succeed on every binary matrix with alpha > 0
            ndirect += 1
            if ndirect <= 5:
                rep.violation(dict(kind="fit-raised", error=f"{type(e).__name__}: {e}", case=brief(case)), True)
            continue
        # the same 0/1 matrix stored with other dtypes (bool, narrow and wide integers, float64) and repeated to >= 300 rows
        # (counts beyond the range of a narrow integer) must give the same tree and tables
        if case["m"] > 0 and case["req"] is not None and dist.get("dtype_cases", 0) < (12 if tier == "quick" else 80) and len(runs) % 3 == 0:
            dist["dtype_cases"] = dist.get("dtype_cases", 0) + 1
            from deeprob.spn.structure.cltree import BinaryCLT as _CLT
            reps_ = int(np.ceil(320.0 / case["m"])) if dist["dtype_cases"] % 2 == 0 else 1
            big = np.tile(case["data"], (reps_, 1))
            def fit_as(dt):
                c_ = _CLT(list(case["scope"]), root=case["req"])
                with np.errstate(all="ignore"):
                    c_.fit(big.astype(dt), [[0, 1]] * n, alpha=case["alpha"], random_state=case["fit_seed"])
                return [int(t) for t in c_.tree], np.asarray(c_.params, dtype=np.float64)
            try:
                t0_, p0_ = fit_as(np.float32)
                for dt in (np.float64, np.int64, np.int8, np.uint8, np.bool_):
                    t1_, p1_ = fit_as(dt)
                    # compared as probabilities: float32 forms 1 - p, so a tiny probability carries an ABSOLUTE error of ~6e-8
                    if t1_ != t0_:
                        # two spanning trees of (numerically) equal total mutual information are both maximal: which one the
                        # spanning-tree routine returns on an exact tie is not the property's business
                        R_ = ref_mi(np.asarray(big, dtype=np.float64), case["alpha"])
                        tot = lambda tr: sum(R_[i_, pa_] for i_, pa_ in enumerate(tr) if pa_ >= 0)
                        if abs(tot(t0_) - tot(t1_)) <= 1e-6 * max(1.0, abs(tot(t0_))):
                            dist["dtype_tree_ties"] = dist.get("dtype_tree_ties", 0) + 1
                            continue
                    if t1_ != t0_ or not np.allclose(np.exp(p1_), np.exp(p0_), rtol=2e-4, atol=1e-6, equal_nan=True):
                        ndirect += 1
                        if ndirect <= 5:
                            rep.violation(dict(kind="fit-depends-on-the-dtype-the-data-is-stored-in", dtype=np.dtype(dt).name, rows=int(len(big)),
                                               tree_float32=t0_, tree_this_dtype=t1_, params_float32=p0_.tolist(), params_this_dtype=p1_.tolist(),
                                               case=brief(case)), True)
                        break
            except Exception as e:
                ndirect += 1
                if ndirect <= 5:
                    rep.violation(dict(kind="fit-raised", error=f"{type(e).__name__}: {e}", what="same data, other dtype", case=brief(case)), True)
        # python-side clauses (correspondence-only)
        want = case["scope"].index(case["req"]) if case["req"] is not None else out["root"]
        bad = None; malformed = False
        if not (0 <= out["root"] < n) or out["root"] != want:
            bad = dict(what="root is not the requested / an in-scope variable", root=out["root"], expected=want)
            want = want if 0 <= want < n else 0
        elif len(out["tree"]) != n or len(out["bfs"]) > n or out["params"].shape != (n, 2, 2) or out["mi"].shape != (n, n) \
                or not np.all(np.isfinite(out["params"])) or not np.all(np.isfinite(out["mi"])) \
                or any(not (-1 <= t < n) for t in out["tree"]) or any(not (0 <= b < n) for b in out["bfs"]):
            bad = dict(what="malformed output (shape / range / non-finite values)"); malformed = True
        else:
            R = ref_mi(d, case["alpha"])
            err = float(np.max(np.abs(out["mi"] - R))) if n > 1 else 0.0
            if err > MI_TOL:
                bad = dict(what="mutual information matrix differs from the float64 recomputation from exact counts",
                           max_abs_error=err, impl=out["mi"].tolist(), reference=R.tolist())
            elif out["mass"] is not None and abs(out["mass"] - 1.0) > MASS_TOL:
                bad = dict(what="fitted tree is not normalised (sum over all assignments)", total_mass=out["mass"])
        if bad:
            ndirect += 1
            if ndirect <= 5:      # every further failing case is still counted in the evidence
                rep.violation(dict(kind="direct-check-failed", failure=bad, case=brief(case, out)), True)
            if malformed:
                continue
        runs.append((case, out, want))
    rep.cov["input_distribution"] = dist
    rep.cov["direct_check_failures"] = ndirect
    # E1 shards, balanced by brute-force cost
    cost = lambda c: c["n"] ** max(c["n"] - 1, 1) * c["n"] if c["n"] <= 7 else 5000
    order = sorted(range(len(runs)), key=lambda i: -cost(runs[i][0]))
    nshard = max(1, min(C.NPROC, len(runs)))
    shards = [[] for _ in range(nshard)]
    load = [0] * nshard
    for i in order:
        k = load.index(min(load)); shards[k].append(i); load[k] += cost(runs[i][0]) + 2000
    files = []
    for k, sh in enumerate(shards):
        if not sh:
            continue
        body = ["From Coq Require Import List ZArith QArith Qcanon.",
                "From DV Require Import Model.Core Model.Clt Model.QcInst Model.ChowLiu Model.ChowLiuRun.",
                "Import ListNotations.",
                "Eval vm_compute in ([" + ";\n".join(case_coq(*runs[i]) for i in sh) + "])."]
        files.append((f"cases_{k}", "\n".join(body)))
    res = C.run_case_files(PID, files, timeout=1500) if files else []
    flagged = []
    live = [sh for sh in shards if sh]
    for (name, rc, ints, raw), sh in zip(res, live):
        if rc != 0 or ints is None or len(ints) != len(sh):
            rep.obligation(False)
            rep.violation(dict(kind="correspondence-shard-failed", shard=name, log=raw), False)
            continue
        rep.obligation(True)
        for i, code in zip(sh, ints):
            case, out, want = runs[i]
            rep.count(dict(d=case["data"].tolist(), a=case["alpha"], r=case["req"], s=case["scope"]),
                      nontrivial=case["n"] >= 2 and case["m"] >= 1)
            if code:
                flagged.append((i, code))
    for case, out, want in runs[:1] + runs[len(runs) // 2:len(runs) // 2 + 1] + runs[-1:]:
        b = brief(case, out); b.pop("impl_params")
        rep.sample(b)
    for i, code in sorted(flagged)[:5]:
        case, out, want = runs[i]
        bad = direct_oracle(case, out)
        rep.violation(dict(kind="model-implementation-disagreement", flags=code,
                           flag_meaning=[v for k, v in FLAGS.items() if code & k],
                           direct_oracle=bad, case=brief(case, out)), found_input=bad is not None)
    rep.cov["rule"] = ("binary matrices with n = 1..7 (brute force over all n^(n-1) predecessor vectors) and 8..14 (Prim reference) columns, "
                       "0..60 rows (kinds: noisy random-tree copies, iid, constant columns, duplicated / negated columns, mixed, fewer rows than "
                       "variables, all cells equal), alpha in {0.1,1,0.5,0.01,2,0.25,0.001} or uniform(0.002,3), scope = random distinct ids "
                       "(sorted in 1/3 of the cases), root requested in 3/4 of the cases and random (seeded) otherwise; one evaluation = one fit "
                       "(params, tree, bfs, tree weight, 3 query likelihoods compared inside Coq; MI matrix and total mass in Python); "
                       "non-trivial = at least 2 variables and 1 row; distinct by (data, alpha, root, scope)")
