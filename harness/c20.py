"""C20 — scikit-learn facade agrees with the circuit it wraps.
Proof: Properties/C20.v (model: Model/Facade.v).  Tie: SPNClassifier / SPNEstimator fitted on generated
data sets (2-4 classes; Bernoulli / Categorical / Gaussian features; several learner settings), queried
with batches whose size equals and differs from the class count, with and without NaNs; the facade's
outputs are compared inside Coq (engine E1) with the model evaluated on the wrapped circuit extracted
by harness/circuits.py; pass-throughs (estimator log-probabilities, MPE, sampling, score; classifier
sampling) are compared with the core functions on the wrapped circuit (correspondence-only).
Direct oracle: normalisation over classes and recomputation of the posterior from the class
sub-circuits with the core log_likelihood."""
import os, copy, json, time, math
from fractions import Fraction
import numpy as np
from . import common as C
from . import circuits as G

PID = "C20"
MYFILES = ["Model/Facade.v", "Model/FacadeRun.v", "Proofs/FacadeFacts.v", "Proofs/FacadeExamples.v",
           "Pinned/FacadePinned.v"]
DEPS = ["Model/Core.vo", "Model/Clt.vo", "Model/Leaves.vo", "Model/Check.vo", "Model/QcInst.vo", "Model/Run.vo",
        "Model/Mpe.vo", "Model/MpeRun.vo", "Proofs/CoreFacts.vo", "Proofs/MpeFacts.vo", "Proofs/CheckFacts.vo",
        "Proofs/QcLaws.vo", "Proofs/Examples.vo"]
HEADER = ["From Coq Require Import List ZArith QArith Qcanon.",
          "From DV Require Import Model.Core Model.Clt Model.Leaves Model.QcInst Model.Mpe Model.MpeRun "
          "Model.Facade Model.FacadeRun.",
          "Import ListNotations. Open Scope Z_scope."]
GRID = 2 ** 30
MAX_PERTURB = 1e-6


def pre_build():
    """shared build, then this property's files while they are not listed in _CoqProject."""
    ok, log = C.build_coq()
    if not ok:
        return log
    proj = open(os.path.join(C.COQ, "_CoqProject")).read()
    with C.Lock(os.path.join(C.COQ, ".build.lock")):
        newest = max(os.path.getmtime(os.path.join(C.COQ, f)) for f in DEPS)
        for f in MYFILES:
            if f in proj:
                continue
            src = os.path.join(C.COQ, f)
            vo = src[:-2] + ".vo"
            newest = max(newest, os.path.getmtime(src))
            if not os.path.exists(vo) or os.path.getmtime(vo) < newest:
                rc, out = C.sh(f"timeout 900 coqc -R . DV {f}", cwd=C.COQ, timeout=950)
                if rc != 0:
                    return f"coqc {f} failed:\n{out[-3000:]}"
            newest = max(newest, os.path.getmtime(vo))
    return None


# ------------------------------------------------------------------ data sets and settings
def gen_dataset(rs, tier, idx):
    """class-dependent feature distributions; every class has at least 6 rows; labels 0..k-1 or (k >= 3) k arbitrary codes in 0..8."""
    k = [2, 3, 4][idx % 3]
    regime = ["binary", "discrete", "mixed", "binary-clt"][(idx // 3) % 4]
    nf = int(rs.randint(2, 5 if tier == "quick" else 7))
    n = int(rs.randint(60, 200 if tier == "quick" else 400))
    if regime == "binary-clt":
        k = 2
    kinds = []
    for j in range(nf):
        if regime in ("binary", "binary-clt"):
            kinds.append("bern")
        elif regime == "discrete":
            kinds.append(["bern", "cat"][int(rs.randint(2))])
        else:
            kinds.append(["bern", "cat", "gauss"][int(rs.randint(3))])
    if regime == "mixed" and "gauss" not in kinds:
        kinds[int(rs.randint(nf))] = "gauss"
    y = rs.randint(0, k, size=n)
    if idx % 5 == 4:                       # unbalanced priors
        y = np.minimum(y, rs.randint(0, k, size=n))
    for c in range(k):
        y[6 * c: 6 * c + 6] = c
    X = np.zeros((n, nf), dtype=np.float32)
    ncat = {}
    for j, kd in enumerate(kinds):
        if kd == "bern":
            p = rs.uniform(0.1, 0.9, size=k)
            X[:, j] = rs.rand(n) < p[y]
            X[:2, j] = [0, 1]
        elif kd == "cat":
            m = int(rs.randint(3, 5)); ncat[j] = m
            P = rs.dirichlet(np.ones(m) * 1.5, size=k)
            X[:, j] = [rs.choice(m, p=P[c]) for c in y]
            X[:m, j] = np.arange(m)
        else:
            mu = rs.randint(-6, 7, size=k) / 2.0
            sd = rs.randint(2, 7, size=k) / 4.0
            X[:, j] = np.round((mu[y] + sd[y] * rs.randn(n)) * 8) / 8
    perm = rs.permutation(n)
    if k >= 3 and idx % 2 == 1:            # multi-class labels need not be 0..k-1 (binary ones must be {0,1}: Bernoulli label leaf)
        labels = np.sort(rs.choice(9, size=k, replace=False))
        y = labels[y]
    return dict(k=k, regime=regime, kinds=kinds, X=X[perm], y=y[perm].astype(np.int64), ncat=ncat)


def gen_settings(rs, ds, idx, seed):
    n = len(ds["X"])
    discrete = "gauss" not in ds["kinds"]
    rows = ["kmeans", "gmm", "rdc", "random"][int(rs.randint(4))]
    cols_all = ["rdc", "random", "ebvs"] + (["gvs", "rgvs", "wrgvs"] if discrete else [])
    cols = cols_all[int(rs.randint(len(cols_all)))]
    kw = dict(split_rows=rows, split_cols=cols,
              min_rows_slice=int([n + 1, max(8, n // 3), max(8, n // 8), 12][int(rs.randint(4))]),
              min_cols_slice=int(rs.randint(1, 3)), random_state=int(seed % 100000 + idx), verbose=False)
    if ds["regime"] == "binary-clt":
        kw["learn_leaf"] = "binary-clt"
    return kw


def dist_classes(kinds):
    from deeprob.spn.structure.leaf import Bernoulli, Categorical, Gaussian
    return [dict(bern=Bernoulli, cat=Categorical, gauss=Gaussian)[k] for k in kinds]


def make_points(ds):
    """finite test-point set of every continuous column (quantiles of the training column, on the 1/8 grid)."""
    pts = {}
    for j, kd in enumerate(ds["kinds"]):
        if kd == "gauss":
            qs = np.quantile(ds["X"][:, j], [0.05, 0.35, 0.65, 0.95])
            p = sorted(set(float(np.round(q * 8) / 8) for q in qs))
            # one far-out point (about 14 standard deviations): rows of very different evidence likelihood in one batch
            col = ds["X"][:, j]
            p.append(float(np.round((col.max() + 14.0 * (col.std() + 0.25)) * 8) / 8))
            pts[j] = p
    return pts


def gen_batch(rs, ds, points, size, nans):
    """codes (dict var -> int code or None) of `size` query rows."""
    rows = []
    nf = len(ds["kinds"])
    for s in range(size):
        c = {}
        for j, kd in enumerate(ds["kinds"]):
            if kd == "bern":
                c[j] = int(rs.randint(2))
            elif kd == "cat":
                c[j] = int(rs.randint(ds["ncat"][j]))
            else:
                c[j] = int(rs.randint(len(points[j])))
            if nans and rs.rand() < 0.35:
                c[j] = None
        if nans and s == size - 1 and rs.rand() < 0.5:
            c = {j: None for j in range(nf)}          # nothing observed: the posterior is the prior
        rows.append(c)
    return rows


# ------------------------------------------------------------------ extraction
def snap(vals):
    """project a probability vector onto the 2^-30 grid with exact sum one; returns (fractions, perturbation)."""
    ints = [int(round(float(v) * GRID)) for v in vals]
    j = int(np.argmax(ints))
    ints[j] += GRID - sum(ints)
    out = [Fraction(i, GRID) for i in ints]
    return out, max(abs(float(o) - float(v)) for o, v in zip(out, vals))


def extract(root, points):
    """wrapped circuit -> model table: harness/circuits.py Table, then parameters snapped to a dyadic
    grid (perturbation <= MAX_PERTURB, otherwise left as they are so that the certificate fails),
    Bernoulli tables with the entry of 1 first (`0 if p < 0.5 else 1`), densities rounded to float32."""
    tab = G.Table(root, points)
    from deeprob.spn.structure.leaf import Bernoulli
    worst = 0.0
    for n, o in zip(tab.nodes, tab.objs):
        if n["kind"] == "sum":
            ws, d = snap(n["ws"])
            if d <= MAX_PERTURB:
                n["ws"] = ws
            worst = max(worst, d)
        elif n["kind"] == "tab" and n.get("cont"):
            n["tab"] = [(x, Fraction(float(np.float32(float(p))))) for x, p in n["tab"]]
        elif n["kind"] == "tab":
            ps, d = snap([p for _, p in n["tab"]])
            if d <= MAX_PERTURB:
                n["tab"] = [(x, p) for (x, _), p in zip(n["tab"], ps)]
            worst = max(worst, d)
            if isinstance(o, Bernoulli):
                n["tab"] = [n["tab"][1], n["tab"][0]]
        elif n["kind"] == "clt":
            for tbl in n["cpt"]:
                for l in (0, 1):
                    ps, d = snap(tbl[l])
                    if d <= MAX_PERTURB:
                        tbl[l] = ps
                    worst = max(worst, d)
    return tab, worst


def doms_coq(dom):
    return C.coq_list([f"({v}%nat, " + C.coq_list([C.zlit(x) for x in d]) + ")" for v, d in sorted(dom.items())])


def cells_coq(x, width, points=None):
    out = []
    for v in range(width):
        out.append("N_" if np.isnan(x[v]) else f"S_ {C.zlit(int(x[v]))}")
    return "[" + "; ".join(out) + "]"


# ------------------------------------------------------------------ direct oracle
def oracle_posterior(spn, Q):
    """the property itself on the implementation: posterior recomputed from the class sub-circuits
    (deep copies with their own ids) with the core log_likelihood, normalised over classes."""
    from deeprob.spn.algorithms.inference import log_likelihood
    from deeprob.spn.structure.node import assign_ids
    data = np.hstack([Q, np.full([len(Q), 1], np.nan, dtype=Q.dtype)])
    cols = []
    for w, ch in zip(spn.weights, spn.children):
        sub = assign_ids(copy.deepcopy(ch))
        with np.errstate(all="ignore"):
            ll = np.asarray(log_likelihood(sub, data.copy()), dtype=np.float64).reshape(-1)
        cols.append(math.log(float(w)) + ll if float(w) > 0 else np.full(len(Q), -np.inf))
    Z = np.stack(cols, axis=1)
    Z = Z - Z.max(axis=1, keepdims=True)
    P = np.exp(Z)
    return P / P.sum(axis=1, keepdims=True)


def oracle_check(spn, classes, Q, P, pred):
    """returns None or a description of how the facade output violates the property on this batch."""
    k = len(classes)
    if not isinstance(P, np.ndarray) or P.shape != (len(Q), k):
        return dict(what="predict_proba does not have one row per sample and one column per class",
                    shape=list(getattr(P, "shape", [])), expected=[len(Q), k])
    if not np.all(np.isfinite(P)) or np.abs(P.sum(axis=1) - 1.0).max() > 1e-4:
        return dict(what="rows of predict_proba do not sum to one", row_sums=P.sum(axis=1).tolist())
    R = oracle_posterior(spn, Q)
    if np.abs(P - R).max() > 1e-4:
        i, c = np.unravel_index(np.abs(P - R).argmax(), P.shape)
        return dict(what="predict_proba is not the normalised product of class prior and class-conditional evidence likelihood",
                    sample=int(i), cls=int(c), facade=float(P[i, c]), recomputed=float(R[i, c]))
    if pred is not None:
        if np.shape(pred) != (len(Q),):
            return dict(what="predict does not return one class per sample", shape=list(np.shape(pred)))
        srt = np.sort(R, axis=1)
        clear = srt[:, -1] - srt[:, -2] > 1e-3 * srt[:, -1]
        am = np.asarray(classes)[R.argmax(axis=1)]
        bad = np.where(clear & (am != np.asarray(pred)))[0]
        if len(bad):
            i = int(bad[0])
            return dict(what="predict is not the class of the largest predict_proba entry", sample=i,
                        predicted=float(pred[i]), argmax_class=float(am[i]), proba=R[i].tolist())
    return None


# ------------------------------------------------------------------ pass-throughs (correspondence-only)
def same(a, b):
    return isinstance(a, np.ndarray) and isinstance(b, np.ndarray) and a.shape == b.shape and np.array_equal(a, b, equal_nan=True)


def near(a, b):
    """sampled arrays: same shape and values (continuous draws are stored in the dtype of the input array)."""
    a = np.asarray(a, dtype=np.float64); b = np.asarray(b, dtype=np.float64)
    return a.shape == b.shape and np.allclose(a, b, rtol=1e-5, atol=1e-6, equal_nan=True)


def estimator_passthrough(est, Q, Qn, rs_seed, dom):
    """SPNEstimator against the core functions on est.spn_; returns a list of problems."""
    from deeprob.spn.algorithms.inference import log_likelihood, mpe
    from deeprob.spn.algorithms.sampling import sample
    bad = []
    nf = Q.shape[1]
    for name, B in (("complete", Q), ("with-nan", Qn)):
        B0 = B.copy()
        ll = est.predict_log_proba(B)
        if not same(np.asarray(ll), np.asarray(log_likelihood(est.spn_, B0.copy()))) or np.shape(ll)[0] != len(B):
            bad.append(dict(what=f"predict_log_proba differs from log_likelihood of the wrapped circuit ({name})"))
        sc = est.score(B)
        ref = np.asarray(log_likelihood(est.spn_, B0.copy()), dtype=np.float64)
        want = dict(mean_ll=float(np.mean(ref)), stddev_ll=float(2.0 * np.std(ref) / np.sqrt(len(B))))
        if set(sc) != set(want) or any(abs(float(sc[k_]) - want[k_]) > 1e-5 * (1 + abs(want[k_])) for k_ in want):
            bad.append(dict(what=f"score is not mean / two standard errors of the wrapped circuit's log-likelihoods ({name})",
                            got={k_: float(v) for k_, v in sc.items()}, want=want))
        m = est.mpe(B)
        if not same(m, mpe(est.spn_, B0.copy())):
            bad.append(dict(what=f"mpe differs from the wrapped circuit's mpe ({name})"))
        obs = ~np.isnan(B0)
        if m.shape != B0.shape or not np.array_equal(m[obs], B0[obs]) or np.isnan(m).any():
            bad.append(dict(what=f"mpe does not keep the evidence / leaves NaNs / changes the row count ({name})"))
        if not same(B, B0):
            bad.append(dict(what=f"the caller's array was modified ({name})"))
    for n in (None, 1, 5):
        np.random.seed(rs_seed)
        S = est.sample(n) if n is not None else est.sample()
        np.random.seed(rs_seed)
        R = sample(est.spn_, np.full([1 if n is None else n, nf], np.nan, dtype=np.float32))
        if not near(S, R):
            bad.append(dict(what=f"sample(n={n}) differs from sampling the wrapped circuit / wrong row count",
                            shape=list(np.shape(S))))
        elif np.isnan(S).any() or any(int(S[i, v]) not in dom[v] for i in range(len(S)) for v in dom):
            bad.append(dict(what=f"sample(n={n}) leaves NaNs or leaves the domain"))
    from deeprob.spn.structure.leaf import Bernoulli as _Be, Categorical as _Ca
    disc_vars = {int(o.scope[0]) for o in G.post_order(est.spn_) if isinstance(o, (_Be, _Ca))}
    ddom = {v: d for v, d in dom.items() if v in disc_vars}
    ev = [v for v in sorted(ddom) if v < nf and not np.isnan(Q[0, v])][:1]
    if ev:
        pb = law_check(lambda B: est.sample(X=B), est.spn_, nf, {ev[0]: float(Q[0, ev[0]])}, ddom, "estimator sample(X=[row]*N)")
        if pb:
            bad.append(pb)
    B0 = Qn.copy()
    np.random.seed(rs_seed + 1)
    S = est.sample(X=Qn)
    np.random.seed(rs_seed + 1)
    R = sample(est.spn_, B0.copy())
    obs = ~np.isnan(B0)
    if not near(S, R) or S.shape != B0.shape or not np.array_equal(S[obs], B0[obs]) or np.isnan(S).any():
        bad.append(dict(what="sample(X) differs from conditional sampling of the wrapped circuit / evidence not preserved"))
    if not same(Qn, B0):
        bad.append(dict(what="sample(X) modified the caller's array"))
    try:
        est.sample(n=2, X=Qn)
        bad.append(dict(what="sample(n, X) together did not raise ValueError"))
    except ValueError:
        pass
    return bad


def law_check(draw, spn, width, evid, dom, what, N=3000):
    """N conditional draws through the facade on a HOMOGENEOUS batch (every row carries the evidence `evid`) against the wrapped
    circuit's own conditional marginals P(x_v = a | evid) = L(evid, x_v = a) / L(evid) of up to three discrete variables; the
    radius is Hoeffding's with a union bound over all cells at confidence 1 - 1e-10.  Returns a problem or None."""
    from deeprob.spn.algorithms.inference import likelihood
    free = [v for v in sorted(dom) if v not in evid and v < width and 2 <= len(dom[v]) <= 6][:3]
    if not free:
        return None
    base = np.full((1, width), np.nan, dtype=np.float32)
    for v, a in evid.items():
        base[0, v] = a
    with np.errstate(all="ignore"):
        den = float(likelihood(spn, base.copy()).reshape(-1)[0])
    if not den > 1e-6:
        return None
    S = np.asarray(draw(np.tile(base, (N, 1))), dtype=np.float64)
    if S.shape != (N, width):
        return dict(what=f"{what}: wrong shape", shape=list(S.shape))
    cells = sum(len(dom[v]) for v in free)
    eps = math.sqrt(math.log(2.0 * cells / 1e-10) / (2.0 * N))
    for v in free:
        rows = []
        for a in dom[v]:
            r = base.copy(); r[0, v] = a; rows.append(r[0])
        with np.errstate(all="ignore"):
            pcond = likelihood(spn, np.array(rows, dtype=np.float32)).reshape(-1).astype(np.float64) / den
        f = np.array([float(np.mean(S[:, v] == a)) for a in dom[v]])
        if np.abs(f - pcond).max() > eps:
            j = int(np.argmax(np.abs(f - pcond)))
            return dict(what=f"{what}: conditional samples do not follow the wrapped circuit's conditional distribution",
                        evidence={int(k_): float(a_) for k_, a_ in evid.items()}, variable=int(v), value=int(dom[v][j]),
                        frequency=float(f[j]), circuit_conditional=float(pcond[j]), draws=N, radius=float(eps))
    return None


def offset_stage(rep, rs, tier):
    """double-precision features far from the origin (a counter, a timestamp: 1e6 + noise with standard deviation 1/2, where the
    single-precision spacing is 1/16): predict_proba / predict_log_proba of the classifier and predict_log_proba of the estimator
    against an independent float64 evaluation of the wrapped circuit at the values SUPPLIED (harness/circuits.py)."""
    from deeprob.spn.models.sklearn import SPNClassifier, SPNEstimator
    from deeprob.spn.structure.leaf import Bernoulli, Gaussian
    nbad = 0; done = 0
    for i in range(3 if tier == "quick" else 12):
        k = int(rs.choice([2, 3])); n = 240
        y = rs.randint(0, k, size=n)
        off = float(rs.choice([1.0e6, 2.0e6, -1.5e6]))
        X = np.zeros((n, 3), dtype=np.float64)
        X[:, 0] = off + 1.5 * y + 0.5 * rs.randn(n)
        X[:, 1] = (rs.rand(n) < np.where(y == 0, 0.25, 0.7)).astype(np.float64)
        X[:, 2] = 0.5 * y + rs.randn(n)
        Q = np.zeros((7, 3), dtype=np.float64)
        Q[:, 0] = off + 1.5 * rs.randint(0, k, size=7) + 0.5 * rs.randn(7); Q[:, 1] = rs.randint(0, 2, size=7); Q[:, 2] = rs.randn(7)
        problem = None
        try:
            import io as _io, contextlib as _cl, warnings as _w
            with _w.catch_warnings(), _cl.redirect_stdout(_io.StringIO()), np.errstate(all="ignore"):
                _w.simplefilter("ignore")
                clf = SPNClassifier([Gaussian, Bernoulli, Gaussian], min_rows_slice=60, random_state=int(rs.randint(1000)), verbose=False)
                clf.fit(X, y)
                P = np.asarray(clf.predict_proba(Q), dtype=np.float64)
                est = SPNEstimator([Gaussian, Bernoulli, Gaussian], min_rows_slice=60, random_state=int(rs.randint(1000)), verbose=False)
                est.fit(X)
                LLe = np.asarray(est.predict_log_proba(Q), dtype=np.float64).reshape(-1)
            classes = [float(c) for c in clf.classes_] if hasattr(clf, "classes_") else [float(c) for c in range(k)]
            R = np.zeros((len(Q), len(classes)))
            root_ = clf.spn_
            if len(root_.children) != len(classes):
                raise RuntimeError("classifier root does not have one child per class")
            for r in range(len(Q)):
                # prior x class-conditional evidence likelihood, the label marginalised exactly (sum over the label's values)
                lls = []
                for w_, ch_ in zip(root_.weights, root_.children):
                    per_label = [G.py_log_likelihood(ch_, list(Q[r]) + [c]) for c in classes]
                    m_ = max(per_label)
                    lls.append(math.log(float(w_)) + m_ + math.log(sum(math.exp(t - m_) for t in per_label)))
                lls = np.array(lls); lls = lls - lls.max(); R[r] = np.exp(lls) / np.exp(lls).sum()
            refe = np.array([G.py_log_likelihood(est.spn_, list(Q[r])) for r in range(len(Q))])
            if P.shape != R.shape or not np.all(np.abs(P - R) <= 2e-3):
                r, c = np.unravel_index(int(np.argmax(np.abs(P - R))), R.shape) if P.shape == R.shape else (0, 0)
                problem = dict(what="predict_proba differs from prior x class-conditional likelihood of the wrapped circuit at the float64 values supplied",
                               row=[repr(float(t)) for t in Q[r]], cls=int(c), facade=float(P[r, c]) if P.shape == R.shape else list(P.shape), recomputed=float(R[r, c]))
            elif not np.all(np.abs(LLe - refe) <= 2e-3 * np.abs(refe) + 2e-3):
                r = int(np.argmax(np.abs(LLe - refe)))
                problem = dict(what="estimator predict_log_proba differs from the wrapped circuit's log-density at the float64 values supplied",
                               row=[repr(float(t)) for t in Q[r]], facade=float(LLe[r]), recomputed=float(refe[r]))
        except Exception as e:
            problem = dict(what="facade raised on double-precision features far from the origin", error=f"{type(e).__name__}: {e}")
        done += 1
        if problem:
            nbad += 1
            if nbad <= 3:
                rep.violation(dict(kind="facade-on-float64-features-far-from-the-origin", offset=off, classes=k, problem=problem), True)
    rep.cov["float64_offset_models"] = done


def classifier_sampling(clf, classes, rs, rs_seed, dom=None):
    from deeprob.spn.algorithms.sampling import sample
    bad = []
    nf = clf.n_features_
    if dom:
        for c in list(classes)[:2]:
            pb = law_check(lambda B: clf.sample(y=B[:, nf].copy()), clf.spn_, nf + 1, {nf: float(c)}, dom, f"classifier sample(y=[{c}]*N)")
            if pb:
                bad.append(pb); break
    for n in (None, 1, 4):
        np.random.seed(rs_seed)
        S = clf.sample(n) if n is not None else clf.sample()
        np.random.seed(rs_seed)
        R = sample(clf.spn_, np.full([1 if n is None else n, nf + 1], np.nan, dtype=np.float32))
        if not near(S, R) or np.isnan(S).any():
            bad.append(dict(what=f"classifier sample(n={n}) differs from sampling the wrapped circuit / wrong row count",
                            shape=list(np.shape(S))))
    ys = np.asarray(classes)[rs.randint(0, len(classes), size=len(classes) + 2)].astype(np.float32)
    y0 = ys.copy()
    np.random.seed(rs_seed + 2)
    S = clf.sample(y=ys)
    np.random.seed(rs_seed + 2)
    R = sample(clf.spn_, np.hstack([np.full([len(ys), nf], np.nan, dtype=np.float32), y0[:, None]]))
    if not near(S, R) or S.shape != (len(ys), nf + 1) \
            or not np.array_equal(S[:, -1], y0) or np.isnan(S).any() or not np.array_equal(ys, y0):
        bad.append(dict(what="classifier sample(y) differs from conditional sampling of the wrapped circuit / labels not preserved",
                        labels=y0.tolist(), got=np.asarray(S)[:, -1].tolist() if np.ndim(S) == 2 else None))
    try:
        clf.sample(n=2, y=ys)
        bad.append(dict(what="sample(n, y) together did not raise ValueError"))
    except ValueError:
        pass
    return bad


# ------------------------------------------------------------------ main
def main(tier, seed, replay=None):
    rep = C.Report(PID, tier, seed)
    rs = np.random.RandomState(seed % (2 ** 31))
    C.proof_stage(rep, PID, pre_build=pre_build)
    rep.cov["trusted_base"] += [
        "harness/circuits.py object->table mapping of the wrapped circuit (clf.spn_ / est.spn_); harness/c20.py: learned parameters "
        "snapped to the 2^-30 dyadic grid with exact sum one (max perturbation asserted <= 1e-6, reported), Bernoulli tables emitted with the "
        "entry of 1 first, Gaussian leaves restricted to the batch's finite test-point set with densities recomputed independently",
        "float32 rounding absorbed inside Coq: |proba - model| <= 5e-4*model + 1e-6; numerical near-ties of the MPE descent "
        "(relative margin < 1e-4) and evidence of probability zero are skipped, as the property text excludes them",
        "sampling is not modelled: facade sampling is compared with the core sampler on the wrapped circuit under the same NumPy seed "
        "(bit-identical), plus row counts, NaN-freeness, evidence / label preservation; scikit-learn base-class plumbing is not covered",
        "the class branch 'label leaf has mode c' hypothesis of C20_predict_is_argmax is evaluated per query row inside Coq (flag 256)"]
    from deeprob.spn.models.sklearn import SPNClassifier, SPNEstimator
    ncls = 24 if tier == "quick" else 120
    nest = 8 if tier == "quick" else 40
    files = []; metas = []
    dist = dict(classes={}, regime={}, split_rows={}, split_cols={}, batch_eq_classes=0, batch_ne_classes=0,
                batches_with_nan=0, rows=0, nodes=[10 ** 9, 0], fit_raised=0, estimators=0, max_param_snap=0.0)
    nviol = {}

    def viol(kind, obj, found=True):
        nviol[kind] = nviol.get(kind, 0) + 1
        if nviol[kind] <= 3:
            rep.violation(dict(kind=kind, **obj), found)

    t_impl = time.time()
    for i in range(ncls):
        ds = gen_dataset(rs, tier, i)
        kw = gen_settings(rs, ds, i, seed)
        info = dict(case=i, classes=ds["k"], regime=ds["regime"], kinds=ds["kinds"], settings=kw,
                    data_X=ds["X"].tolist(), data_y=ds["y"].tolist())
        try:
            clf = SPNClassifier(dist_classes(ds["kinds"]), **kw)
            if i % 3 == 1:
                # a second-hand estimator: fitted on other data (other class frequencies, possibly fewer classes), queried,
                # then fitted again on the data of this case: it must behave like a fresh one
                y_all = ds["y"]; cl = np.unique(y_all)
                keep = np.ones(len(y_all), bool)
                keep &= ~((y_all == cl[0]) & (rs.rand(len(y_all)) < 0.7))
                if len(cl) >= 3:
                    keep &= (y_all != cl[-1])
                if keep.sum() >= 10 and len(np.unique(y_all[keep])) >= 2:
                    clf.fit(ds["X"][keep].copy(), y_all[keep].copy())
                    with np.errstate(all="ignore"):
                        clf.predict_proba(ds["X"][keep][:3].copy()); clf.predict(ds["X"][keep][:3].copy())
                    info["history"] = "fit on a sub-sample with other class frequencies, predict_proba, fit again"
                    dist["refitted"] = dist.get("refitted", 0) + 1
            clf.fit(ds["X"].copy(), ds["y"].copy())
        except Exception as e:      # the learner's own failures are C04's subject, not the facade's
            dist["fit_raised"] += 1
            rep.cov.setdefault("fit_exceptions", []).append(f"{type(e).__name__}: {str(e)[:100]}")
            continue
        k = ds["k"]; nf = len(ds["kinds"]); classes = [int(c) for c in np.unique(ds["y"])]
        points = make_points(ds)
        try:
            tab, worst = extract(clf.spn_, points)
        except Exception as e:
            viol("wrapped-circuit-not-extractable", dict(info, error=repr(e)), False); continue
        dist["max_param_snap"] = max(dist["max_param_snap"], worst)
        dom = {v: sorted(d) for v, d in tab.domains().items()}; dom.setdefault(nf, classes)
        cont = sorted(points)
        dist["classes"][k] = dist["classes"].get(k, 0) + 1
        dist["regime"][ds["regime"]] = dist["regime"].get(ds["regime"], 0) + 1
        dist["split_rows"][kw["split_rows"]] = dist["split_rows"].get(kw["split_rows"], 0) + 1
        dist["split_cols"][kw["split_cols"]] = dist["split_cols"].get(kw["split_cols"], 0) + 1
        dist["nodes"] = [min(dist["nodes"][0], len(tab.nodes)), max(dist["nodes"][1], len(tab.nodes))]
        if clf.n_classes_ != k or clf.n_features_ != nf:
            viol("fit-bookkeeping", dict(info, n_classes_=clf.n_classes_, n_features_=clf.n_features_))
        sizes = [k, k + int(rs.randint(1, 6)), 1 if i % 2 else 2 * k + 1]
        body = []; names = []; cur = []
        for b, size in enumerate(sizes):
            for nans in (False, True):
                rows = gen_batch(rs, ds, points, size, nans)
                Q = np.array([G.np_row(c, nf, points) for c in rows], dtype=np.float32).reshape(size, nf)
                Q0 = Q.copy()
                binfo = dict(info, batch=Q.tolist(), batch_size=size, with_nan=nans)
                try:
                    with np.errstate(all="ignore"):
                        P = clf.predict_proba(Q)
                        LP = clf.predict_log_proba(Q)
                        pred = clf.predict(Q)
                except Exception as e:
                    viol("facade-raised", dict(binfo, error=f"{type(e).__name__}: {e}",
                                               oracle=dict(what="the facade raises on a legal query batch")))
                    continue
                orc = oracle_check(clf.spn_, classes, Q0, P, pred)
                if orc:
                    viol("direct-oracle", dict(binfo, oracle=orc, predict_proba=np.asarray(P).tolist()))
                    if not (isinstance(P, np.ndarray) and P.ndim == 2 and np.all(np.isfinite(P)) and np.shape(pred) == (size,)):
                        continue            # nothing rectangular to hand to the model comparison
                if not np.allclose(np.exp(np.asarray(LP, dtype=np.float64)), P, rtol=1e-5, atol=1e-7):
                    viol("predict_proba-not-exp-of-predict_log_proba", binfo)
                if not same(Q, Q0):
                    viol("caller-array-modified", binfo)
                # the same (fully observed, integer-valued) batch stored with an integer dtype
                if not nans and np.all(Q0 == np.round(Q0)) and Q0.min() >= 0:
                    for dt in (np.int64, np.int32, np.uint8) + ((np.bool_,) if Q0.max() <= 1 else ()):
                        try:
                            with np.errstate(all="ignore"):
                                P2 = clf.predict_proba(Q0.astype(dt)); pred2 = clf.predict(Q0.astype(dt))
                            okd = np.allclose(P2, P, rtol=1e-5, atol=1e-7) and np.array_equal(np.asarray(pred2), np.asarray(pred))
                            err = None
                        except Exception as e:
                            okd = False; err = f"{type(e).__name__}: {e}"; P2 = None; pred2 = None
                        if not okd:
                            viol("answer-depends-on-the-dtype-the-batch-is-stored-in",
                                 dict(binfo, dtype=np.dtype(dt).name, error=err, as_float=np.asarray(P).tolist(),
                                      as_this_dtype=None if P2 is None else np.asarray(P2).tolist(),
                                      predict_float=np.asarray(pred).tolist(), predict_this_dtype=None if pred2 is None else np.asarray(pred2).tolist()))
                            break
                nm = f"c{i}_{b}_{int(nans)}"
                Xs = C.coq_list([G.row_coq(c, nf) for c in rows])
                Ps = C.coq_list([C.coq_list([C.qlit(float(x)) for x in r]) for r in np.asarray(P, dtype=np.float64)])
                pr = C.coq_list([C.zlit(int(x)) for x in pred])
                body.append(f"Definition {nm} := run_fcase (Build_fcase t{i} d{i} {C.natlist(cont)} {nf}%nat "
                            f"{C.coq_list([C.zlit(c) for c in classes])} {Xs} {Ps} {pr}).")
                names.append(nm)
                cur.append(dict(kind="classifier", info=binfo, rows=rows, P=np.asarray(P), pred=np.asarray(pred), tab=tab,
                                clf=clf, classes=classes, Q=Q0))
                dist["rows"] += size
                dist["batch_eq_classes" if size == k else "batch_ne_classes"] += 1
                dist["batches_with_nan"] += int(nans)
        for p in classifier_sampling(clf, classes, rs, seed % 1000 + i, {v: d for v, d in dom.items() if v not in cont}):
            viol("classifier-sampling", dict(info, problem=p))
        if names:
            text = "\n".join(HEADER + [f"Definition t{i} : qtable :=\n  {tab.coq()}.", f"Definition d{i} := {doms_coq(dom)}."] + body +
                             ["Eval vm_compute in (concat (map (fun l => (-1)%Z :: l) [" + "; ".join(names) + "]))."])
            files.append((f"clf_{i}", text)); metas.append(cur)
        if i < 2:
            rep.sample(dict(kind="classifier", classes=k, regime=ds["regime"], settings=kw, circuit=tab.describe(),
                            batch=cur[-1]["Q"].tolist() if cur else None,
                            predict_proba=cur[-1]["P"].tolist() if cur else None,
                            predict=cur[-1]["pred"].tolist() if cur else None))
    # ---- estimator
    for i in range(nest):
        ds = gen_dataset(rs, tier, 3 * i + (i % 3))
        if "gauss" in ds["kinds"]:
            ds["kinds"] = ["bern" if kd == "gauss" else kd for kd in ds["kinds"]]
            for j in range(ds["X"].shape[1]):
                if j not in ds["ncat"]:
                    ds["X"][:, j] = (ds["X"][:, j] > np.median(ds["X"][:, j])).astype(np.float32)
                    ds["X"][:2, j] = [0, 1]
        kw = gen_settings(rs, ds, 1000 + i, seed)
        info = dict(case=f"est{i}", kinds=ds["kinds"], settings=kw, data_X=ds["X"].tolist())
        try:
            est = SPNEstimator(dist_classes(ds["kinds"]), **kw)
            est.fit(ds["X"].copy())
        except Exception as e:
            dist["fit_raised"] += 1
            rep.cov.setdefault("fit_exceptions", []).append(f"{type(e).__name__}: {str(e)[:100]}")
            continue
        dist["estimators"] += 1
        nf = len(ds["kinds"])
        try:
            tab, worst = extract(est.spn_, {})
        except Exception as e:
            viol("wrapped-circuit-not-extractable", dict(info, error=repr(e)), False); continue
        dist["max_param_snap"] = max(dist["max_param_snap"], worst)
        dom = {v: sorted(d) for v, d in tab.domains().items()}
        size = int(rs.randint(3, 9))
        rows_c = gen_batch(rs, ds, {}, size, False); rows_n = gen_batch(rs, ds, {}, size, True)
        Q = np.array([G.np_row(c, nf, {}) for c in rows_c], dtype=np.float32).reshape(size, nf)
        Qn = np.array([G.np_row(c, nf, {}) for c in rows_n], dtype=np.float32).reshape(size, nf)
        try:
            with np.errstate(all="ignore"):
                probs = estimator_passthrough(est, Q, Qn, seed % 1000 + 500 + i, dom)
                for p in probs:
                    viol("estimator-pass-through", dict(info, batch=Q.tolist(), batch_nan=Qn.tolist(), problem=p,
                                                        oracle=dict(what=p["what"])))
                rws = []
                allrows = rows_c + rows_n
                B = np.vstack([Q, Qn])
                ll = np.asarray(est.predict_log_proba(B), dtype=np.float64).reshape(-1)
                M = est.mpe(B)
        except Exception as e:
            viol("facade-raised", dict(info, batch=Q.tolist(), batch_nan=Qn.tolist(), error=f"{type(e).__name__}: {e}",
                                       oracle=dict(what="the estimator facade raises on a legal query batch")))
            continue
        for c, l, m in zip(allrows, ll, M):
            e = math.exp(l) if math.isfinite(l) and l > -700 else 0.0
            rws.append(f"({G.row_coq(c, nf)}, ({C.qlit(e)}, {cells_coq(m, nf)}))")
        text = "\n".join(HEADER + [f"Definition t : qtable :=\n  {tab.coq()}.",
                                   f"Eval vm_compute in ((-1)%Z :: run_ecase (Build_ecase t {doms_coq(dom)} {nf}%nat {C.coq_list(rws)}))."])
        files.append((f"est_{i}", text))
        metas.append([dict(kind="estimator", info=dict(info, batch=B.tolist()), rows=allrows, tab=tab, ll=ll, M=M)])
        dist["rows"] += len(allrows)
    dist["impl_seconds"] = round(time.time() - t_impl, 1)
    rep.cov["input_distribution"] = dist
    if dist["fit_raised"] > (ncls + nest) // 3:
        viol("generator-degenerate", dict(what="more than a third of the fits raised", errors=rep.cov.get("fit_exceptions", [])[:5]), False)

    # ---- E1
    res = C.run_case_files(PID, files)
    ties = zero = 0
    for (name, rc, ints, raw), meta in zip(res, metas):
        if rc != 0 or ints is None:
            rep.obligation(False)
            viol("correspondence-shard-failed", dict(shard=name, log=raw), False)
            continue
        rep.obligation(True)
        groups = []
        for z in ints:
            if z == -1:
                groups.append([])
            else:
                groups[-1].append(z)
        for cs, codes in zip(meta, groups):
            tabd = cs["tab"].describe()
            if cs["kind"] == "classifier":
                hdr, rowc = codes[:3], codes[3:]
                if any(hdr):
                    what = []
                    if hdr[0]: what.append("the wrapped circuit fails the validity certificate (smooth, decomposable, normalised)")
                    if hdr[1]: what.append("the wrapped circuit's root is not a sum with one weighted child per class")
                    if hdr[2]: what.append("shape of predict_proba differs from the model's rows x classes")
                    viol("model-implementation-disagreement", dict(cs["info"], what=what, header=hdr, circuit=cs["tab"].brief(),
                                                                   oracle=oracle_check(cs["clf"].spn_, cs["classes"], cs["Q"], cs["P"], cs["pred"])),
                         found=bool(hdr[2]))
                for j, (r, code) in enumerate(zip(cs["rows"], rowc)):
                    rep.count(dict(c=cs["info"]["case"], s=cs["info"]["settings"], r=sorted(r.items()), n=len(cs["rows"])),
                              nontrivial=(code not in (16, 32)))
                    if code == 32:
                        zero += 1; continue
                    if code & 16:
                        ties += 1
                    bad = code & ~16
                    if bad:
                        what = []
                        if bad & 1: what.append("a predict_proba entry differs from the model posterior w_c val_c(x) / sum_c' w_c' val_c'(x)")
                        if bad & 2: what.append("model row does not sum to one (model inconsistency)")
                        if bad & 4: what.append("predict differs from the model's MPE label")
                        if bad & 256: what.append("a class branch does not complete the label with its own class")
                        viol("model-implementation-disagreement",
                             dict(cs["info"], what=what, code=code, sample=j, row=sorted(r.items()),
                                  predict_proba_row=cs["P"][j].tolist(), predict=float(cs["pred"][j]), circuit=cs["tab"].brief(),
                                  oracle=oracle_check(cs["clf"].spn_, cs["classes"], cs["Q"], cs["P"], cs["pred"]) or
                                  dict(what="direct oracle on the implementation agrees with the facade: the model or the extraction is off")),
                             found=True)
            else:
                hdr, rowc = codes[:1], codes[1:]
                if hdr[0]:
                    viol("model-implementation-disagreement", dict(cs["info"], what=["the wrapped circuit fails the validity certificate"],
                                                                   circuit=cs["tab"].brief()), found=False)
                for j, (r, code) in enumerate(zip(cs["rows"], rowc)):
                    rep.count(dict(c=cs["info"]["case"], r=sorted(r.items())), nontrivial=(code not in (16, 32)))
                    if code == 32:
                        zero += 1; continue
                    if code & 16:
                        ties += 1
                    bad = code & ~16
                    if bad:
                        what = []
                        if bad & 1: what.append("exp(predict_log_proba) differs from the value of the wrapped circuit")
                        if bad & 2: what.append("mpe differs from the model's completion")
                        viol("model-implementation-disagreement",
                             dict(cs["info"], what=what, code=code, sample=j, row=sorted(r.items()), loglik=float(cs["ll"][j]),
                                  mpe=cs["M"][j].tolist(), circuit=cs["tab"].brief()), found=True)
    rep.cov["numerical_ties_excluded"] = ties
    rep.cov["zero_probability_evidence_rows_excluded"] = zero
    rep.cov["tolerances"] = dict(proba_rel=5e-4, proba_abs=1e-6, tie_margin=1e-4, param_snap=MAX_PERTURB)
    rep.cov["violation_classes"] = nviol
    if replay:
        print(open(replay).read()[:3000])
    rep.cov["rule"] = ("data sets: 2/3/4 classes (labels 0..k-1, for k >= 3 also non-contiguous codes; balanced and unbalanced priors), 2-4 (quick) / 2-6 features, regimes binary / "
                       "discrete (Bernoulli+Categorical) / mixed (+Gaussian) / binary with Chow-Liu leaves; learner settings: split_rows x split_cols x "
                       "min_rows_slice (incl. no row split) x min_cols_slice x seed; query batches of size = classes, = classes + 1..5 and 1 or 2*classes+1, "
                       "each without and with NaNs (incl. an all-NaN row); one evaluation = one (fitted model, batch, row) compared inside Coq "
                       "(probabilities, predicted class) + estimator rows (likelihood, MPE); non-trivial = not a numerical tie and positive evidence; "
                       "distinct by (case, settings, row, batch size) hash")
    offset_stage(rep, rs, tier)
    C.clean_gen(PID)
    return rep.finish("proof")
