"""Fail-closed translator: deeprob/spn/algorithms/moments.py (expectation, variance, skewness,
kurtosis) -> Coq definitions over an abstract field (coq/Gen/MomentsSrc.v).

Only straight-line code is accepted: a docstring, single-name assignments and one return whose
expressions are built from names, numeric literals with integer value, + - * /, unary minus,
`** 2.0`, `** 3.0`, `** 1.5` and the call `moment(root, order=<int literal>)`.  Anything else raises
TranslationError: the tie to the source is then reported as broken (never silently skipped).
NumPy element-wise arithmetic on the per-variable vectors is modelled as the same scalar
arithmetic applied to each variable (stated in the trusted base)."""
import ast, sys, os

class TranslationError(Exception):
    pass

FUNCS = ["expectation", "variance", "skewness", "kurtosis"]

def tr_expr(e, env):
    if isinstance(e, ast.Name):
        if e.id not in env:
            raise TranslationError(f"unbound name {e.id} at line {e.lineno}")
        return e.id
    if isinstance(e, ast.Constant):
        v = e.value
        if isinstance(v, bool) or not isinstance(v, (int, float)) or v != int(v) or v < 0 or v > 64:
            raise TranslationError(f"unsupported constant {v!r} at line {e.lineno}")
        return f"(tnum {int(v)})"
    if isinstance(e, ast.UnaryOp) and isinstance(e.op, ast.USub):
        return f"(topp {tr_expr(e.operand, env)})"
    if isinstance(e, ast.BinOp):
        if isinstance(e.op, ast.Pow):
            if not isinstance(e.right, ast.Constant) or isinstance(e.right.value, bool):
                raise TranslationError(f"non-literal exponent at line {e.lineno}")
            b = tr_expr(e.left, env); p = e.right.value
            if p == 2: return f"(tmul {b} {b})"
            if p == 3: return f"(tmul {b} (tmul {b} {b}))"
            if p == 1.5: return f"(pow15 {b})"
            raise TranslationError(f"unsupported exponent {p!r} at line {e.lineno}")
        ops = {ast.Add: "tadd", ast.Sub: "tsub", ast.Mult: "tmul", ast.Div: "tdiv"}
        for k, name in ops.items():
            if isinstance(e.op, k):
                return f"({name} {tr_expr(e.left, env)} {tr_expr(e.right, env)})"
        raise TranslationError(f"unsupported operator {type(e.op).__name__} at line {e.lineno}")
    if isinstance(e, ast.Call):
        if not (isinstance(e.func, ast.Name) and e.func.id == "moment"):
            raise TranslationError(f"unsupported call at line {e.lineno}")
        args = list(e.args); kws = {k.arg: k.value for k in e.keywords}
        if not args or not isinstance(args[0], ast.Name) or args[0].id != "root":
            raise TranslationError(f"moment() must be called on `root` (line {e.lineno})")
        order = args[1] if len(args) == 2 else kws.get("order")
        if len(args) > 2 or set(kws) - {"order"} or order is None:
            raise TranslationError(f"unsupported moment() signature at line {e.lineno}")
        if not isinstance(order, ast.Constant) or type(order.value) is not int or not 0 <= order.value <= 16:
            raise TranslationError(f"moment order must be a small int literal (line {e.lineno})")
        return f"(mom {order.value})"
    raise TranslationError(f"unsupported expression {type(e).__name__} at line {e.lineno}")

def tr_func(fn):
    args = [a.arg for a in fn.args.args]
    if args != ["root"] or fn.args.vararg or fn.args.kwarg or fn.args.kwonlyargs or fn.decorator_list:
        raise TranslationError(f"{fn.name}: unexpected signature")
    body = list(fn.body)
    if body and isinstance(body[0], ast.Expr) and isinstance(body[0].value, ast.Constant) \
            and isinstance(body[0].value.value, str):
        body = body[1:]
    env = set(); lets = []
    for st in body[:-1]:
        if not (isinstance(st, ast.Assign) and len(st.targets) == 1 and isinstance(st.targets[0], ast.Name)):
            raise TranslationError(f"{fn.name}: unsupported statement {type(st).__name__} at line {st.lineno}")
        name = st.targets[0].id
        if name in ("root", "mom", "tnum", "tadd", "tsub", "tmul", "tdiv", "topp", "pow15", "T") or name in env:
            raise TranslationError(f"{fn.name}: re-assignment or reserved name {name}")
        lets.append((name, tr_expr(st.value, env))); env.add(name)
    if not body or not isinstance(body[-1], ast.Return) or body[-1].value is None:
        raise TranslationError(f"{fn.name}: last statement must be `return <expr>`")
    ret = tr_expr(body[-1].value, env)
    out = f"  Definition {fn.name}_src : T :=\n"
    for n, v in lets:
        out += f"    let {n} := {v} in\n"
    out += f"    {ret}.\n"
    return out

def translate(src_path):
    tree = ast.parse(open(src_path).read())
    found = {}
    for st in tree.body:
        if isinstance(st, ast.FunctionDef) and st.name in FUNCS:
            if st.name in found:
                raise TranslationError(f"{st.name} defined twice")
            found[st.name] = st
    missing = [f for f in FUNCS if f not in found]
    if missing:
        raise TranslationError(f"functions not found: {missing}")
    out = ("(* GENERATED on every run from deeprob/spn/algorithms/moments.py by\n"
           "   harness/translate_moments.py -- do not edit. *)\n"
           "Section MomentsSrc.\n  Variable T : Type.\n"
           "  Variables (tadd tmul tsub tdiv : T -> T -> T) (topp : T -> T) (tnum : nat -> T) (pow15 : T -> T).\n"
           "  Variable mom : nat -> T.\n")
    for f in FUNCS:
        out += tr_func(found[f])
    out += "End MomentsSrc.\n"
    return out

def regenerate(repo="/repo", dest="/verif/coq/Gen/MomentsSrc.v"):
    text = translate(os.path.join(repo, "deeprob/spn/algorithms/moments.py"))
    old = open(dest).read() if os.path.exists(dest) else None
    if old != text:
        open(dest, "w").write(text)
    return text

if __name__ == "__main__":
    try:
        sys.stdout.write(regenerate(*(sys.argv[1:3])))
    except TranslationError as ex:
        print("TRANSLATION-FAILED:", ex); sys.exit(2)
