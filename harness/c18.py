"""C18 — cutset networks evaluate their OR-tree semantics and are normalised.
Proof: coq/Properties/C18.v (model coq/Model/Cnet.v, runner coq/Model/CnetRun.v, lemmas
coq/Proofs/CnetFacts.v, pinned-defect witness coq/Pinned/CnetPinned.v).
Tie: binary data sets -> BinaryCNet.fit / learn_cnet_bd / learn_cnet_bic (and hand-built networks with
dyadic parameters, permuted non-contiguous scopes) -> the learned OBJECT is extracted the way
log_likelihood reads it (leaf iff `clt` is set) -> inside Coq (vm_compute, exact rationals): the
certificate wf_cnetb, the total mass, and on ALL binary rows the implementation's
exp(log_likelihood) against the OR-tree semantics, the positional (column-deleting) evaluation and
the FIFO batch evaluation of the model.
Direct oracle (python, always on): sum over all rows of exp(log_likelihood) = 1 and log_likelihood =
explicit product of branch weights and CPT entries read off the object by variable id."""
import os, json, itertools, math, time
from fractions import Fraction
import numpy as np
from . import common as C

PID = "C18"
MYFILES = ["Model/Cnet.v", "Model/CnetRun.v", "Proofs/CnetFacts.v", "Proofs/CnetExamples.v", "Pinned/CnetPinned.v"]
HEADER = ["From Coq Require Import List ZArith QArith Qcanon.",
          "From DV Require Import Model.Core Model.Clt Model.QcInst Model.Cnet Model.CnetRun.",
          "Import ListNotations. Open Scope Z_scope."]
FLAG_NOTE = ("header flags: 64 certificate wf_cnetb / groot_okb fails (scopes, cut variable, column deletion, CLT shape, CLT root rows), "
             "32 total mass of the model (value of the all-missing row) is not one, 16 model sum over all rows <> "
             "all-missing value, 8 FIFO batch model <> row-wise model, 4 wrong number of outputs; row flags: "
             "1 exp(log_likelihood) differs from the OR-tree semantics, 2 positional evaluation <> semantics, "
             "4 gather leaves <> message-passing leaves")


# ------------------------------------------------------------------ build of the files not (yet) in _CoqProject
def pre_build():
    ok, log = C.build_coq()
    if not ok:
        return log
    proj = open(os.path.join(C.COQ, "_CoqProject")).read()
    with C.Lock(os.path.join(C.COQ, ".build.lock")):
        newest = max(os.path.getmtime(os.path.join(C.COQ, f)) for f in
                     ["Model/Core.vo", "Model/Clt.vo", "Model/Check.vo", "Model/QcInst.vo", "Proofs/CltFacts.vo",
                      "Proofs/CheckFacts.vo"])
        for f in MYFILES:
            src = os.path.join(C.COQ, f)
            if f in proj:
                continue
            vo = src[:-2] + ".vo"
            newest = max(newest, os.path.getmtime(src))
            if not os.path.exists(vo) or os.path.getmtime(vo) < newest:
                rc, out = C.sh(f"timeout 900 coqc -R . DV {f}", cwd=C.COQ, timeout=950)
                if rc != 0:
                    return f"coqc {f} failed:\n{out[-3000:]}"
            newest = max(newest, os.path.getmtime(vo))
    return None


# ------------------------------------------------------------------ data sets
def gen_tree_data(rs, m, cols, flip):
    """binary data over `cols` columns: random rooted tree, child = parent xor Bernoulli(flip)."""
    k = len(cols)
    out = np.zeros((m, k), dtype=np.float32)
    order = rs.permutation(k)
    out[:, order[0]] = rs.rand(m) < rs.uniform(0.2, 0.8)
    for j in range(1, k):
        p = order[rs.randint(0, j)]
        noise = rs.rand(m) < (flip if rs.rand() < 0.7 else 0.5)
        out[:, order[j]] = np.logical_xor(out[:, p] > 0, noise)
    return out


def gen_context(rs, m, cols, depth):
    """context-specific dependence: a cut variable selects between two different sub-models
    (recursively another cut, or a noisy-xor dependency tree)."""
    k = len(cols)
    out = np.zeros((m, k), dtype=np.float32)
    if m == 0:
        return out
    c = int(rs.randint(k))
    out[:, c] = rs.rand(m) < rs.uniform(0.25, 0.75)
    rest = [j for j in range(k) if j != c]
    if rest:
        for val in (0, 1):
            idx = np.where(out[:, c] == val)[0]
            if len(idx) == 0:
                continue
            if depth > 0 and len(rest) >= 2 and rs.rand() < 0.7:
                out[np.ix_(idx, rest)] = gen_context(rs, len(idx), rest, depth - 1)
            else:
                out[np.ix_(idx, rest)] = gen_tree_data(rs, len(idx), rest, flip=float(rs.choice([0.02, 0.05, 0.1, 0.25])))
    return out


def gen_data(rs, tier, learner="fit"):
    n = int(rs.randint(2, 9))
    regime = ["mixture", "context", "context", "context2", "context2", "degenerate", "tiny"][rs.randint(7)]
    mmax = 160 if tier == "quick" else 300
    m = int(rs.randint(4, 13)) if regime == "tiny" else int(rs.randint(20, mmax + 1))
    if learner != "fit" and regime.startswith("context"):
        m = int(rs.randint(mmax // 2, mmax + 1))     # the score-based learners split only with enough evidence
    if regime in ("mixture", "tiny", "degenerate"):
        k = int(rs.randint(1, 4))
        P = rs.rand(k, n)
        z = rs.randint(0, k, size=m)
        X = (rs.rand(m, n) < P[z]).astype(np.float32)
        if regime == "degenerate":
            what = rs.randint(4)
            if what == 0:
                X[:, rs.randint(n)] = float(rs.randint(2))
            elif what == 1:
                a, b = rs.randint(n), rs.randint(n)
                X[:, a] = X[:, b]
            elif what == 2:
                X[:] = X[0]
            else:
                X[:, rs.randint(n)] = 1.0 - X[:, rs.randint(n)]
    else:
        X = gen_context(rs, m, list(range(n)), 0 if regime == "context" else 2)
    return X, regime


def gen_learner(rs):
    return ["fit", "fit", "bd", "bic"][rs.randint(4)]


def gen_config(rs, X, learner, allow_one_cut):
    m, n = X.shape
    cuts = [2, 3, 10] + ([1] if allow_one_cut else [])
    if learner == "fit":
        kw = dict(alpha=float(rs.choice([0.01, 0.1, 0.5, 1.0])),
                  min_n_samples=int(rs.choice([0, 2, 5, 5, 10, 10, 20, 40, m, m + 5])),
                  min_n_features=int(rs.choice([1, 1, 1, 1, 1, 2, 3, n])),
                  min_mean_entropy=float(rs.choice([0.0, 0.01, 0.01, 0.01, 0.05, 0.1, 0.4, 5.0])))
    elif learner == "bd":
        kw = dict(ess=float(rs.choice([0.005, 0.1, 0.5, 1.0, 2.0, 4.0])), n_cand_cuts=int(rs.choice(cuts)))
    else:
        kw = dict(alpha=float(rs.choice([0.01, 0.1, 0.5, 1.0])), n_cand_cuts=int(rs.choice(cuts)))
    return learner, kw


def run_learner(learner, kw, X, seed):
    """runs the implementation; the only randomness of the learners (the CLT root drawn from an
    unseeded RandomState) is replaced by a seeded one so that a run can be replayed."""
    from deeprob.spn.structure.cnet import BinaryCNet
    from deeprob.spn.learning.cnet_bayesian import learn_cnet_bd, learn_cnet_bic
    import deeprob.spn.structure.cltree as cltree
    orig = cltree.check_random_state
    srs = np.random.RandomState(seed % (2 ** 31))
    cltree.check_random_state = lambda random_state=None: srs if random_state is None else orig(random_state)
    try:
        with np.errstate(all="ignore"):
            if learner == "fit":
                c = BinaryCNet(scope=list(range(X.shape[1])))
                if seed % 3 == 0:
                    # a second-hand object: fitted first on data with the OPPOSITE root decision (a constant matrix never splits;
                    # a large balanced one with a low entropy threshold does), queried, then fitted on the data of this case
                    m0, n0 = X.shape
                    first = np.zeros((max(m0, 8), n0), dtype=np.float32) if (seed // 3) % 2 == 0 else \
                        (np.random.RandomState(seed % 1000).rand(200, n0) < 0.5).astype(np.float32)
                    try:
                        c.fit(first, **dict(kw, min_mean_entropy=0.0) if (seed // 3) % 2 else kw)
                        c.log_likelihood(first[:2])
                    except Exception:
                        c = BinaryCNet(scope=list(range(X.shape[1])))
                c.fit(X.copy(), **kw)
            elif learner == "bd":
                c = learn_cnet_bd(X.copy(), **kw)
            else:
                c = learn_cnet_bic(X.copy(), **kw)
    finally:
        cltree.check_random_state = orig
    return c


# ------------------------------------------------------------------ hand-built networks (dyadic parameters)
def rand_clt(rs, scope):
    from deeprob.spn.structure.cltree import BinaryCLT
    n = len(scope)
    order = list(rs.permutation(n)); tree = [-1] * n
    for k in range(1, n):
        tree[order[k]] = int(order[rs.randint(0, k)])
    p = rs.randint(1, 16, size=(n, 2)) / 16.0
    params = np.zeros((n, 2, 2)); params[:, :, 1] = p; params[:, :, 0] = 1 - p
    r = tree.index(-1); params[r, 1] = params[r, 0]
    c = BinaryCLT(list(scope), tree=tree, params=np.log(params).tolist())
    c._verif_probs = params
    return c


def rand_cnet(rs, scope, depth=0):
    from deeprob.spn.structure.cnet import BinaryCNet
    node = BinaryCNet(scope=list(scope))
    if len(scope) == 1 or depth >= 4 or rs.rand() < 0.25:
        node.clt = rand_clt(rs, scope)
        return node
    idx = int(rs.randint(len(scope)))
    w0 = float(rs.randint(1, 32)) / 32.0
    sub = [v for i, v in enumerate(scope) if i != idx]
    node.or_id = int(scope[idx])
    node.weights = [w0, 1.0 - w0]
    node.children = [rand_cnet(rs, sub, depth + 1), rand_cnet(rs, sub, depth + 1)]
    return node


# ------------------------------------------------------------------ object -> model literal
def f32frac(x):
    return Fraction(float(np.float32(x)))


def shape_problem(node, path="root"):
    """a learned node is EITHER a leaf (a Chow-Liu tree and nothing else) OR a cut (variable, two weights, two children and no
    tree): anything else is state left over from somewhere else (log_likelihood would silently read only part of it)."""
    leaf = node.clt is not None
    kids = list(node.children or [])
    if leaf and (kids or node.or_id is not None or node.weights is not None):
        return dict(at=path, what="a leaf (clt set) that also carries a cut", or_id=node.or_id, n_children=len(kids))
    if not leaf and not (len(kids) == 2 and node.or_id is not None and node.weights is not None and len(node.weights) == 2):
        return dict(at=path, what="neither a leaf nor a complete cut", or_id=node.or_id, n_children=len(kids))
    for i, k in enumerate(kids):
        b = shape_problem(k, f"{path}.{i}")
        if b:
            return b
    return None


def extract(node, exact):
    """the object as BinaryCNet.log_likelihood reads it: a leaf iff `clt` is truthy, else
    or_id / weights / children.  Parameters: dyadic ones exactly; learned float parameters rounded to
    float32 (relative 6e-8, far below the comparison tolerance)."""
    sc = [int(v) for v in node.scope]
    if node.clt:
        clt = node.clt
        probs = getattr(clt, "_verif_probs", None)
        if probs is None:
            probs = np.exp(np.asarray(clt.params, dtype=np.float64))
        conv = (lambda x: Fraction(float(x))) if exact else f32frac
        cpt = [[[conv(probs[i][l][k]) for k in (0, 1)] for l in (0, 1)] for i in range(len(clt.tree))]
        return dict(kind="leaf", scope=sc, cscope=[int(v) for v in clt.scope], tree=[int(t) for t in clt.tree],
                    root=int(clt.root), cpt=cpt)
    if node.or_id is None or node.weights is None or not node.children or len(node.children) != 2:
        raise ValueError("object is neither a leaf (clt) nor a complete OR node (or_id, weights, two children)")
    conv = (lambda x: Fraction(float(x))) if exact else f32frac
    return dict(kind="cut", scope=sc, var=int(node.or_id), w=[conv(node.weights[0]), conv(node.weights[1])],
                kids=[extract(node.children[0], exact), extract(node.children[1], exact)])


def node_coq(d):
    sc = C.natlist(d["scope"])
    if d["kind"] == "leaf":
        par = C.coq_list(["None" if t < 0 else f"(Some {t}%nat)" for t in d["tree"]])
        cpt = C.coq_list([C.coq_list([C.coq_list([C.qlit(x) for x in row]) for row in tbl]) for tbl in d["cpt"]])
        return f"(OLeaf {sc} (Build_clt {C.natlist(d['cscope'])} {par} {cpt}))"
    return (f"(OCut {sc} {d['var']}%nat {C.qlit(d['w'][0])} {C.qlit(d['w'][1])}\n   {node_coq(d['kids'][0])}\n   "
            f"{node_coq(d['kids'][1])})")


def brief(d):
    if d["kind"] == "leaf":
        return dict(leaf=d["scope"], tree=d["tree"], cpt=[[[float(x) for x in r] for r in t] for t in d["cpt"]])
    return dict(cut=d["var"], scope=d["scope"], w=[float(x) for x in d["w"]], kids=[brief(k) for k in d["kids"]])


def stats(d):
    if d["kind"] == "leaf":
        return dict(cuts=0, leaves=1, depth=0)
    a, b = stats(d["kids"][0]), stats(d["kids"][1])
    return dict(cuts=1 + a["cuts"] + b["cuts"], leaves=a["leaves"] + b["leaves"], depth=1 + max(a["depth"], b["depth"]))


# ------------------------------------------------------------------ direct oracle on the implementation
def oracle_ll(node, val):
    """explicit OR-tree product read off the object BY VARIABLE ID (val: dict id -> 0/1), log domain."""
    if node.clt:
        clt = node.clt
        sc = [int(v) for v in clt.scope]
        P = np.asarray(clt.params, dtype=np.float64)
        s = 0.0
        for i, v in enumerate(sc):
            t = int(clt.tree[i])
            pv = 0 if t < 0 else val[sc[t]]
            s += float(P[i][pv][val[v]])
        return s
    x = val[int(node.or_id)]
    return math.log(float(node.weights[x])) + oracle_ll(node.children[x], val)


def direct_oracle(node, scope, R, LL):
    """returns None if the property holds on the implementation for every row, else a description."""
    tot = float(np.exp(LL).sum())
    if not abs(tot - 1.0) <= 1e-4:
        return dict(what="exp(log_likelihood) does not sum to one over all binary rows", total=tot)
    for r, ll in zip(R, LL):
        val = {v: int(x) for v, x in zip(scope, r)}
        try:
            o = oracle_ll(node, val)
        except Exception as e:   # malformed object
            return dict(what="object cannot be read as an OR tree", error=repr(e))
        if not abs(o - float(ll)) <= 1e-4 + 1e-5 * abs(o):
            return dict(what="log_likelihood differs from the explicit OR-tree product", row=[int(x) for x in r],
                        log_likelihood=float(ll), or_tree_product=o)
    return None


# ------------------------------------------------------------------ main
def probe_one_candidate_cut():
    """n_cand_cuts = 1 makes select_cand_cuts return a scalar; returns None if the learners cope with it."""
    rs = np.random.RandomState(7)
    X = (rs.rand(40, 3) < 0.5).astype(np.float32)
    for learner in ("bd", "bic"):
        try:
            run_learner(learner, dict(n_cand_cuts=1), X, 1)
        except Exception as e:
            return f"learn_cnet_{learner}(data 40x3, n_cand_cuts=1) raises {type(e).__name__}: {e}"
    return None


def main(tier, seed, replay=None):
    rep = C.Report(PID, tier, seed)
    rs = np.random.RandomState((seed + 18) % (2 ** 31))
    C.proof_stage(rep, PID, pre_build=pre_build)
    rep.cov["trusted_base"] += [
        "harness/c18.py: extraction of the learned BinaryCNet object (leaf iff clt set; or_id, weights, children; CLT scope/tree/exp(params)) into the model literal; learned float parameters rounded to float32 before becoming exact rationals",
        "float rounding absorbed by tolerances evaluated inside Coq: |exp(ll)-model| <= 2e-4*model + 1e-15 per row, |total mass - 1| <= 2e-5 for learned parameters (exact for dyadic hand-built networks)",
        "the unseeded RandomState that draws the CLT root inside BinaryCLT.fit is replaced by a seeded one (replayability); scoring functions of the learners (entropy, BDeu, BIC, MST) are oracles: whatever they choose, the returned object is checked",
        "the rebuilt-tree message passing of Model/Clt.v vs the array gather of BinaryCLT.log_likelihood is compared per row inside Coq (flag 4), not proved equal"]
    one_cut = probe_one_candidate_cut()
    if one_cut:
        listed = [k for k in C.known_findings(PID) if k.get("key") == "n-cand-cuts-1"]
        if listed:
            rep.known_finding("n-cand-cuts-1 " + one_cut)
        rep.cov["excluded_configuration"] = dict(n_cand_cuts=1, reason=one_cut,
                                                 note="no network is returned, so there is nothing to evaluate; excluded from the generator while it raises")
    ncase = 64 if tier == "quick" else 1500
    nhand = 16 if tier == "quick" else 300
    cases = []
    dist = dict(learner={}, regime={}, vars={}, cuts={}, depth={}, root_unsplit=0, rows=0, data_rows=[10 ** 9, 0])
    t_impl = time.time()
    nraised = noracle = 0
    for i in range(ncase + nhand):
        hand = i >= ncase
        info = dict(index=i)
        try:
            if hand:
                n = int(rs.randint(2, 8))
                scope = [int(v) for v in rs.choice(np.arange(0, 12), size=n, replace=False)]
                node = rand_cnet(rs, scope)
                info.update(learner="hand-built", regime="dyadic", scope=scope)
            else:
                learner = gen_learner(rs)
                X, regime = gen_data(rs, tier, learner)
                learner, kw = gen_config(rs, X, learner, allow_one_cut=(one_cut is None))
                info.update(learner=learner, params=kw, regime=regime, data=X.astype(int).tolist(), clt_seed=seed + i)
                node = run_learner(learner, kw, X, seed + i)
                sp_ = shape_problem(node)
                if sp_ is not None:
                    dist["shape_problems"] = dist.get("shape_problems", 0) + 1
                    if dist["shape_problems"] <= 3:
                        rep.violation(dict(info, kind="learned-network-is-not-a-clean-OR-tree", problem=sp_), True)
                scope = list(range(X.shape[1]))
                dist["data_rows"] = [min(dist["data_rows"][0], len(X)), max(dist["data_rows"][1], len(X))]
            n = len(scope)
            R = np.array(list(itertools.product([0, 1], repeat=n)), dtype=np.float32)
            with np.errstate(all="ignore"):
                LL = np.asarray(node.log_likelihood(R), dtype=np.float64).reshape(-1)
            d = extract(node, exact=hand)
        except Exception as e:
            import traceback
            info.update(kind="implementation-raised", error=repr(e), trace=traceback.format_exc()[-1500:],
                        note="learning / evaluating / reading the cutset network failed on this input")
            nraised += 1
            if nraised <= 3:
                rep.violation(info, True)
            continue
        E = np.where(np.isfinite(LL), np.exp(np.clip(LL, -700, 50)), 0.0)
        st = stats(d)
        orc = direct_oracle(node, scope, R, LL)
        if orc is None:
            # the value of a row must not depend on which other rows share its batch (C18_code_batch_rowwise):
            # single rows (the all-zero and all-one rows first), pairs and a shuffled half
            idxs = [[0], [len(R) - 1]] + [[int(j)] for j in rs.choice(len(R), size=min(6, len(R)), replace=False)] + \
                   [[int(a), int(b)] for a, b in rs.randint(0, len(R), size=(4, 2))] + [rs.permutation(len(R))[: max(1, len(R) // 2)].tolist()]
            for ix in idxs:
                with np.errstate(all="ignore"):
                    sub = np.asarray(node.log_likelihood(R[ix]), dtype=np.float64).reshape(-1)
                if not np.allclose(sub, LL[ix], rtol=1e-5, atol=1e-6, equal_nan=True):
                    orc = dict(what="log_likelihood of a row depends on the other rows of the batch", batch=R[ix].astype(int).tolist(),
                               in_this_batch=sub.tolist(), in_the_full_batch=LL[ix].tolist()); break
        if orc is None:
            # the value of a row must not depend on how the 0/1 cells are STORED (binary data usually arrives as integers)
            for dt in (np.float64, np.int64, np.uint8, np.bool_):
                try:
                    with np.errstate(all="ignore"):
                        alt = np.asarray(node.log_likelihood(R.astype(dt)), dtype=np.float64).reshape(-1)
                except Exception as e:
                    orc = dict(what="log_likelihood raised on the same rows stored with another dtype", dtype=np.dtype(dt).name,
                               error=f"{type(e).__name__}: {e}"); break
                if not np.allclose(alt, LL, rtol=1e-5, atol=1e-6, equal_nan=True):
                    j = int(np.argmax(np.abs(np.nan_to_num(alt - LL))))
                    orc = dict(what="log_likelihood depends on the dtype the rows are stored in", dtype=np.dtype(dt).name,
                               row=[int(x) for x in R[j]], as_float32=float(LL[j]), as_this_dtype=float(alt[j])); break
        if orc is not None:
            noracle += 1
            if noracle <= 3:
                rep.violation(dict(info, kind="direct-oracle", oracle=orc, object=brief(d)), True)
        cases.append(dict(info=info, d=d, hand=hand, E=E, LL=LL, R=R, st=st, n=n, node=node, scope=scope))
        for k, v in (("learner", info["learner"]), ("regime", info["regime"]), ("vars", n), ("cuts", st["cuts"]),
                     ("depth", st["depth"])):
            dist[k][v] = dist[k].get(v, 0) + 1
        dist["root_unsplit"] += int(st["cuts"] == 0 and not hand)
        dist["rows"] += len(R)
    dist["impl_seconds"] = round(time.time() - t_impl, 1)
    dist["implementation_raised"] = nraised
    dist["direct_oracle_failures"] = noracle
    rep.cov["input_distribution"] = dist
    # ---- Coq side
    order = sorted(range(len(cases)), key=lambda k: -cases[k]["n"])
    nshard = max(1, min(C.NPROC, len(cases)))
    shards = [[] for _ in range(nshard)]
    for j, k in enumerate(order):      # deal the big cases round-robin
        shards[j % nshard].append(k)
    files = []
    for s, ks in enumerate(shards):
        if not ks:
            continue
        body = list(HEADER); names = []
        for k in ks:
            cs = cases[k]
            nm = f"c{k}"
            body.append(f"Definition {nm}_o : qornode :=\n  {node_coq(cs['d'])}.")
            body.append(f"Definition {nm} : cncase := Build_cncase {nm}_o {'true' if cs['hand'] else 'false'} "
                        f"{'true' if cs['n'] <= 6 else 'false'}\n  " + C.coq_list([C.qlit(float(e)) for e in cs["E"]]) + ".")
            names.append(nm)
        body.append("Eval vm_compute in (concat (map (fun c => (-1)%Z :: run_cncase c) " + C.coq_list(names) + ")).")
        files.append((f"cases_{s}", "\n".join(body), ks))
    res = C.run_case_files(PID, [(n_, t_) for n_, t_, _ in files])
    flagged = []
    for (name, rc, ints, raw), (_, _, ks) in zip(res, files):
        if rc != 0 or ints is None:
            rep.obligation(False)
            rep.violation(dict(kind="correspondence-shard-failed", shard=name, log=raw), False)
            continue
        rep.obligation(True)
        groups = []
        for z in ints:
            if z == -1:
                groups.append([])
            else:
                groups[-1].append(z)
        for k, codes in zip(ks, groups):
            cs = cases[k]
            hdr, body = codes[:5], codes[5:]
            if any(hdr) or len(body) != len(cs["R"]):
                flagged.append((cs, None, sum(hdr)))
            for r, code in zip(cs["R"], body):
                rep.count(dict(o=brief(cs["d"]), r=[int(x) for x in r]),
                          nontrivial=cs["st"]["cuts"] >= 1 or cs["info"]["learner"] == "fit")
                if code:
                    flagged.append((cs, r, code))
    for cs in cases[:3]:
        rep.sample(dict(learner=cs["info"]["learner"], params=cs["info"].get("params"), object=brief(cs["d"]),
                        rows=[[int(x) for x in r] for r in cs["R"][:3]], impl_loglik=[float(x) for x in cs["LL"][:3]]))
    seen = set()
    for cs, r, code in flagged:
        if id(cs) in seen or len(seen) >= 3:
            continue
        seen.add(id(cs))
        out = dict(cs["info"], kind="model-implementation-disagreement", flags=int(code), object=brief(cs["d"]),
                   note=FLAG_NOTE)
        if r is not None:
            i = [tuple(x) for x in cs["R"].tolist()].index(tuple(r.tolist()))
            out["row"] = [int(x) for x in r]
            out["impl"] = dict(log_likelihood=float(cs["LL"][i]), exp=float(cs["E"][i]))
        out["oracle"] = direct_oracle(cs["node"], cs["scope"], cs["R"], cs["LL"]) or "direct oracle passes: implementation is self-consistent; the model/certificate disagrees"
        # a concrete input is exhibited whenever a row (or the object itself) is at fault
        rep.violation(out, True)
    if replay:
        print(open(replay).read()[:3000])
    rep.cov["rule"] = ("binary data sets with 2-8 variables and 4-160 (quick) / 4-300 (thorough) rows from four regimes (mixtures of product "
                       "distributions; context-specific data where a cut variable selects between two noisy-xor dependency trees, nested up to 3 levels; degenerate: "
                       "constant / duplicated / negated columns, identical rows; tiny: 4-12 rows) x learner (fit twice as often, learn_cnet_bd, "
                       "learn_cnet_bic) x thresholds (alpha, min_n_samples incl. 0 and >= rows, min_n_features incl. = n, min_mean_entropy incl. 5.0, "
                       "ess 0.005-4, n_cand_cuts 2/3/10), plus hand-built networks with dyadic parameters over permuted non-contiguous scopes; "
                       "one evaluation = one (network, binary row) over ALL 2^n rows, compared inside Coq; non-trivial = the network has a cut or was "
                       "produced by fit (incl. root not split); distinct by object+row hash")
    C.clean_gen(PID)
    return rep.finish("proof")
