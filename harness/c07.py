"""C07 — conditional sampling draws from the exact conditional distribution.
Proof: Properties/C07.v (the sampler's measure of Model/Sample.v is the circuit's distribution).
Tie (statistical, rigorous): for every generated circuit / Chow-Liu tree and evidence row, N draws of
the implementation's `sample` (one vectorised call on N identical rows); the frequency of EVERY
completion of the row is compared inside Coq with the law computed by the Gallina sampler model
(vm_compute at Qc): |freq - p| <= sqrt(ln(2*K*m/delta)/(2N)), delta = 1e-9 family-wise (Hoeffding +
union bound over K cells x m tests).  Exact clauses (observed cells untouched, exactly the missing
cells of the scope filled, values in the domain) are checked on every drawn row."""
import itertools, math, statistics
from fractions import Fraction
import numpy as np
from . import common as C
from . import circuits as G

PID = "C07"
DELTA = 1e-9
HEADER = ["From Coq Require Import List ZArith QArith Qcanon.",
          "From DV Require Import Model.Core Model.Clt Model.Leaves Model.QcInst Model.Sample Model.SampleRun.",
          "Import ListNotations. Open Scope Z_scope."]
SKEW = {2: (54, 10), 3: (45, 13, 6), 4: (40, 14, 7, 3), 5: (36, 14, 8, 4, 2)}
MAXCELLS = 64
MAXENTRIES = 6000


# ------------------------------------------------------------------ generators
def skew_weights(rs, k):
    w = list(SKEW[k])
    rs.shuffle(w)
    return np.array([x / 64.0 for x in w], dtype=np.float32)


def mixture(rs, k):
    """sum of k products of univariate leaves with skewed weights (the shape on which a wrong
    branch law — e.g. left-skewed Gumbel noise — shows)."""
    from deeprob.spn.structure.leaf import Bernoulli, Categorical
    from deeprob.spn.structure.node import Sum, Product
    nv = int(rs.randint(1, 4))
    scope = G.rand_scope(rs, nv, spread=2)
    cats = {v: (sorted(rs.choice(5, size=3, replace=False).tolist()) if rs.rand() < 0.35 else None) for v in scope}
    comps = []
    for _ in range(k):
        ls = []
        for v in scope:
            if cats[v] is None:
                ls.append(Bernoulli(v, float(rs.randint(1, 16) / 16.0)))
            else:
                ls.append(Categorical(v, cats[v], G.dyadic_weights(rs, 3, 4)))
        comps.append(ls[0] if len(ls) == 1 else Product(children=ls))
    return Sum(children=comps, weights=skew_weights(rs, k))


def nested_mixture(rs):
    """sum over products of sums (skewed at both levels), binary leaves."""
    from deeprob.spn.structure.leaf import Bernoulli
    from deeprob.spn.structure.node import Sum, Product
    scope = G.rand_scope(rs, 2, spread=2)
    def inner(v):
        k = int(rs.randint(2, 4))
        return Sum(children=[Bernoulli(v, float(rs.randint(1, 16) / 16.0)) for _ in range(k)], weights=skew_weights(rs, k))
    k = int(rs.randint(2, 4))
    return Sum(children=[Product(children=[inner(v) for v in scope]) for _ in range(k)], weights=skew_weights(rs, k))


def zero_weight_stress(rs):
    """a mixture with a zero-weight component and evidence that this dead component explains >= 2^20 times
    better than the live ones: the sampler must still follow the live components only (branch law
    w_k * val_k(r), not (w_k + eps) * val_k(r) or max(w_k, eps) * val_k(r)).  Returns (root, evidence dict)."""
    from deeprob.spn.structure.leaf import Bernoulli
    from deeprob.spn.structure.node import Sum, Product
    n = int(rs.randint(4, 6)); scope = G.rand_scope(rs, n, spread=1)
    hi, lo = 1.0 - 2.0 ** -10, 2.0 ** -10
    k = int(rs.randint(3, 5)); pos = int(rs.randint(k))
    nobs = n - int(rs.randint(1, 3))
    comps = []
    for c in range(k):
        if c == pos:
            ps = [hi] * nobs + [float(rs.randint(12, 16) / 16.0) for _ in range(n - nobs)]
        else:
            ps = [lo] * nobs + [float(rs.randint(1, 5) / 16.0) for _ in range(n - nobs)]
        comps.append(Product(children=[Bernoulli(v, float(p)) for v, p in zip(scope, ps)]))
    w = np.insert(np.array(G.dyadic_weights(rs, k - 1), dtype=np.float64), pos, 0.0)
    root = Sum(children=comps, weights=w.astype(np.float32))
    return root, {int(v): 1 for v in scope[:nobs]}


def clt_chain_or_tree(rs, n):
    return G.rand_clt(rs, list(range(n)))


def cont_circuit(rs):
    """sum of products over one continuous variable (Gaussian / Uniform / Isotonic) and 1-2 binary ones."""
    from deeprob.spn.structure.leaf import Bernoulli
    from deeprob.spn.structure.node import Sum, Product
    nb = int(rs.randint(1, 3))
    scope = G.rand_scope(rs, 1 + nb, spread=1)
    cv = scope[int(rs.randint(len(scope)))]
    k = int(rs.randint(2, 4))
    comps = []
    for ci_ in range(k):
        ls = []
        for v in scope:
            if v == cv and ci_ == 0:
                # every continuous test has a histogram leaf with UNEQUAL bin widths and non-constant densities
                from deeprob.spn.structure.leaf import Isotonic
                nb_ = int(rs.randint(2, 5)); start = float(rs.randint(-4, 5))
                widths = rs.permutation([0.5, 1.0, 1.5, 2.0])[:nb_]
                dens = rs.randint(1, 9, size=nb_).astype(float); dens[int(rs.randint(nb_))] += 9.0
                dens = np.round(dens / float(dens.sum()), 6); dens[-1] = 1.0 - float(dens[:-1].sum())   # the constructor wants them to sum to one
                ls.append(Isotonic(v, densities=dens.tolist(), breaks=(start + np.concatenate([[0.0], np.cumsum(widths)])).tolist()))
            elif v == cv:
                ls.append(G.rand_leaf(rs, v, ["gauss", "unif", "iso"]))
            else:
                ls.append(Bernoulli(v, float(rs.randint(1, 16) / 16.0)))
        comps.append(Product(children=ls))
    return Sum(children=comps, weights=skew_weights(rs, k))


# ------------------------------------------------------------------ independent CDFs of continuous leaves
def cont_cdf(leaf, x):
    from deeprob.spn.structure.leaf import Gaussian, Uniform, Isotonic
    if x == math.inf:
        return 1.0
    if x == -math.inf:
        return 0.0
    if isinstance(leaf, Gaussian):
        return statistics.NormalDist(float(leaf.mean), float(leaf.stddev)).cdf(x)
    if isinstance(leaf, Uniform):
        return min(1.0, max(0.0, (x - float(leaf.start)) / float(leaf.width)))
    if isinstance(leaf, Isotonic):
        d = [float(v) for v in leaf.densities]; b = [float(v) for v in leaf.breaks]
        z = sum(di * (b1 - b0) for di, b0, b1 in zip(d, b[:-1], b[1:]))
        acc = 0.0
        for di, b0, b1 in zip(d, b[:-1], b[1:]):
            if x >= b1:
                acc += di * (b1 - b0)
            elif x > b0:
                acc += di * (x - b0)
        return acc / z
    raise TypeError(type(leaf))


def quantile_edges(leaf, nb=8):
    """interior edges at the leaf's own 1/nb .. (nb-1)/nb quantiles (bisection on the independent CDF)."""
    from deeprob.spn.structure.leaf import Gaussian, Uniform, Isotonic
    if isinstance(leaf, Gaussian):
        lo, hi = float(leaf.mean) - 12 * float(leaf.stddev), float(leaf.mean) + 12 * float(leaf.stddev)
    elif isinstance(leaf, Uniform):
        lo, hi = float(leaf.start), float(leaf.start) + float(leaf.width)
    else:
        lo, hi = float(leaf.breaks[0]), float(leaf.breaks[-1])
    edges = []
    for i in range(1, nb):
        a, b = lo, hi
        for _ in range(60):
            m = 0.5 * (a + b)
            if cont_cdf(leaf, m) < i / nb:
                a = m
            else:
                b = m
        edges.append(0.5 * (a + b))
    return edges


# ------------------------------------------------------------------ one test
def is_cont(o):
    from deeprob.spn.structure.leaf import Gaussian, Uniform, Isotonic
    return isinstance(o, (Gaussian, Uniform, Isotonic))


def n_entries(tab, miss):
    """size of the model's measure at the root (to keep vm_compute cheap)."""
    cnt = []
    for n in tab.nodes:
        if n["kind"] == "tab":
            cnt.append(len(n["tab"]) if n["var"] in miss else 1)
        elif n["kind"] == "clt":
            cnt.append(2 ** sum(1 for v in n["scope"] if v in miss))
        elif n["kind"] == "sum":
            cnt.append(sum(cnt[k] for k in n["kids"]))
        else:
            p = 1
            for k in n["kids"]:
                p *= cnt[k]
            cnt.append(p)
    return cnt[-1]


class UnfilledDraw(Exception):
    pass


def build_test(rs, root, label, obs_mode, N):
    """choose an evidence row (values drawn from the model itself, so the evidence has positive
    probability), draw N completions, count every completion.  Returns a dict or None (too large)."""
    from deeprob.spn.algorithms.sampling import sample
    from deeprob.spn.structure.node import assign_ids
    from deeprob.spn.structure.cltree import BinaryCLT
    if isinstance(root, BinaryCLT):
        root.id = 0
    else:
        assign_ids(root)
    objs = G.post_order(root)
    scope = sorted(int(v) for v in root.scope)
    width = max(scope) + 1 + int(rs.randint(0, 2))        # sometimes a column outside the scope
    contvars = sorted({int(o.scope[0]) for o in objs if is_cont(o)})
    joint = sample(root, np.full((1, width), np.nan, dtype=np.float32))[0]
    if np.isnan(joint[scope]).any():
        raise UnfilledDraw(dict(circuit=tab.brief() if "tab" in dir() else G.Table(root).brief(),
                                unconditional_draw=[None if np.isnan(t) else float(t) for t in joint]))
    # which variables are observed
    if isinstance(obs_mode, dict):          # prescribed evidence values
        obs = sorted(obs_mode)
        for v, val in obs_mode.items():
            joint[v] = val
    elif obs_mode == "none":
        obs = []
    elif isinstance(obs_mode, (list, tuple)):
        obs = list(obs_mode)
    else:
        k = int(rs.randint(1, len(scope))) if len(scope) > 1 else 0
        obs = sorted(int(v) for v in rs.choice(scope, size=k, replace=False)) if k else []
    miss = [v for v in scope if v not in obs]
    # per-test table: observed continuous variable -> its value as the single test point (density);
    # missing continuous variable -> 8 bins at the first leaf's quantiles (masses from independent CDFs)
    points = {v: [float(joint[v])] for v in contvars if v in obs}
    tab = G.Table(root, points)
    edges = {}
    for v in contvars:
        if v in miss:
            first = next(o for o in objs if is_cont(o) and int(o.scope[0]) == v)
            edges[v] = quantile_edges(first)
    for n, o in zip(tab.nodes, tab.objs):
        if n["kind"] == "tab" and n.get("cont") and n["var"] in edges:
            e = [-math.inf] + edges[n["var"]] + [math.inf]
            n["tab"] = [(b, Fraction(cont_cdf(o, e[b + 1]) - cont_cdf(o, e[b]))) for b in range(len(e) - 1)]
    dom = tab.domains()
    ncell = 1
    for v in miss:
        ncell *= len(dom[v])
    if not miss or ncell > MAXCELLS or n_entries(tab, set(miss)) > MAXENTRIES:
        return None
    codes = {v: None for v in scope}
    xrow = np.full(width, np.nan, dtype=np.float32)
    for v in obs:
        xrow[v] = joint[v]
        codes[v] = 0 if v in contvars else int(joint[v])
    X = np.tile(xrow, (N, 1))
    # half of the tests: the N rows under test are shuffled into ONE batch with rows carrying other evidence patterns (every
    # variable missing in some row, some rows complete, some empty) — what a row is filled with may depend on that row only
    # (a stand-alone Chow-Liu tree has code paths of its own for columns missing in EVERY row: mostly homogeneous batches there)
    mixed = bool(rs.rand() < (0.25 if isinstance(root, BinaryCLT) else 0.5)) and len(scope) > 1
    sel = None
    if mixed:
        F = max(8, N // 4)
        fill = sample(root, np.full((F, width), np.nan, dtype=np.float32))
        if not np.isnan(fill[:, scope]).any():
            hide = rs.rand(F, width) < rs.rand(F, 1)
            hide[0, :] = True; hide[1, :] = False
            for j, v in enumerate(scope):
                hide[2 + j % (F - 2), v] = True
            fill = fill.copy(); fill[hide] = np.nan
            order = rs.permutation(N + F)
            Xall = np.concatenate([X, fill], axis=0)[order]
            sel = np.argsort(order)[:N]                      # where the rows under test went
            Xall0 = Xall.copy()
    X0 = X.copy()
    fp0 = G.fingerprint(root)
    from deeprob.spn.structure.cltree import BinaryCLT as _CLT
    nj = 2 if (rs.rand() < 0.25 and not isinstance(root, _CLT)) else 0         # the law is the same on the layer-parallel path
    if sel is not None:
        Yall = sample(root, Xall, n_jobs=nj) if nj else sample(root, Xall)
        Y = Yall[sel] if Yall.shape == Xall.shape else Yall
    else:
        Y = sample(root, X, n_jobs=nj) if nj else sample(root, X)
    fp1 = G.fingerprint(root)
    t = dict(label=label, root=root, tab=tab, dom=dom, scope=scope, width=width, obs=obs, miss=miss, codes=codes,
             xrow=xrow, edges=edges, contvars=contvars, N=N, exact=[])
    # ---- exact clauses on every drawn row
    if fp1 != fp0:
        t["exact"].append("sample() changed the circuit it was called on (parameters, ids or node objects differ afterwards)")
    # the same contract whatever the memory layout of the batch (column-major, single row, read-only, float64)
    ro = X[:4].copy(); ro.setflags(write=False)
    for lay, Xa in (("F-order", np.asfortranarray(X[:6])), ("single-row", X[:1].copy()), ("read-only", ro), ("float64", X[:4].astype(np.float64))):
        Xa0 = np.array(Xa, copy=True)
        try:
            Ya = sample(root, Xa)
            if np.shares_memory(Ya, Xa) or not np.array_equal(np.asarray(Xa), Xa0, equal_nan=True):
                t["exact"].append(f"{lay} batch: the caller's storage was written or returned although inplace=False")
            elif Ya.shape != Xa0.shape or np.isnan(Ya[:, miss]).any() or not np.array_equal(np.asarray(Ya)[:, obs], Xa0[:, obs]):
                t["exact"].append(f"{lay} batch: missing cells left unfilled or evidence changed")
        except Exception as e:
            t["exact"].append(f"{lay} batch: sample raised {type(e).__name__}: {e}")
    if not isinstance(root, _CLT):
        Xi = X[:6].copy()
        try:
            Yi = sample(root, Xi, inplace=True)
            if Yi is not Xi or np.isnan(Xi[:, miss]).any() or not np.array_equal(Xi[:, obs], X[:6][:, obs]):
                t["exact"].append("inplace=True: the caller's array is not the completed result")
        except Exception as e:
            t["exact"].append(f"inplace=True: sample raised {type(e).__name__}: {e}")
    t["n_jobs"] = nj
    t["mixed_batch"] = sel is not None
    if Y.shape != X.shape:
        t["exact"].append("output shape differs from input shape"); return t
    if not np.array_equal(X, X0, equal_nan=True):
        t["exact"].append("caller's array modified although inplace=False")
    if sel is not None:
        if not np.array_equal(Xall, Xall0, equal_nan=True):
            t["exact"].append("caller's array modified although inplace=False (mixed batch)")
        ob = ~np.isnan(Xall0)
        if not np.array_equal(Yall[ob], Xall0[ob]):
            t["exact"].append("an observed entry of a row of the mixed batch was changed")
        if np.isnan(Yall[:, scope]).any():
            t["exact"].append(f"{int(np.isnan(Yall[:, scope]).sum())} missing cells of the mixed batch left unfilled")
    keep = [j for j in range(width) if j not in miss]
    if not np.array_equal(Y[:, keep], X0[:, keep], equal_nan=True):
        j = next(j for j in keep if not np.array_equal(Y[:, j], X0[:, j], equal_nan=True))
        t["exact"].append(f"column {j} (observed or outside the scope) was changed")
    if np.isnan(Y[:, miss]).any():
        t["exact"].append(f"{int(np.isnan(Y[:, miss]).sum())} missing cells left unfilled")
        return t
    # ---- outcome codes
    cols = []
    for v in miss:
        if v in edges:
            cols.append(np.searchsorted(np.array(edges[v]), Y[:, v].astype(np.float64)).astype(np.int64))
        else:
            col = Y[:, v]
            if not np.all(col == np.round(col)):
                t["exact"].append(f"non-integer value sampled for discrete variable {v}"); return t
            cols.append(col.astype(np.int64))
    M = np.stack(cols, axis=1)
    uniq, cnts = np.unique(M, axis=0, return_counts=True)
    counts = {tuple(int(a) for a in u): int(c) for u, c in zip(uniq, cnts)}
    cells = list(itertools.product(*[dom[v] for v in miss]))
    outside = {u: c for u, c in counts.items() if u not in set(cells)}
    if outside:
        u = next(iter(outside))
        t["exact"].append(f"sampled value outside the domain: {dict(zip(miss, u))} ({outside[u]} rows)")
    t["cells"] = cells
    t["counts"] = [counts.get(c, 0) for c in cells]
    return t


def case_coq(name, t, eps):
    from .c01 import doms_coq
    tab, width = t["tab"], t["width"]
    cells = []
    for c, k in zip(t["cells"], t["counts"]):
        cc = dict(t["codes"]); cc.update(dict(zip(t["miss"], c)))
        cells.append(f"({G.row_coq(cc, width)}, {C.qlit(Fraction(k, t['N']))})")
    return (f"Definition {name}_t : qtable :=\n  {tab.coq()}.\n"
            f"Definition {name} := run_scase (Build_scase {name}_t {doms_coq(t['dom'])} {C.natlist(t['contvars'])} "
            f"{G.row_coq(t['codes'], width)} {C.qlit(eps)}\n  {C.coq_list(cells)}).\n")


def oracle(t, eps):
    """direct oracle on the implementation alone: fresh draws against the exact conditional computed from
    the implementation's OWN likelihoods of the completions (discrete cells only)."""
    from deeprob.spn.algorithms.sampling import sample
    from deeprob.spn.algorithms.inference import likelihood
    if t["edges"] or "cells" not in t:
        return None
    rows = []
    for c in t["cells"]:
        x = t["xrow"].copy(); x[t["miss"]] = c; rows.append(x)
    L = likelihood(t["root"], np.array(rows, dtype=np.float32)).reshape(-1).astype(np.float64)
    if L.sum() <= 0:
        return None
    p = L / L.sum()
    N = 2 * t["N"]
    Y = sample(t["root"], np.tile(t["xrow"], (N, 1)))
    M = Y[:, t["miss"]]
    f = np.array([np.mean(np.all(M == np.array(c, dtype=np.float32), axis=1)) for c in t["cells"]])
    i = int(np.argmax(np.abs(f - p)))
    return dict(what="fresh draws vs. conditional from the implementation's own likelihoods", draws=N,
                cell=dict(zip(t["miss"], t["cells"][i])), frequency=float(f[i]), exact_conditional=float(p[i]),
                deviation=float(abs(f[i] - p[i])), radius=float(eps), exceeds=bool(abs(f[i] - p[i]) > float(eps)))


# ------------------------------------------------------------------ main
def plan(rs, tier):
    """list of (label, builder, obs_mode)."""
    P = []
    reps = 2 if tier == "quick" else 6
    for _ in range(reps):
        for k in (2, 3, 4, 5):
            P.append((f"mixture{k}", (lambda k=k: mixture(rs, k)), "none"))
            P.append((f"mixture{k}-evidence", (lambda k=k: mixture(rs, k)), "rand"))
        P.append(("mixture3", (lambda: mixture(rs, 3)), "none"))
        P.append(("zero-weight-stress", (lambda: zero_weight_stress(rs)), "stress"))
        P.append(("zero-weight-stress", (lambda: zero_weight_stress(rs)), "stress"))
        P.append(("nested-mixture", (lambda: nested_mixture(rs)), "none"))
        P.append(("nested-mixture-evidence", (lambda: nested_mixture(rs)), "rand"))
        for i in range(8):
            kinds = [("bern",), ("bern", "cat")][i % 2]
            def dag(kinds=kinds):
                nv = int(rs.randint(2, 5))
                return G.rand_circuit(rs, G.rand_scope(rs, nv, spread=2), kinds=kinds, clt=0.35, share=0.3, maxdepth=3)
            P.append(("dag", dag, "none" if i % 4 == 0 else "rand"))
        # Chow-Liu trees: evidence above (root / inner node observed), below (a leaf of the tree observed), both, none
        for mode in ("none", "root", "leafvar", "rand", "inner", "leafvar", "root", "rand"):
            P.append((f"clt-{mode}", (lambda: clt_chain_or_tree(rs, int(rs.randint(2, 6)))), "clt:" + mode))
        for mode in ("none", "rand", "none", "rand", "contobs", "contobs"):
            P.append((f"continuous-{mode}", (lambda: cont_circuit(rs)), "cont:" + mode))
    return P


def clt_obs(rs, clt, mode):
    tree = [int(p) for p in clt.tree]; n = len(tree)
    rootv = tree.index(-1)
    leaves = [j for j in range(n) if j not in tree]
    inner = [j for j in range(n) if j in tree and j != rootv]
    if mode == "none":
        return []
    if mode == "root":
        return [rootv]
    if mode == "leafvar":
        return [int(leaves[rs.randint(len(leaves))])]
    if mode == "inner" and inner:
        return [int(inner[rs.randint(len(inner))])]
    k = int(rs.randint(1, n))
    return sorted(int(v) for v in rs.choice(n, size=k, replace=False))


def main(tier, seed, replay=None):
    rep = C.Report(PID, tier, seed)
    rs = np.random.RandomState(seed % (2 ** 31))
    np.random.seed((seed + 7) % (2 ** 31))            # scipy.stats .rvs and np.random.rand use the global generator
    C.proof_stage(rep, PID)
    N = 200000
    rep.cov["trusted_base"] += [
        "harness/circuits.py object->table mapping; harness/c07.py: outcome counting, per-test tables (a missing continuous "
        "variable is binned at 8 quantile bins with masses from independent CDF formulas, an observed one enters by its density)",
        "Hoeffding's inequality + union bound (the test's false-alarm probability <= 1e-9 per run); numpy/scipy generators "
        "(seeded from VERIF_SEED) are assumed to produce independent draws",
        "the Gumbel-max fact: argmax_k(log a_k + G_k), G_k i.i.d. standard Gumbel, selects k with probability a_k / sum a "
        "(cited mathematics; the model states the categorical law, the tie checks that the code realises it)",
        "the measure semantics of Model/Sample.v (sum: scale by w_k, product: independent cross product, leaves: tables / "
        "normalised CLT conditionals) as the description of one `sample` call per row"]
    tests = []
    dist = dict(tests=0, kinds={}, cells=0, missing_vars={}, observed_vars={}, draws_per_test=N)
    for label, build, mode in plan(rs, tier):
        t = None
        for _ in range(20):
            root = build()
            if mode == "stress":
                root, obs = root
            elif mode.startswith("clt:"):
                obs = clt_obs(rs, root, mode[4:])
            elif mode == "cont:contobs":
                obs = sorted({int(o.scope[0]) for o in G.post_order(root) if is_cont(o)})
            elif mode.startswith("cont:"):
                obs = mode[5:]
                if obs == "rand":     # observe binary variables only
                    bins = [int(v) for v in root.scope if v not in {int(o.scope[0]) for o in G.post_order(root) if is_cont(o)}]
                    obs = [int(bins[rs.randint(len(bins))])]
            else:
                obs = mode
            try:
                t = build_test(rs, root, label, obs, N)
            except UnfilledDraw as e:
                if dist.get("unfilled_draws", 0) < 3:
                    rep.violation(dict(kind="exact-clause", what="an unconditional draw (all entries missing) leaves entries unfilled",
                                       test=label, **e.args[0]), True)
                dist["unfilled_draws"] = dist.get("unfilled_draws", 0) + 1
                t = None; break
            if t is not None:
                break
        if t is None:
            continue
        tests.append(t)
        dist["tests"] += 1; dist["kinds"][label] = dist["kinds"].get(label, 0) + 1
        dist["missing_vars"][len(t["miss"])] = dist["missing_vars"].get(len(t["miss"]), 0) + 1
        dist["observed_vars"][len(t["obs"])] = dist["observed_vars"].get(len(t["obs"]), 0) + 1
    # ---- exact clauses
    for t in tests:
        for msg in t["exact"]:
            rep.violation(dict(kind="exact-clause", what=msg, test=t["label"], circuit=t["tab"].brief(),
                               evidence_row=t["xrow"].tolist(), draws=t["N"]), True)
    good = [t for t in tests if "cells" in t]
    m = max(1, len(good)); K = max([len(t["cells"]) for t in good] + [1])
    eps_f = math.sqrt(math.log(2.0 * K * m / DELTA) / (2.0 * N))
    eps = Fraction(math.ceil(eps_f * 10 ** 7), 10 ** 7)
    dist["cells"] = sum(len(t["cells"]) for t in good)
    rep.cov["hoeffding"] = dict(N=N, K_max_cells=K, m_tests=m, delta=DELTA, radius=float(eps),
                                formula="sqrt(ln(2*K*m/delta)/(2N)), rounded up to 1e-7")
    rep.cov["input_distribution"] = dist
    # ---- Coq side
    files = []; metas = []
    per = 4
    for s in range(0, len(good), per):
        body = list(HEADER); names = []
        for j, t in enumerate(good[s:s + per]):
            nm = f"s{s + j}"
            body.append(case_coq(nm, t, eps)); names.append(nm)
        body.append("Eval vm_compute in (concat (map (fun l => (-1)%Z :: l) [" + "; ".join(names) + "])).")
        files.append((f"cases_{len(files)}", "\n".join(body))); metas.append(good[s:s + per])
    res = C.run_case_files(PID, files)
    for (name, rc, ints, raw), meta in zip(res, metas):
        if rc != 0 or ints is None:
            rep.obligation(False); rep.violation(dict(kind="correspondence-shard-failed", shard=name, log=raw), False); continue
        rep.obligation(True)
        groups = []
        for z in ints:
            if z == -1:
                groups.append([])
            else:
                groups[-1].append(z)
        for t, codes in zip(meta, groups):
            head, cellcodes = codes[:5], codes[5:]
            for c, k, code in zip(t["cells"], t["counts"], cellcodes):
                rep.count(dict(c=t["tab"].brief(), r=t["xrow"].tolist(), cell=c), nontrivial=True)
            bad_model = [h for h in head if h] + [c for c in cellcodes if c & 4]
            bad_cells = [(c, k) for c, k, code in zip(t["cells"], t["counts"], cellcodes) if code & 1]
            if bad_model:
                rep.violation(dict(kind="model-side-check-failed", header=head, test=t["label"], circuit=t["tab"].brief(),
                                   evidence_row=t["xrow"].tolist(),
                                   what="64 invalid table / 16 theorem side condition (duplicate key, zero normaliser) / 32 total<>val(r) / 8 zero-probability evidence / 2 mass outside cells / 4 mass(c)<>val(c)"),
                              False)
            if bad_cells:
                orc = oracle(t, eps)
                rep.violation(dict(kind="sampling-law-differs-from-exact-conditional", test=t["label"], circuit=t["tab"].brief(),
                                   evidence_row=t["xrow"].tolist(), missing=t["miss"], draws=t["N"], radius=float(eps),
                                   cells_outside_radius=[dict(cell=dict(zip(t["miss"], c)), frequency=k / t["N"]) for c, k in bad_cells[:8]],
                                   all_cells=[dict(cell=c, frequency=k / t["N"]) for c, k in zip(t["cells"], t["counts"])][:64],
                                   bins=t["edges"], oracle=orc, seed=seed,
                                   batch=("the rows under test were shuffled into one batch with rows carrying other evidence patterns "
                                          "(some all-missing, some complete); the oracle below redraws on a homogeneous batch") if t.get("mixed_batch") else "homogeneous"),
                              True)
    for t in good[:2] + good[-2:]:
        rep.sample(dict(test=t["label"], model=t["tab"].brief(), evidence_row=t["xrow"].tolist(), missing=t["miss"],
                        frequencies=[dict(cell=c, freq=k / t["N"]) for c, k in zip(t["cells"], t["counts"])][:8]))
    if replay:
        print(open(replay).read()[:3000])
    rep.cov["rule"] = ("tests = skewed mixtures of 2-5 product components (Bernoulli / Categorical leaves), nested skewed mixtures, zero-weight stress mixtures (a zero-weight component favoured by the evidence by >= 2^20), random valid "
                       "DAGs with sharing and CLT leaves, stand-alone Chow-Liu trees (2-5 variables; evidence on the root, on an inner node, on "
                       "a leaf of the tree, random, none), mixtures over a Gaussian/Uniform/Isotonic variable (8 quantile bins; also observed, "
                       "sampling the discrete rest); evidence values are drawn from the model; one evaluation = one (circuit, evidence row, "
                       "completion cell; in half of the tests the rows under test share one batch with rows of other evidence patterns) whose frequency among N = 2e5 draws is compared inside Coq with the sampler model's exact law; all are "
                       "non-trivial; distinct by circuit+row+cell hash")
    C.clean_gen(PID)
    return rep.finish("proof")
