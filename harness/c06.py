"""C06 — MPE completes only missing entries; exact on Chow-Liu trees.
Proof: Properties/C06.v.  Tie: implementation `mpe` on random valid DAGs (discrete + CLT leaves)
and stand-alone CLTs, every evidence pattern, against the model's descent / decoding (engine E1,
numerical near-ties excluded inside Coq by margin variants of the comparison)."""
import itertools, json
import numpy as np
from . import common as C
from . import circuits as G
from . import c01

PID = "C06"
HEADER = ["From Coq Require Import List ZArith QArith Qcanon.",
          "From DV Require Import Model.Core Model.Clt Model.Leaves Model.QcInst Model.Mpe Model.MpeRun Proofs.MpePositiveQc.",
          "Import ListNotations. Open Scope Z_scope."]


def bern_one_first(tab):
    from deeprob.spn.structure.leaf import Bernoulli
    for n, o in zip(tab.nodes, tab.objs):
        if isinstance(o, Bernoulli):
            n["tab"] = [n["tab"][1], n["tab"][0]]   # (1,p) first: `0 if p < 0.5 else 1`
    return tab


def cells_coq(x, width):
    out = []
    for v in range(width):
        out.append("N_" if np.isnan(x[v]) else f"S_ {C.zlit(int(x[v]))}")
    return "[" + "; ".join(out) + "]"


def clt_coq(n):
    sc = C.natlist(n["scope"])
    par = C.coq_list(["None" if t < 0 else f"(Some {t}%nat)" for t in n["tree"]])
    cpt = C.coq_list([C.coq_list([C.coq_list([C.qlit(x) for x in row]) for row in tbl]) for tbl in n["cpt"]])
    return f"(Build_clt {sc} {par} {cpt})"


def brute_clt(clt, x):
    """direct oracle: the completed row must have maximal joint among all completions (implementation only)."""
    miss = [j for j in range(x.shape[0]) if np.isnan(x[j])]
    if len(miss) > 10:
        return None
    got = clt.mpe(x[None, :].copy())[0]
    comps = []
    for vals in itertools.product([0, 1], repeat=len(miss)):
        c = x.copy(); c[miss] = vals; comps.append(c)
    L = clt.log_likelihood(np.array(comps, dtype=np.float32)).reshape(-1)
    lg = clt.log_likelihood(got[None, :].astype(np.float32)).reshape(-1)[0]
    if lg < L.max() - 1e-4:
        return dict(what="completion is not a maximiser", completion=got.tolist(), loglik=float(lg), best=float(L.max()),
                    best_row=comps[int(L.argmax())].tolist())
    return None


def zero_weight_stress(rs):
    """a mixture whose zero-weight component explains the evidence >16 nats better than the others:
    the descent must still follow a component of positive weight (argmax of w_k * val_k, not of val_k
    or of (w_k + eps) * val_k)."""
    from deeprob.spn.structure.leaf import Bernoulli
    from deeprob.spn.structure.node import Sum, Product, assign_ids
    n = int(rs.randint(4, 6)); scope = G.rand_scope(rs, n, spread=2)
    hi, lo = 1.0 - 2.0 ** -10, 2.0 ** -10
    k = int(rs.randint(2, 4))
    pos = int(rs.randint(k))                       # position of the zero-weight child
    comps = []
    for c in range(k):
        ps = [hi] * n if c == pos else [lo if rs.rand() < 0.8 else 0.25 for _ in range(n)]
        comps.append(Product(children=[Bernoulli(v, float(p)) for v, p in zip(scope, ps)]))
    w = np.array(G.dyadic_weights(rs, k - 1) if k > 2 else [1.0], dtype=np.float64)
    w = np.insert(w, pos, 0.0)
    root = Sum(children=comps, weights=w.astype(np.float32))
    if rs.rand() < 0.5:                             # bury it under a product / another sum
        extra = Bernoulli(max(scope) + 1, 0.25)
        root = Product(children=[root, extra])
    assign_ids(root)
    return root


def main(tier, seed, replay=None):
    rep = C.Report(PID, tier, seed)
    rs = np.random.RandomState(seed % (2 ** 31))
    C.proof_stage(rep, PID)
    rep.cov["trusted_base"] += ["harness/circuits.py object->table mapping; Bernoulli tables emitted as [(1,p);(0,1-p)] so that 'first maximum' is the code's `0 if p < 0.5 else 1`",
                                "numerical near-ties (relative margin < 1e-4 at any comparison that changes the result) are excluded inside Coq, as the property excludes ties",
                                "continuous leaves (Gaussian mean / Uniform start / Isotonic bin centre) are checked in Python only: evidence preserved, no NaN left"]
    from deeprob.spn.algorithms.inference import mpe
    from deeprob.spn.structure.node import assign_ids
    _raw_violation = rep.violation; _per_kind = {}
    def capped(info, found):
        k = info.get("kind"); _per_kind[k] = _per_kind.get(k, 0) + 1
        if _per_kind[k] <= 3:                      # at most three replays per kind of failure
            _raw_violation(info, found)
    rep.violation = capped
    ncirc = 40 if tier == "quick" else 1200
    files = []; metas = []
    dist = dict(circuits=0, clts=0, rows=0, missing_cells={})
    body = list(HEADER); names = []; cur = []
    def flush():
        nonlocal body, names, cur
        if names:
            body.append("Eval vm_compute in (concat (map (fun l => (-1)%Z :: l) [" + "; ".join(names) + "])).")
            files.append((f"cases_{len(files)}", "\n".join(body))); metas.append(cur)
        body = list(HEADER); names = []; cur = []
    nwide = 2 if tier == "quick" else 10
    def wide_mixture():
        """two or three product components over 180-260 Bernoulli variables: with ~95% of the variables observed the evidence
        likelihood of every component is far below the smallest positive single-precision number, its logarithm is not"""
        from deeprob.spn.structure.node import Sum as _S, Product as _P, assign_ids as _aid
        from deeprob.spn.structure.leaf import Bernoulli as _B
        nv = int(rs.randint(180, 261)); k = int(rs.randint(2, 4))
        comps = [_P(children=[_B(v, float(rs.randint(3, 14) / 16.0)) for v in range(nv)]) for _ in range(k)]
        r_ = _S(children=comps, weights=np.array(G.dyadic_weights(rs, k), dtype=np.float32)); _aid(r_)
        pref = comps[int(rs.randint(1, k))]                 # evidence drawn from a component that is not the first
        rows_ = []
        for _ in range(6):
            hide = rs.rand(nv) < 0.05
            rows_.append({v: (None if hide[v] else int(rs.rand() < float(pref.children[v].p))) for v in range(nv)})
        return r_, rows_
    for i in range(ncirc + nwide):
        kinds = [("bern",), ("bern", "cat")][i % 2]
        wide_rows = None
        if i >= ncirc:
            root, wide_rows = wide_mixture()
        else:
            root = c01.gen_circuit(rs, i, tier, kinds=kinds, clt=0.3) if i % 8 != 6 else zero_weight_stress(rs)
        if i % 8 == 6 or i >= ncirc:
            pass
        elif i % 4 == 0:
            G.skew_params(root, rs)     # zero-weight children, extreme leaf parameters
        elif i % 4 == 2:                # near-deterministic mixtures: evidence can favour a zero-weight child by > 16 nats
            G.skew_params(root, rs, p_zero_w=0.7, p_extreme=1.0, hard=False)
        tab = bern_one_first(G.Table(root))
        dom = tab.domains(); scope = sorted(tab.root_scope()); width = max(scope) + 1
        rows = c01.missing_rows(rs, scope, dom, tier) if wide_rows is None else wide_rows
        X = np.array([G.np_row(c, width, {}) for c in rows], dtype=np.float32)
        X0 = X.copy()
        fp0 = G.fingerprint(root)
        Y = mpe(root, X)
        G.unchanged(root, fp0, "mpe", rep)
        # in-place contract (correspondence-only)
        if not np.array_equal(np.isnan(X), np.isnan(X0)) or not np.allclose(np.nan_to_num(X), np.nan_to_num(X0)):
            rep.violation(dict(kind="caller-array-modified-without-inplace", circuit=tab.brief()), True)
        # batch composition must not matter: rows completed one at a time agree with the batch (ties aside: compared in value)
        from deeprob.spn.algorithms.inference import log_likelihood as _ll
        for j in rs.choice(len(X), size=min(len(X), 4), replace=False):
            y1 = mpe(root, X[j:j + 1])[0]
            if not np.array_equal(y1, Y[j], equal_nan=True):
                a, b = _ll(root, y1[None, :])[0], _ll(root, Y[j][None, :])[0]
                if not np.isclose(float(a), float(b), rtol=1e-4, atol=1e-6):
                    rep.violation(dict(kind="completion-of-a-row-depends-on-the-batch-it-is-evaluated-in", circuit=tab.brief(),
                                       row=sorted(rows[j].items()), in_batch=Y[j].tolist(), alone=y1.tolist()), True)
        # ... nor how the batch is stored: column-major, a strided view of a wider array, a read-only buffer, float64.  Without
        # inplace the result is a new array: the caller's storage is neither written nor returned
        big = np.full((X.shape[0], 2 * X.shape[1] + 1), 7.0, dtype=X.dtype); big[:, 1::2] = X
        ro = X.copy(); ro.setflags(write=False)
        for lay, Xa in (("F-order", np.asfortranarray(X)), ("strided-view", big[:, 1::2]), ("read-only", ro), ("float64", X.astype(np.float64)),
                        ("transpose-of-a-transpose", np.ascontiguousarray(X.T).T)):
            Xa0 = np.array(Xa, copy=True)
            try:
                Ya = mpe(root, Xa)
                pb = None
                if np.shares_memory(Ya, Xa) or not np.array_equal(np.asarray(Xa), Xa0, equal_nan=True):
                    pb = "the caller's storage was written or returned although inplace=False"
                elif Ya.shape != Y.shape or not np.array_equal(np.isnan(Ya), np.isnan(Y)):
                    pb = "shape / filled cells differ from the row-major float32 batch"
                elif not np.array_equal(np.asarray(Ya, dtype=np.float64), Y.astype(np.float64)):
                    a = _ll(root, np.asarray(Ya, dtype=np.float32)).reshape(-1); b = _ll(root, Y).reshape(-1)
                    if not np.allclose(a, b, rtol=1e-4, atol=1e-6):
                        pb = "completions differ (in value) from the row-major float32 batch"
            except Exception as e:
                pb = f"raised {type(e).__name__}: {e}"
            if pb:
                nlay = dist.get("layout_viol", 0); dist["layout_viol"] = nlay + 1
                if nlay < 3:
                    rep.violation(dict(kind="completion-depends-on-how-the-batch-is-stored", layout=lay, problem=pb, circuit=tab.brief(),
                                       batch=[[None if np.isnan(t) else float(t) for t in r] for r in X[:6]]), True)
        X2 = X.copy(); Y2 = mpe(root, X2, inplace=True)
        if Y2 is not X2 or not np.array_equal(Y2, Y, equal_nan=True):
            rep.violation(dict(kind="inplace-contract", circuit=tab.brief()), True)
        # python-side clauses on the implementation (evidence preserved, all filled, in domain)
        for c, y in zip(rows, Y):
            for v in scope:
                if c[v] is not None and y[v] != c[v]:
                    rep.violation(dict(kind="observed-entry-changed", circuit=tab.brief(), row=sorted(c.items()), out=y.tolist()), True)
                if np.isnan(y[v]) or int(y[v]) not in dom[v]:
                    rep.violation(dict(kind="missing-entry-not-filled-in-domain", circuit=tab.brief(), row=sorted(c.items()), out=y.tolist()), True)
        nm = f"p{i}"
        rws = [f"({G.row_coq(c, width)}, {cells_coq(y, width)})" for c, y in zip(rows, Y)]
        body.append(f"Definition {nm}_t : qtable :=\n  {tab.coq()}.\nDefinition {nm} := (if side_b {nm}_t then 0 else 64) :: run_pcase (Build_pcase {nm}_t {width}%nat {C.coq_list(rws)}).")
        names.append(nm); cur.append(dict(kind="circuit", tab=tab, rows=rows, Y=Y, root=root, width=width))
        dist["circuits"] += 1; dist["rows"] += len(rows)
        for c in rows:
            m = sum(1 for v in scope if c[v] is None); dist["missing_cells"][m] = dist["missing_cells"].get(m, 0) + 1
        if len(names) >= 5:
            flush()
    flush()
    # stand-alone Chow-Liu trees: every evidence pattern
    nclt = 40 if tier == "quick" else 900
    for i in range(nclt):
        n = int(rs.randint(1, 6 if tier == "quick" else 8))
        clt = G.rand_clt(rs, list(range(n)), permute=False)     # stand-alone trees are queried by POSITION: keep ids = positions
        root = clt; root.id = 0
        tab = G.Table(root)
        node = tab.nodes[0]
        rows = c01.missing_rows(rs, list(range(n)), {v: [0, 1] for v in range(n)}, tier)
        X = np.array([G.np_row(c, n, {}) for c in rows], dtype=np.float32)
        X0 = X.copy()
        Y = clt.mpe(X)
        # the tree's own mpe has no in-place option: the caller's (single-precision, row-major) batch is neither written nor returned
        if np.shares_memory(Y, X) or not np.array_equal(X, X0, equal_nan=True):
            rep.violation(dict(kind="caller-array-modified-by-stand-alone-tree-mpe", clt=tab.brief(), dtype=str(X.dtype),
                               shares_memory=bool(np.shares_memory(Y, X)), rows_before=np.where(np.isnan(X0), None, X0).tolist()[:6],
                               rows_after=np.where(np.isnan(X), None, X).tolist()[:6]), True)
            X = X0
        for x in X[:: max(1, len(X) // 8)]:
            bad = brute_clt(clt, x)
            if bad:
                rep.violation(dict(kind="clt-mpe-not-maximal", clt=tab.brief(), row=x.tolist(), oracle=bad), True)
        nm = f"t{i}"
        rws = [f"({G.row_coq(c, n)}, {cells_coq(y, n)})" for c, y in zip(rows, Y)]
        body.append(f"Definition {nm} := run_tcase (Build_tcase {clt_coq(node)} {n}%nat {C.coq_list(rws)}).")
        names.append(nm); cur.append(dict(kind="clt", tab=tab, rows=rows, Y=Y, root=clt, width=n))
        dist["clts"] += 1; dist["rows"] += len(rows)
        if len(names) >= 10:
            flush()
    flush()
    rep.cov["input_distribution"] = dist
    res = C.run_case_files(PID, files)
    ties = 0; zero_ev = 0; flagged = []
    for (name, rc, ints, raw), meta in zip(res, metas):
        if rc != 0 or ints is None:
            rep.obligation(False); rep.violation(dict(kind="correspondence-shard-failed", shard=name, log=raw), False); continue
        rep.obligation(True)
        groups = []
        for z in ints:
            if z == -1:
                groups.append([])
            else:
                groups[-1].append(z)
        for cs, codes in zip(meta, groups):
            if cs["kind"] == "circuit":
                # hypothesis of C06_positive_qc (non-negative parameters, positive modes, CLT leaves inside their scope)
                if codes[0] != 0:
                    rep.violation(dict(kind="positivity-side-condition-fails-on-generated-circuit", model=cs["tab"].brief()), False)
                codes = codes[1:]
            for r, y, code in zip(cs["rows"], cs["Y"], codes):
                rep.count(dict(c=cs["tab"].brief(), r=sorted(r.items())), nontrivial=(code not in (16, 32) and any(v is None for v in r.values())))
                if code == 32:
                    zero_ev += 1
                elif code == 16:
                    ties += 1
                elif code == 2:
                    rep.violation(dict(kind="completed-row-has-zero-probability-but-evidence-has-not", model=cs["tab"].brief(),
                                       row=sorted(r.items()), impl_mpe=y.tolist()), True)
                elif code:
                    flagged.append((cs, r, y))
    rep.cov["numerical_ties_excluded"] = ties
    rep.cov["zero_probability_evidence_rows_excluded"] = zero_ev
    for cs in [m[0] for m in metas[:1]] + [m[0] for m in metas[-1:]]:
        rep.sample(dict(kind=cs["kind"], model=cs["tab"].brief(), rows=[sorted(r.items()) for r in cs["rows"][:2]],
                        impl_mpe=[y.tolist() for y in cs["Y"][:2]]))
    seen = set()
    for cs, r, y in flagged:
        if id(cs) in seen or len(seen) >= 5:
            continue
        seen.add(id(cs))
        info = dict(kind="model-implementation-disagreement", what="completed row differs from the model's descent/decoding",
                    model_kind=cs["kind"], model=cs["tab"].brief(), row=sorted(r.items()), impl_mpe=y.tolist())
        if cs["kind"] == "clt":
            x = G.np_row(r, cs["width"], {})
            info["oracle"] = brute_clt(cs["root"], x)
        rep.violation(info, True)
    # continuous leaves: python-side contract only
    for i in range(10 if tier == "quick" else 60):
        root = c01.gen_circuit(rs, i, tier, kinds=("gauss", "unif", "iso", "bern"), clt=0.0)
        points = c01.make_points(root, rs)
        tab = G.Table(root, points); dom = tab.domains(); scope = sorted(tab.root_scope()); width = max(scope) + 1
        rows = c01.missing_rows(rs, scope, dom, "quick")
        X = np.array([G.np_row(c, width, points) for c in rows], dtype=np.float32)
        Y = mpe(root, X)
        obs = ~np.isnan(X)
        if not np.array_equal(Y[obs], X[obs]) or np.isnan(Y[:, scope]).any():
            rep.violation(dict(kind="continuous-mpe-contract", circuit=tab.brief()), True)
    if replay:
        print(open(replay).read()[:3000])
    rep.cov["rule"] = ("random valid DAGs with Bernoulli/Categorical/CLT leaves (as C01) and stand-alone CLTs (1-5 vars quick / 1-7 thorough), "
                       "rows = every subset of variables missing x sampled observed values; one evaluation = one (model,row) whose completed row is "
                       "compared cell by cell inside Coq; non-trivial = at least one missing cell and not a numerical tie; distinct by model+row hash")
    C.clean_gen(PID)
    return rep.finish("proof")
