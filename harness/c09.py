"""C09 — pruning preserves the distribution and yields a normal form.
Proof: Properties/C09.v (value preservation at every node on every row, unbounded).  Tie: the
implementation's pruned circuit vs the model's (structure with child order, weights within float32
tolerance, number of distinct reachable nodes), normal form and idempotence of both (engine E1),
before/after likelihoods and `copy=True` snapshot in Python."""
import itertools, json, copy as _copy
import numpy as np
from . import common as C
from . import circuits as G
from . import c01

PID = "C09"
HEADER = ["From Coq Require Import List ZArith QArith Qcanon.",
          "From DV Require Import Model.Core Model.Clt Model.Leaves Model.QcInst Model.Prune Model.PruneRun.",
          "Import ListNotations. Open Scope Z_scope."]


def small_shapes(rs):
    """bounded-exhaustive expressions: chains of single-child nodes, nested same-kind nodes,
    coinciding (shared) children.  Depth <= 3, arity <= 2, over one variable and products of two."""
    from deeprob.spn.structure.leaf import Bernoulli
    from deeprob.spn.structure.node import Sum, Product
    outs = []

    def exprs(var, depth, leaves):
        """list of builders () -> node over {var}; sharing is created by reusing `leaves` objects."""
        res = [lambda l=l: l for l in leaves]
        if depth == 0:
            return res
        sub = exprs(var, depth - 1, leaves)
        for f in sub:
            res.append(lambda f=f: Sum(children=[f()], weights=[1.0]))
            res.append(lambda f=f: Product(children=[f()]))
        for f, g in itertools.product(sub, repeat=2):
            res.append(lambda f=f, g=g: Sum(children=[f(), g()], weights=[0.25, 0.75]))
        return res

    a, a2 = Bernoulli(0, 0.25), Bernoulli(0, 0.625)
    e0 = exprs(0, 2, [a, a2])
    for f in e0:
        outs.append(f)
    # shared sub-expressions: Sum[x, x], Sum[x, Sum[x]], Sum[Sum[x, y], x]
    for f in e0[:40]:
        def mk(f=f):
            x = f(); return Sum(children=[x, x], weights=[0.5, 0.5])
        outs.append(mk)
        def mk2(f=f):
            x = f(); return Sum(children=[x, Sum(children=[x], weights=[1.0])], weights=[0.5, 0.5])
        outs.append(mk2)
        def mk3(f=f):
            x = f(); return Sum(children=[Sum(children=[x, a2], weights=[0.5, 0.5]), x, Product(children=[x])], weights=[0.5, 0.25, 0.25])
        outs.append(mk3)
    b = Bernoulli(1, 0.5)
    e1 = [lambda: b, lambda: Sum(children=[b], weights=[1.0]), lambda: Product(children=[b]),
          lambda: Sum(children=[b, Bernoulli(1, 0.125)], weights=[0.5, 0.5])]
    idx = rs.choice(len(e0), size=60, replace=False)
    for i in idx:
        for g in e1:
            f = e0[i]
            outs.append(lambda f=f, g=g: Product(children=[f(), g()]))
            outs.append(lambda f=f, g=g: Product(children=[Product(children=[f()]), Product(children=[g()])]))
            outs.append(lambda f=f, g=g: Sum(children=[Product(children=[f(), g()]), Product(children=[Product(children=[f(), g()])])], weights=[0.5, 0.5]))
    return outs


def nf_scan(root):
    """normal form of the implementation's output (reachable part)."""
    from deeprob.spn.structure.node import Sum, Product
    for n in G.post_order(root):
        if isinstance(n, (Sum, Product)):
            if len(n.children) == 1:
                return f"{type(n).__name__} #{n.id} has a single child"
            for c in n.children:
                if type(c) is type(n):
                    return f"{type(n).__name__} #{n.id} has a child of the same kind"
            if isinstance(n, Sum) and len(set(map(id, n.children))) != len(n.children):
                return f"Sum #{n.id} lists a child twice"
    return None


def main(tier, seed, replay=None):
    rep = C.Report(PID, tier, seed)
    rs = np.random.RandomState(seed % (2 ** 31))
    C.proof_stage(rep, PID)
    rep.cov["trusted_base"] += ["harness/circuits.py object->table mapping (applied to the circuit before pruning and to the implementation's pruned circuit)",
                                "weights of merged sums compared within the float32 tolerance 2e-4; Python deepcopy semantics (copy=True) checked by snapshot comparison only",
                                "normal form / idempotence / output validity are theorems about the model (C09_normal_form, C09_idempotent, C09_output_valid); on the implementation's output they are checked per case"]
    from deeprob.spn.algorithms.structure import prune
    from deeprob.spn.algorithms.inference import log_likelihood
    from deeprob.spn.structure.node import assign_ids
    builders = []
    shapes = small_shapes(rs)
    if tier == "quick":
        shapes = [shapes[i] for i in rs.choice(len(shapes), size=250, replace=False)]
    for f in shapes:
        builders.append(("shape", f))
    for i in range(60 if tier == "quick" else 2400):
        builders.append(("random", lambda i=i: c01.gen_circuit(rs, i, tier, kinds=[("bern",), ("bern", "cat")][i % 2], clt=0.15)))
    for i in range(10 if tier == "quick" else 120):
        builders.append(("random", lambda: G.rand_nested_mixture(rs)))
    cases = []; dist = dict(shape=0, random=0, nodes_before=0, nodes_after=0, shrunk=0)
    for tag, f in builders:
        root = f(); assign_ids(root)
        if rs.rand() < 0.5:
            c01.relabel_ids(root, rs)        # any bijection onto 0..n-1 is a valid labelling, not only the one assign_ids produces
        tab = G.Table(root)
        def snapshot():
            t_ = G.Table(root)
            return json.dumps([t_.brief(), [None if o.id is None else int(o.id) for o in t_.objs]]), [id(o) for o in t_.objs]
        before, before_objs = snapshot()
        dom = tab.domains(); scope = sorted(tab.root_scope()); width = max(scope) + 1
        try:
            pruned = prune(root, copy=True)
        except Exception as e:
            nr = dist.get("prune_raised", 0); dist["prune_raised"] = nr + 1
            if nr < 3:
                rep.violation(dict(kind="prune-raised-on-a-valid-circuit", circuit=json.loads(before)[0], ids=json.loads(before)[1],
                                   error=f"{type(e).__name__}: {e}"), True)
            continue
        try:
            after, _ = snapshot()
        except Exception as e:
            after = f"unreadable: {type(e).__name__}: {e}"
        shared = [int(o.id) for o in G.post_order(pruned) if id(o) in set(before_objs)]
        if after != before or shared:
            nch = dist.get("original_changed", 0); dist["original_changed"] = nch + 1
            if nch < 3:
                rep.violation(dict(kind="original-changed-with-copy-true", circuit=json.loads(before)[0],
                                   ids_before=json.loads(before)[1], original_afterwards=after[:1200],
                                   result_shares_node_objects_with_the_original=shared[:10]), True)
            continue
        try:
            from deeprob.spn.utils.validity import check_spn as _chk
            _chk(pruned, labeled=True, smooth=True, decomposable=True)
            ptab = G.Table(pruned)
        except Exception as e:
            ninv = dist.get("pruned_invalid", 0); dist["pruned_invalid"] = ninv + 1
            if ninv < 3:
                rep.violation(dict(kind="pruned-circuit-is-not-a-valid-circuit", circuit=json.loads(before)[0], ids=json.loads(before)[1],
                                   error=f"{type(e).__name__}: {e}"), True)
            continue
        rows = c01.missing_rows(rs, scope, dom, "quick")[:24]
        X = np.array([G.np_row(c, width, {}) for c in rows], dtype=np.float32)
        # direct oracle on the implementation: same likelihoods, normal form, second prune is a no-op
        ll0 = log_likelihood(root, X).reshape(-1); ll1 = log_likelihood(pruned, X).reshape(-1)
        bad = None
        if not np.allclose(np.exp(ll0), np.exp(ll1), rtol=2e-4, atol=1e-9):
            i = int(np.argmax(np.abs(np.exp(ll0) - np.exp(ll1))))
            bad = dict(what="likelihood changed by pruning", row=sorted(rows[i].items()), before=float(ll0[i]), after=float(ll1[i]))
        nf = nf_scan(pruned)
        if nf and not bad:
            bad = dict(what="pruned circuit is not in normal form", detail=nf)
        # copy=False on a private deep copy gives the same circuit
        try:
            twin = _copy.deepcopy(root); inpl = prune(twin, copy=False)
            if not bad and json.dumps(G.Table(inpl).brief()) != json.dumps(ptab.brief()):
                bad = dict(what="prune(copy=False) on a deep copy differs from prune(copy=True)", in_place=G.Table(inpl).brief())
        except Exception as e:
            if not bad:
                bad = dict(what="prune(copy=False) raised on a valid circuit", error=f"{type(e).__name__}: {e}")
        again = prune(pruned, copy=True)
        if not bad and len(G.post_order(again)) != len(G.post_order(pruned)):
            bad = dict(what="pruning again changes the circuit", nodes=len(G.post_order(pruned)), nodes_again=len(G.post_order(again)))
        cases.append(dict(tag=tag, tab=tab, ptab=ptab, rows=rows, width=width, oracle=bad))
        dist[tag] += 1; dist["nodes_before"] += len(tab.nodes); dist["nodes_after"] += len(ptab.nodes)
        dist["shrunk"] += int(len(ptab.nodes) < len(tab.nodes))
    rep.cov["input_distribution"] = dist
    shard = 25
    files = []
    for s in range(0, len(cases), shard):
        body = list(HEADER); names = []
        for i, cs in enumerate(cases[s:s + shard]):
            nm = f"c{s + i}"
            rws = C.coq_list([G.row_coq(c, cs["width"]) for c in cs["rows"]])
            body.append(f"Definition {nm}_t : qtable :=\n  {cs['tab'].coq()}.\nDefinition {nm}_p : qtable :=\n  {cs['ptab'].coq()}.\n"
                        f"Definition {nm} := run_rcase (Build_rcase {nm}_t {nm}_p {rws}).")
            names.append(nm)
        body.append("Eval vm_compute in [" + "; ".join(names) + "].")
        files.append((f"cases_{s // shard}", "\n".join(body)))
    res = C.run_case_files(PID, files)
    flagged = []
    for (name, rc, ints, raw), s in zip(res, range(0, len(cases), shard)):
        if rc != 0 or ints is None or len(ints) != len(cases[s:s + shard]):
            rep.obligation(False); rep.violation(dict(kind="correspondence-shard-failed", shard=name, log=raw), False); continue
        rep.obligation(True)
        for cs, code in zip(cases[s:s + shard], ints):
            rep.count(cs["tab"].brief(), nontrivial=len(cs["ptab"].nodes) < len(cs["tab"].nodes))
            if code or cs["oracle"]:
                flagged.append((cs, code))
    for cs in cases[:1] + cases[-1:]:
        rep.sample(dict(tag=cs["tag"], before=cs["tab"].brief(), implementation_pruned=cs["ptab"].brief()))
    for cs, code in flagged[:5]:
        rep.violation(dict(kind="model-implementation-disagreement" if code else "property-oracle-failed", flags=code,
                           note="flags: 1 structure/weights differ from the model's pruned circuit, 2 node count differs, 4 model not NF, 8 model re-prune changes, 16 model value changed",
                           circuit=cs["tab"].brief(), implementation_pruned=cs["ptab"].brief(), oracle=cs["oracle"]),
                      found_input=True)
    if replay:
        print(open(replay).read()[:3000])
    rep.cov["rule"] = ("bounded-exhaustive small shapes (chains of single-child nodes, nested same-kind nodes, shared/coinciding children; depth<=3, arity<=2; "
                       "quick samples 250) + random valid DAGs as C01 (CLT leaves 0.15); one evaluation = one circuit whose pruned form is compared with the "
                       "model's inside Coq; non-trivial = pruning removed at least one node; distinct by circuit hash")
    C.clean_gen(PID)
    return rep.finish("proof")
