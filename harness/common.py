"""Shared pipeline of the /verif checks: Coq build, property-file re-check with axiom audit, hygiene
gate, sharded `vm_compute` case files (engine E1), evidence / replay / known-finding handling."""
import os, sys, re, json, time, subprocess, fcntl, hashlib, random, glob, shutil
from fractions import Fraction

ROOT = os.path.dirname(os.path.dirname(os.path.abspath(__file__)))
COQ = os.path.join(ROOT, "coq")
REPO = os.environ.get("VERIF_REPO", "/repo")
NPROC = int(os.environ.get("VERIF_NPROC", "16"))

AXIOM_WHITELIST = {
    # standard-library axioms that R-instantiated theorems may depend on (DESIGN.md §3)
    "ClassicalDedekindReals.sig_forall_dec", "ClassicalDedekindReals.sig_not_dec",
    "FunctionalExtensionality.functional_extensionality_dep", "Classical_Prop.classic",
    # the reals as a mathcomp choiceType (C15 determinant step, Proofs/FlowLogDet.v): the standard library's description axiom
    "ClassicalEpsilon.constructive_indefinite_description",
}
FORBIDDEN = re.compile(r"\b(Admitted|admit|Axiom|Axioms|Parameter|Parameters|Conjecture|Conjectures|"
                       r"Admit Obligations|bypass_check|native_compute)\b|Unset Guard|Unset Positivity|"
                       r"Unset Universe|type-in-type|impredicative-set")


def sh(cmd, timeout=1800, cwd=None, env=None):
    e = dict(os.environ)
    if env:
        e.update(env)
    p = subprocess.run(cmd, shell=isinstance(cmd, str), cwd=cwd, env=e, timeout=timeout,
                       stdout=subprocess.PIPE, stderr=subprocess.STDOUT, text=True)
    return p.returncode, p.stdout


class Lock:
    def __init__(self, path):
        self.path = path

    def __enter__(self):
        self.f = open(self.path, "w")
        fcntl.flock(self.f, fcntl.LOCK_EX)

    def __exit__(self, *a):
        fcntl.flock(self.f, fcntl.LOCK_UN)
        self.f.close()


def build_coq():
    """(Re)build the Coq development; returns (ok, log).  No-op when fresh."""
    with Lock(os.path.join(COQ, ".build.lock")):
        if not os.path.exists(os.path.join(COQ, "Makefile")) or \
                os.path.getmtime(os.path.join(COQ, "Makefile")) < os.path.getmtime(os.path.join(COQ, "_CoqProject")):
            rc, out = sh("coq_makefile -f _CoqProject -o Makefile", cwd=COQ)
            if rc != 0:
                return False, out
        rc, out = sh(f"timeout 3000 make -j{NPROC}", cwd=COQ, timeout=3100)
        return rc == 0, out


def hygiene():
    """No Admitted/Axiom/... anywhere in the development (comments are stripped first)."""
    bad = []
    for path in glob.glob(os.path.join(COQ, "**", "*.v"), recursive=True):
        if "/Gen/" in path and "/Gen/MomentsSrc.v" not in path:
            continue  # generated case files contain only literals and Eval
        txt = open(path).read()
        txt = strip_comments(txt)
        for m in FORBIDDEN.finditer(txt):
            bad.append(f"{os.path.relpath(path, COQ)}: {m.group(0)}")
    proj = open(os.path.join(COQ, "_CoqProject")).read()
    if re.search(r"type-in-type|impredicative-set|-vos|-vok", proj):
        bad.append("_CoqProject: forbidden flag")
    return bad


def strip_comments(txt):
    out = []; depth = 0; i = 0
    while i < len(txt):
        if txt.startswith("(*", i):
            depth += 1; i += 2
        elif txt.startswith("*)", i) and depth:
            depth -= 1; i += 2
        else:
            if depth == 0:
                out.append(txt[i])
            i += 1
    return "".join(out)


def check_properties(pid):
    """Re-compile Properties/<pid>.v; returns dict(ok, theorems, axioms, log).  Every theorem named
    <pid>_* in the file must have a Print Assumptions line."""
    path = os.path.join(COQ, "Properties", f"{pid}.v")
    src = strip_comments(open(path).read())
    theorems = re.findall(r"\bTheorem\s+(\w+)", src)
    printed = re.findall(r"Print Assumptions\s+(\w+)", src)
    rc, out = sh(f"timeout 900 coqc -R . DV Properties/{pid}.v", cwd=COQ, timeout=950)
    axioms = set()
    blocks = re.split(r"(?=Closed under the global context|Axioms:)", out)
    nblocks = 0
    for b in blocks:
        if b.startswith("Closed under"):
            nblocks += 1
        elif b.startswith("Axioms:"):
            nblocks += 1
            for m in re.finditer(r"^([A-Za-z_][\w.']*)\s*:", b[len("Axioms:"):], re.M):
                axioms.add(m.group(1))
    missing = [t for t in theorems if t not in printed]
    bad_ax = sorted(a for a in axioms if a not in AXIOM_WHITELIST)
    ok = rc == 0 and not missing and not bad_ax and nblocks == len(printed) and len(theorems) > 0
    return dict(ok=ok, rc=rc, theorems=theorems, axioms=sorted(axioms), bad_axioms=bad_ax,
                missing_print=missing, log=out[-4000:])


# ---------- exact rationals as Coq literals ----------
def qlit(x):
    """float / Fraction / int -> `q num den` (exact)."""
    f = x if isinstance(x, Fraction) else Fraction(float(x)) if not isinstance(x, int) else Fraction(x)
    n = f.numerator
    return f"(q ({n}) {f.denominator})" if n < 0 else f"(q {n} {f.denominator})"


def natlist(l):
    return "[" + "; ".join(f"{int(v)}%nat" for v in l) + "]"


def zlit(z):
    z = int(z)
    return f"({z})%Z" if z < 0 else f"{z}%Z"


def coq_list(items):
    return "[" + "; ".join(items) + "]"


# ---------- engine E1: case files evaluated by vm_compute ----------
def run_case_files(pid, files, timeout=900):
    """files: list of (name, text).  Each text must end with exactly one `Eval vm_compute in ...`
    returning a `list Z`-like value; returns list of (name, rc, ints, raw)."""
    d = os.path.join(COQ, "Gen", pid)
    shutil.rmtree(d, ignore_errors=True)
    os.makedirs(d, exist_ok=True)
    names = []
    for name, text in files:
        with open(os.path.join(d, name + ".v"), "w") as f:
            f.write(text)
        names.append(name)
    procs = []
    results = {}
    pending = list(names)
    running = []
    while pending or running:
        while pending and len(running) < NPROC:
            n = pending.pop(0)
            p = subprocess.Popen(f"ulimit -s unlimited 2>/dev/null; timeout {timeout} coqc -R . DV Gen/{pid}/{n}.v",
                                 shell=True, cwd=COQ, stdout=subprocess.PIPE, stderr=subprocess.STDOUT, text=True)
            running.append((n, p))
        for n, p in list(running):
            if p.poll() is not None:
                out = p.stdout.read()
                results[n] = (p.returncode, out)
                running.remove((n, p))
        time.sleep(0.02)
    res = []
    for n in names:
        rc, out = results[n]
        ints = None
        m = re.search(r"=\s*(\[.*?\])\s*:\s*list", out, re.S)
        if rc == 0 and m:
            ints = [int(x) for x in re.findall(r"-?\d+", re.sub(r"%[A-Za-z]+", "", m.group(1)))]
        res.append((n, rc, ints, out[-3000:]))
    return res


def clean_gen(pid):
    shutil.rmtree(os.path.join(COQ, "Gen", pid), ignore_errors=True)


# ---------- known findings ----------
def known_findings(pid):
    path = os.path.join(ROOT, "known_findings.jsonl")
    out = []
    if os.path.exists(path):
        for line in open(path):
            line = line.strip()
            if line:
                o = json.loads(line)
                if o.get("property") == pid and o.get("status") == "known":
                    out.append(o)
    return out


# ---------- evidence / violations ----------
class Report:
    def __init__(self, pid, tier, seed):
        self.pid, self.tier, self.seed = pid, tier, seed
        self.t0 = time.time()
        self.violations = []   # (replay_path, found_input)
        self.known = []
        self.cov = dict(evaluations=0, distinct_nontrivial=0, rule="", samples=[], obligations=0,
                        discharged=0, checker_cmd="", trusted_base=[])
        self.assumptions = []
        self._distinct = set()

    def count(self, key_obj, nontrivial=True):
        self.cov["evaluations"] += 1
        if nontrivial:
            self._distinct.add(hashlib.sha1(json.dumps(key_obj, sort_keys=True, default=str).encode()).hexdigest())

    def sample(self, obj, limit=4):
        if len(self.cov["samples"]) < limit:
            self.cov["samples"].append(obj)

    def obligation(self, ok, n=1):
        self.cov["obligations"] += n
        if ok:
            self.cov["discharged"] += n

    def violation(self, replay_obj, found_input=True):
        os.makedirs(os.path.join(ROOT, "replays"), exist_ok=True)
        idx = len(self.violations)
        path = os.path.join(ROOT, "replays", f"{self.pid}_{self.tier}_{self.seed}_{idx}.json")
        replay_obj = dict(replay_obj)
        replay_obj.setdefault("property", self.pid)
        replay_obj["failing_input_found"] = bool(found_input)
        with open(path, "w") as f:
            json.dump(replay_obj, f, indent=1, default=str)
        self.violations.append((path, found_input))

    def known_finding(self, what):
        self.known.append(what)

    def finish(self, level="proof"):
        self.cov["distinct_nontrivial"] = len(self._distinct)
        ev = dict(property_id=self.pid, tier=self.tier, seed=self.seed, level=level, coverage=self.cov,
                  assumptions=self.assumptions, wall_s=round(time.time() - self.t0, 2),
                  violations=len(self.violations), known_findings=self.known)
        os.makedirs(os.path.join(ROOT, "evidence"), exist_ok=True)
        with open(os.path.join(ROOT, "evidence", f"{self.pid}.json"), "w") as f:
            json.dump(ev, f, indent=1, default=str)
        for w in self.known:
            print(f"KNOWN-FINDING: property={self.pid} {w}")
        for path, found in self.violations:
            print(f"VIOLATION property={self.pid} replay={path}" + ("" if found else " no-failing-input-found"))
        sys.stdout.flush()
        return 1 if self.violations else 0


def proof_stage(rep, pid, pre_build=None, search=None):
    """Stage 1 of every check: (optional regeneration) + build + hygiene + property file + axiom audit.
    Returns True if all proof obligations are discharged.  On failure records a violation through
    `search` (a callable returning (replay_obj, found) or None)."""
    pre_err = None
    if pre_build:
        pre_err = pre_build()
    ok_build, log = (False, pre_err) if pre_err else build_coq()
    bad = hygiene()
    pr = check_properties(pid) if ok_build else dict(ok=False, theorems=[], axioms=[], log=log, bad_axioms=[],
                                                     missing_print=[])
    nthm = max(1, len(pr["theorems"]))
    rep.obligation(ok_build and pr["ok"] and not bad, nthm)
    rep.cov["checker_cmd"] = f"make -C coq && coqc -R coq DV coq/Properties/{pid}.v (Print Assumptions audited)"
    rep.cov["theorems"] = pr["theorems"]
    rep.cov["axioms_reported"] = pr["axioms"]
    rep.cov["trusted_base"] = ["Coq 8.16.1 kernel (coqc, full .vo build) and vm_compute (model interpreter in the correspondence)",
                               "axioms per Print Assumptions: " + (", ".join(pr["axioms"]) if pr["axioms"] else "none (closed under the global context)")]
    if ok_build and pr["ok"] and not bad:
        return True
    why = dict(kind="proof-obligation-broken", build_ok=ok_build, hygiene=bad,
               theorem_file=f"coq/Properties/{pid}.v", bad_axioms=pr.get("bad_axioms"),
               missing_print=pr.get("missing_print"), log=(log if not ok_build else pr.get("log", ""))[-3000:])
    found = None
    if search:
        found = search()
    if found:
        why["witness"] = found
        rep.violation(why, True)
    else:
        rep.violation(why, False)
    return False


def rng(seed, salt=""):
    return random.Random(f"{seed}:{salt}")
