"""MANIFEST.setup_cmd: regenerate the translated source, build the whole Coq development (full .vo)."""
import sys, os
from . import common as C
from . import translate_moments as TM

def main():
    try:
        TM.regenerate(C.REPO, os.path.join(C.COQ, "Gen", "MomentsSrc.v"))
    except Exception as ex:  # the C19 check reports this; setup still builds what it can
        print("translator:", ex)
    ok, log = C.build_coq()
    print(log[-3000:])
    bad = C.hygiene()
    if bad:
        print("HYGIENE:", bad)
    sys.exit(0 if ok and not bad else 1)

if __name__ == "__main__":
    main()
