"""C02 — marginal queries (NaN evidence) equal the sum over all completions (see harness/c01.py)."""
from . import c01

def main(tier, seed, replay=None):
    return c01.run("C02", tier, seed, replay, "marg")
