"""C03 — validation accepts exactly the smooth, decomposable, well-labelled circuits.
Proof: Properties/C03.v.  Tie: bounded-exhaustive enumeration of small object graphs (every scope
labelling, weight count, id labelling, cycles) + random valid circuits with single corruptions;
implementation check_spn accept/reject and BFS order vs the model's (engine E1)."""
import itertools, json, os
import numpy as np
from . import common as C
from . import circuits as G

PID = "C03"


class Spec:
    """plain description of an object graph: list of dict(kind,'S'|'P'|'L', scope, kids, id, nw)."""
    def __init__(self, objs):
        self.objs = objs

    def build(self):
        from deeprob.spn.structure.node import Sum, Product
        from deeprob.spn.structure.leaf import Bernoulli
        nodes = []
        for o in self.objs:
            if o["kind"] == "S":
                n = Sum.__new__(Sum)
                nw = o["nw"]
                n.weights = None if nw is None else (np.full(nw, 1.0 / nw, dtype=np.float32) if nw > 0 else np.zeros(0, dtype=np.float32))
            elif o["kind"] == "P":
                n = Product.__new__(Product)
            else:
                n = Bernoulli(0, 0.5)
            n.id = o["id"]; n.scope = list(o["scope"]); n.children = []
            nodes.append(n)
        for n, o in zip(nodes, self.objs):
            n.children = [nodes[k] for k in o["kids"]]
        return nodes

    def coq(self):
        items = []
        for o in self.objs:
            kd = {"P": "HProd", "L": "HLeaf"}.get(o["kind"])
            if o["kind"] == "S":
                kd = "(HSum None)" if o["nw"] is None else f"(HSum (Some {o['nw']}%nat))"
            oid = "None" if o["id"] is None else f"(Some {o['id']}%nat)"
            items.append(f"Build_obj {oid} {kd} {C.natlist(o['scope'])} {C.natlist(o['kids'])}")
        return "[" + "; ".join(items) + "]"

    def key(self):
        return json.dumps(self.objs, sort_keys=True)


def impl_verdict(nodes):
    from deeprob.spn.utils.validity import check_spn
    from deeprob.spn.utils.filter import collect_nodes
    try:
        check_spn(nodes[0], labeled=True, smooth=True, decomposable=True)
        acc = True; err = None
    except Exception as e:  # ValueError (or TypeError for weights=None): any error is a rejection
        acc = False; err = f"{type(e).__name__}: {e}"
    order = [next(i for i, m in enumerate(nodes) if m is n) for n in collect_nodes(nodes[0])]
    return acc, err, order


def bfs_ids(objs):
    """consecutive ids in BFS order from object 0 (unreachable objects get the following ids)."""
    seen = [0]; q = [0]
    while q:
        x = q.pop(0)
        for c in objs[x]["kids"]:
            if c not in seen:
                seen.append(c); q.append(c)
    rest = [i for i in range(len(objs)) if i not in seen]
    for rank, i in enumerate(seen + rest):
        objs[i]["id"] = rank
    return objs


def enumerate_heaps(nvars, tier):
    """root inner node over <= 3 children; children are leaves or one nested inner node with <= 2
    leaf children; every scope labelling over nvars variables; weight counts len-1, len, len+1, None."""
    scopes = [list(s) for r in range(1, nvars + 1) for s in itertools.combinations(range(nvars), r)]
    leaf_scopes = [[v] for v in range(nvars)] + ([list(range(nvars))] if nvars == 2 else [])
    maxk = 3 if nvars == 2 else 2
    out = []
    for rk in "SP":
        for rs in scopes:
            for k in range(0, maxk + 1):
                for kid_scopes in itertools.product(leaf_scopes, repeat=k):
                    nws = [k] if rk == "P" else [k, k + 1, max(k - 1, 0), None]
                    for nw in dict.fromkeys(nws):
                        objs = [dict(kind=rk, scope=rs, kids=list(range(1, k + 1)), id=0, nw=nw)]
                        objs += [dict(kind="L", scope=s, kids=[], id=0, nw=None) for s in kid_scopes]
                        out.append(bfs_ids(objs))
            # one nested inner child (+ up to 1 sibling leaf), nested has <= 2 leaf children
            for nk in "SP":
                for ns in scopes:
                    for k2 in range(0, 3):
                        for kid2 in itertools.product(leaf_scopes, repeat=k2):
                            for sib in [None] + leaf_scopes:
                                objs = [dict(kind=rk, scope=rs, kids=[1] + ([2] if sib else []), id=0,
                                             nw=(1 + (1 if sib else 0)))]
                                objs.append(dict(kind=nk, scope=ns, kids=[], id=0, nw=k2))
                                if sib:
                                    objs.append(dict(kind="L", scope=sib, kids=[], id=0, nw=None))
                                base = len(objs)
                                objs[1]["kids"] = list(range(base, base + k2))
                                objs += [dict(kind="L", scope=s, kids=[], id=0, nw=None) for s in kid2]
                                out.append(bfs_ids(objs))
                                if k2 == 2 and sib and tier == "thorough":
                                    # shared child: the sibling is also a child of the nested node
                                    o2 = json.loads(json.dumps(objs)); o2[1]["kids"] = [base, 2]; o2[1]["nw"] = 2
                                    out.append(bfs_ids(o2[:base + 1]))
    return out


def id_variants(objs, rs):
    """id corruptions of a heap: clash, gap, None, start at 1, permutation (valid)."""
    n = len(objs)
    outs = []
    def with_ids(ids):
        o2 = json.loads(json.dumps(objs))
        for o, i in zip(o2, ids):
            o["id"] = i
        return o2
    ids = [o["id"] for o in objs]
    outs.append(with_ids(list(rs.permutation(n).tolist())))                  # valid relabelling
    if n >= 2:
        outs.append(with_ids([ids[0]] + [ids[0]] + ids[2:]))               # clash
        outs.append(with_ids(ids[:-1] + [n]))                                # gap
    outs.append(with_ids([None] + ids[1:]))                                  # missing
    outs.append(with_ids([i + 1 for i in ids]))                              # not starting at 0
    return outs


def cyclic_variants(objs):
    outs = []
    inner = [i for i, o in enumerate(objs) if o["kind"] != "L"]
    if len(inner) >= 2:
        o2 = json.loads(json.dumps(objs)); o2[inner[1]]["kids"] = o2[inner[1]]["kids"] + [0]
        if o2[inner[1]]["kind"] == "S" and o2[inner[1]]["nw"] is not None:
            o2[inner[1]]["nw"] += 1
        outs.append(o2)
    o3 = json.loads(json.dumps(objs)); o3[0]["kids"] = o3[0]["kids"] + [0]
    if o3[0]["kind"] == "S" and o3[0]["nw"] is not None:
        o3[0]["nw"] += 1
    outs.append(o3)
    return outs


def spec_of_circuit(root):
    objs_ = G.post_order(root)[::-1]  # root first
    pos = {id(o): i for i, o in enumerate(objs_)}
    from deeprob.spn.structure.node import Sum, Product
    out = []
    for o in objs_:
        k = "S" if isinstance(o, Sum) else "P" if isinstance(o, Product) else "L"
        out.append(dict(kind=k, scope=[int(v) for v in o.scope], kids=[pos[id(c)] for c in o.children],
                        id=int(o.id), nw=(len(o.weights) if k == "S" else None)))
    return out


def corruptions(objs, rs):
    """every single structural corruption of a valid circuit (DESIGN §5 C03)."""
    outs = []
    inner = [i for i, o in enumerate(objs) if o["kind"] != "L"]
    prods = [i for i in inner if objs[i]["kind"] == "P" and len(objs[i]["kids"]) >= 2]
    sums = [i for i in inner if objs[i]["kind"] == "S"]
    cp = lambda: json.loads(json.dumps(objs))
    for i in prods[:2]:
        a, b = objs[i]["kids"][0], objs[i]["kids"][1]
        o = cp(); extra = [v for v in o[b]["scope"] if v not in o[a]["scope"]][:1]
        o[a]["scope"] = o[a]["scope"] + extra; outs.append(("overlap-full-union", o))     # overlap, same union
        o = cp(); o[i]["scope"] = o[i]["scope"] + [max(o[i]["scope"]) + 7]; outs.append(("gap", o))
        o = cp(); o[i]["kids"] = []; outs.append(("childless-product", o))
    for i in sums[:2]:
        o = cp(); o[i]["nw"] += 1; outs.append(("extra-weight", o))
        o = cp(); o[i]["nw"] = max(o[i]["nw"] - 1, 0); outs.append(("missing-weight", o))
        o = cp(); o[i]["scope"] = o[i]["scope"] + [max(o[i]["scope"]) + 5]; outs.append(("sum-scope-mismatch", o))
        o = cp(); o[i]["kids"] = []; o[i]["nw"] = 0; outs.append(("childless-sum", o))
    for v in id_variants(objs, rs):
        outs.append(("ids", v))
    for v in cyclic_variants(objs):
        outs.append(("cycle", v))
    return outs


def entry_points_raise(nodes):
    """on a rejected circuit every entry point must raise; returns names that did NOT raise."""
    from deeprob.spn.algorithms.inference import log_likelihood, mpe, likelihood
    from deeprob.spn.algorithms.structure import prune, marginalize
    from deeprob.spn.algorithms.moments import moment
    from deeprob.spn.algorithms.sampling import sample
    from deeprob.spn.learning.em import expectation_maximization
    root = nodes[0]
    width = max([max(n.scope) for n in nodes if n.scope] + [0]) + 1
    x = np.zeros((2, width), dtype=np.float32); xn = np.full((2, width), np.nan, dtype=np.float32)
    calls = dict(
        log_likelihood=lambda: log_likelihood(root, x), likelihood=lambda: likelihood(root, x),
        mpe=lambda: mpe(root, xn), sample=lambda: sample(root, xn),
        prune=lambda: prune(root, copy=True), marginalize=lambda: marginalize(root, [root.scope[0]], copy=True),
        moment=lambda: moment(root, 1),
        em=lambda: expectation_maximization(root, x, num_iter=1, batch_perc=0.5, step_size=0.5, random_init=False,
                                            random_state=0, verbose=False),
        em_random_init=lambda: expectation_maximization(root, x, num_iter=1, batch_perc=0.5, step_size=0.5, random_init=True,
                                                        random_state=0, verbose=False),
        # the same entry points under their other options (a gate must not depend on an option)
        log_likelihood_parallel=lambda: log_likelihood(root, x, n_jobs=2),
        log_likelihood_results=lambda: log_likelihood(root, x, return_results=True),
        mpe_parallel=lambda: mpe(root, xn, n_jobs=2), sample_parallel=lambda: sample(root, xn, n_jobs=2),
        mpe_inplace=lambda: mpe(root, xn.copy(), inplace=True), sample_inplace=lambda: sample(root, xn.copy(), inplace=True),
        moment_order2=lambda: moment(root, 2),
        # in-place variants last: if they are (wrongly) accepted they may rewrite the circuit
        marginalize_nocopy=lambda: marginalize(root, [root.scope[0]], copy=False),
        prune_nocopy=lambda: prune(root, copy=False))
    def raw_fp():
        out = []
        for n in nodes:
            w = getattr(n, "weights", None)
            out.append((type(n).__name__, tuple(int(v) for v in n.scope), None if w is None else tuple(float(t) for t in np.asarray(w).ravel()),
                        repr(sorted((k, repr(v)) for k, v in vars(n).items() if k in ("p", "probabilities", "mean", "stddev"))),
                        tuple(id(c) for c in getattr(n, "children", []))))
        return out
    bad = []
    for name, f in calls.items():
        before = raw_fp()
        try:
            f(); bad.append(name)
        except Exception:
            # "rejected before the algorithm touches it": a rejected circuit is exactly what it was
            if raw_fp() != before:
                bad.append(name + " (raised, but only after modifying the circuit)")
    return bad


def mass_witness(nodes):
    """for an accepted circuit: enumerate binary assignments and test sum = 1 (implementation only)."""
    from deeprob.spn.algorithms.inference import likelihood
    root = nodes[0]
    sc = sorted(set(root.scope))
    if len(sc) > 10:
        return None
    width = max(sc) + 1
    X = np.zeros((2 ** len(sc), width), dtype=np.float32)
    for r, vals in enumerate(itertools.product([0, 1], repeat=len(sc))):
        X[r, sc] = vals
    try:
        tot = float(likelihood(root, X).sum())
    except Exception as e:
        return dict(what="accepted circuit cannot be evaluated", error=f"{type(e).__name__}: {e}")
    if abs(tot - 1) > 1e-4:
        return dict(what="accepted circuit is not normalised", total_mass=tot)
    return None


# ------------------------------------------------------------------ histories of context blocks (deeprob/context.py)
class Boom(Exception):
    pass


def gen_program(rs, depth=0, budget=None):
    """random well-bracketed history: items are 'Q' or dict(kw, deco, raises, body)."""
    budget = budget if budget is not None else [int(rs.randint(3, 12))]
    items = []
    while budget[0] > 0 and rs.rand() < (0.85 if depth == 0 else 0.6):
        budget[0] -= 1
        if rs.rand() < 0.35 or depth >= 4:
            items.append("Q")
        else:
            kw = {}
            for name in ("check_dtype", "check_spn"):
                if rs.rand() < 0.6:
                    kw[name] = bool(rs.rand() < 0.4)
            items.append(dict(kw=kw, deco=bool(rs.rand() < 0.3), raises=bool(rs.rand() < 0.45),
                              body=gen_program(rs, depth + 1, budget)))
    if depth == 0:
        items.append("Q")
    return items


def program_tokens(items):
    out = []
    for it in items:
        if it == "Q":
            out.append("OQuery")
        else:
            k = lambda n: "None" if n not in it["kw"] else f"(Some {'true' if it['kw'][n] else 'false'})"
            out.append(f"({'ODeco' if it['deco'] else 'OWith'} (Build_kwargs {k('check_dtype')} {k('check_spn')}))")
            out += program_tokens(it["body"])
            out.append(f"(OExit {'true' if it['raises'] else 'false'})")
    return out


def run_program(items, probe=None):
    """execute the history with the real ContextState in a fresh contextvars context; returns the flag codes seen by
    the queries and what `probe` (a call on an invalid circuit) did after the history."""
    import contextvars
    from deeprob.context import ContextState, is_check_dtype_enabled, is_check_spn_enabled
    out = []

    def prepare(items):          # decorated functions are created when the program starts
        for it in items:
            if it != "Q":
                if it["deco"]:
                    @ContextState(**it["kw"])
                    def call(g):
                        g()
                    it["_f"] = call
                prepare(it["body"])

    def exec_items(items, parent):
        for i, it in enumerate(items):
            if it == "Q":
                out.append((2 if is_check_dtype_enabled() else 0) + (1 if is_check_spn_enabled() else 0))
                continue
            last_raiser = bool(it["body"]) and it["body"][-1] != "Q" and it["body"][-1]["raises"]
            def body(it=it, last_raiser=last_raiser):
                exec_items(it["body"], it)
                if it["raises"] and not last_raiser:
                    raise Boom()
            propagate = parent is not None and parent["raises"] and i == len(items) - 1
            try:
                if it["deco"]:
                    it["_f"](body)
                else:
                    with ContextState(**it["kw"]):
                        body()
            except Boom:
                if propagate:
                    raise
    res = {}

    def go():
        prepare(items)
        exec_items(items, None)
        if probe is not None:
            res["probe"] = probe()
    contextvars.Context().run(go)
    return out, res.get("probe")


def invalid_probe():
    """a product whose children overlap (scopes {0},{0},{2} labelled {0,1,2}): must be rejected."""
    from deeprob.spn.structure.leaf import Bernoulli
    from deeprob.spn.structure.node import Product, assign_ids
    from deeprob.spn.algorithms.inference import log_likelihood
    p = Product(children=[Bernoulli(0, p=0.3), Bernoulli(1, p=0.6), Bernoulli(2, p=0.5)])
    p.children[1].scope = [0]          # corrupted after construction (the constructor itself rejects overlaps)
    assign_ids(p)
    try:
        log_likelihood(p, np.zeros((1, 3), dtype=np.float32))
        return "accepted"
    except ValueError:
        return "rejected"
    except Exception as e:
        return f"{type(e).__name__}"


def api_histories():
    """failures INSIDE the library's own no-check blocks, then an invalid circuit: [(history, outcome)]."""
    import contextvars
    from deeprob.spn.structure.leaf import Bernoulli
    from deeprob.spn.structure.node import Sum, Product, assign_ids
    from deeprob.spn.algorithms.inference import mpe
    from deeprob.spn.algorithms.sampling import sample
    from deeprob.context import ContextState, is_check_spn_enabled
    good = Sum(children=[Product(children=[Bernoulli(0, p=0.2), Bernoulli(1, p=0.7)]),
                         Product(children=[Bernoulli(0, p=0.9), Bernoulli(1, p=0.4)])], weights=[0.5, 0.5])
    assign_ids(good)
    ro = np.full((2, 2), np.nan, dtype=np.float32); ro.setflags(write=False)

    def h_mpe():
        mpe(good, ro, inplace=True)

    def h_sample():
        sample(good, ro, inplace=True)

    def h_user():
        with ContextState(check_spn=False):
            raise Boom()

    def h_nested():
        with ContextState(check_dtype=False):
            mpe(good, ro, inplace=True)
    out = []
    for name, h in (("mpe(inplace=True) on a read-only array", h_mpe), ("sample(inplace=True) on a read-only array", h_sample),
                    ("user block left by an exception", h_user), ("library failure inside a user block", h_nested)):
        def go(h=h):
            try:
                h(); raised = False
            except Exception:
                raised = True
            return raised, is_check_spn_enabled(), invalid_probe()
        out.append((name,) + contextvars.Context().run(go))
    return out


def gate_stage(rep, rs, tier):
    nprog = 150 if tier == "quick" else 6000
    progs = [gen_program(rs) for _ in range(nprog)]
    runs = [run_program(p, probe=invalid_probe) for p in progs]
    hdr = ["From Coq Require Import List.", "From DV Require Import Model.Gate.", "Import ListNotations."]
    files = []; CH = 300          # big list literals are slow to parse: shard
    for s0 in range(0, len(progs), CH):
        files.append((f"gate_{s0 // CH}", "\n".join(hdr + [
            "Eval vm_compute in (concat (map (fun l => 9 :: run_gate l) [" +
            ";\n ".join("[" + "; ".join(program_tokens(p)) + "]" for p in progs[s0:s0 + CH]) + "]))."])))
    groups = []
    for (name, rc, ints, raw) in C.run_case_files(PID, files):
        if rc != 0 or ints is None:
            rep.obligation(False); rep.violation(dict(kind="correspondence-shard-failed", shard=name, log=raw), False); return
        rep.obligation(True)
        for z in ints:
            if z == 9:
                groups.append([])
            else:
                groups[-1].append(z)
    nq = 0; bad = 0
    for p, (seen, probe), want in zip(progs, runs, groups):
        nq += len(want)
        rep.count(dict(gate_history=program_tokens(p)), nontrivial=len(p) > 1)
        if seen != want or probe != "rejected":
            bad += 1
            if bad <= 3:
                rep.violation(dict(kind="context-flags-differ-from-the-model-after-a-history", history=program_tokens(p),
                                   flags_seen_by_queries=seen, model=want,
                                   invalid_circuit_after_history=probe,
                                   note="flag code = 2*check_dtype + check_spn; the probe is log_likelihood on a product with overlapping children"),
                              found_input=True)
    rep.cov["gate_histories"] = dict(programs=nprog, queries=nq, raising_blocks=sum(t.count("(OExit true)") for t in map(program_tokens, progs)))
    for name, raised, enabled, probe in api_histories():
        if not raised or not enabled or probe != "rejected":
            rep.violation(dict(kind="gate-not-restored-after-a-failed-library-call", history=name, call_raised=raised,
                               check_spn_enabled_afterwards=enabled, invalid_circuit_afterwards=probe), found_input=True)
    rep.cov["gate_api_histories"] = 4


def main(tier, seed, replay=None):
    rep = C.Report(PID, tier, seed)
    rs = np.random.RandomState(seed % (2 ** 31))
    C.proof_stage(rep, PID)
    rep.cov["trusted_base"] += ["harness/c03.py: construction of (possibly invalid) deeprob object graphs by attribute assignment and their mapping to Model/Heap.v literals",
                                "BFS completeness is proved for the model (C03_bfs_complete); the implementation's traversal orders are tied to the model's on every enumerated graph"]
    specs = []
    tags = {}
    def add(tag, objs):
        specs.append((tag, Spec(objs))); tags[tag] = tags.get(tag, 0) + 1
    base2 = enumerate_heaps(2, tier)
    for o in base2:
        add("enum2", o)
    sub = base2 if tier == "thorough" else [base2[i] for i in rs.choice(len(base2), size=400, replace=False)]
    for o in sub:
        for v in id_variants(o, rs):
            add("ids", v)
    for o in [base2[i] for i in rs.choice(len(base2), size=200 if tier == "quick" else 1500, replace=False)]:
        for v in cyclic_variants(o):
            add("cycle", v)
    base3 = enumerate_heaps(3, tier)
    if tier == "quick":
        base3 = [base3[i] for i in rs.choice(len(base3), size=3000, replace=False)]
    for o in base3:
        add("enum3", o)
    from deeprob.spn.structure.node import assign_ids
    for i in range(40 if tier == "quick" else 1000):
        root = G.rand_circuit(rs, G.rand_scope(rs, int(rs.randint(2, 6))), kinds=("bern",), clt=0.0, share=0.3)
        assign_ids(root)
        objs = spec_of_circuit(root)
        add("valid-random", objs)
        for tag, o in corruptions(objs, rs):
            add("corrupt:" + tag, o)
    rep.cov["input_distribution"] = tags
    # run the implementation
    results = []
    for tag, sp in specs:
        nodes = sp.build()
        acc, err, order = impl_verdict(nodes)
        results.append((acc, err, order))
    n_acc = sum(1 for r in results if r[0])
    rep.cov["impl_accepted"] = n_acc; rep.cov["impl_rejected"] = len(results) - n_acc
    rep.cov["exhaustive"] = (tier == "thorough")
    shard = 500
    files = []
    for s in range(0, len(specs), shard):
        body = ["From Coq Require Import List ZArith.", "From DV Require Import Model.Heap.",
                "Import ListNotations."]
        items = []
        for (tag, sp), (acc, err, order) in zip(specs[s:s + shard], results[s:s + shard]):
            items.append(f"({sp.coq()}, ({'true' if acc else 'false'}, {C.natlist(order)}))")
        body.append("Eval vm_compute in (map run_hcase [" + ";\n".join(items) + "]).")
        files.append((f"cases_{s // shard}", "\n".join(body)))
    res = C.run_case_files(PID, files)
    flagged = []
    verdicts = {0: 0, 1: 0, 2: 0, 3: 0}
    for (name, rc, ints, raw), s in zip(res, range(0, len(specs), shard)):
        if rc != 0 or ints is None or len(ints) != len(specs[s:s + shard]):
            rep.obligation(False)
            rep.violation(dict(kind="correspondence-shard-failed", shard=name, log=raw), False)
            continue
        rep.obligation(True)
        for (tag, sp), r, code in zip(specs[s:s + shard], results[s:s + shard], ints):
            rep.count(sp.objs, nontrivial=len(sp.objs) > 1)
            verdicts[code // 16] += 1
            if code % 16:
                flagged.append((tag, sp, r, code))
    rep.cov["model_verdicts"] = dict(accept=verdicts[0], rej_labeled=verdicts[1], rej_smooth=verdicts[2], rej_decomp=verdicts[3])
    # entry points on rejected circuits (sample) — correspondence-only clause
    rej = [(tag, sp) for (tag, sp), r in zip(specs, results) if not r[0]]
    pick = rs.choice(len(rej), size=min(len(rej), 60 if tier == "quick" else 400), replace=False)
    n_ep = 0
    for i in pick:
        tag, sp = rej[i]
        bad = entry_points_raise(sp.build())
        n_ep += 1
        if bad:
            rep.violation(dict(kind="entry-point-did-not-raise-on-rejected-circuit", entry_points=bad, heap=sp.objs, tag=tag), True)
            break
    rep.cov["entry_point_checks"] = n_ep
    # the probes themselves: on a VALID circuit every one of them must run (otherwise "it raised" proves nothing)
    from deeprob.spn.structure.leaf import Bernoulli as _B
    from deeprob.spn.structure.node import Sum as _S, Product as _P, assign_ids as _aid
    vroot = _S(children=[_P(children=[_B(0, 0.3), _B(1, 0.6)]), _P(children=[_B(0, 0.8), _B(1, 0.1)])], weights=[0.25, 0.75]); _aid(vroot)
    vnodes = [vroot] + [c for c in vroot.children] + [l for c in vroot.children for l in c.children]
    ran = entry_points_raise(vnodes)
    import inspect as _insp
    n_probes = _insp.getsource(entry_points_raise).count("=lambda:")
    if len(ran) != n_probes:
        rep.violation(dict(kind="entry-point-probe-does-not-run-on-a-valid-circuit", ran=ran, expected_number=n_probes), False)
    rep.cov["entry_point_probes"] = n_probes
    gate_stage(rep, rs, tier)
    for tag, sp in specs[:1] + specs[len(specs) // 2:len(specs) // 2 + 1] + specs[-1:]:
        rep.sample(dict(tag=tag, heap=sp.objs))
    for tag, sp, r, code in flagged[:5]:
        info = dict(kind="model-implementation-disagreement", tag=tag, heap=sp.objs, impl_accepts=r[0], impl_error=r[1],
                    impl_bfs=r[2], model_verdict={0: "Accept", 1: "RejLabeled", 2: "RejSmooth", 3: "RejDecomp"}[code // 16],
                    flags=code % 16, note="flags: 1 accept/reject differs, 2 BFS order differs")
        w = mass_witness(sp.build()) if r[0] else None
        info["witness"] = w
        rep.violation(info, found_input=bool(w) or bool(code % 16 & 2) or not r[0])
    if replay:
        print(open(replay).read()[:3000])
    rep.cov["rule"] = ("bounded-exhaustive object graphs: root Sum/Product with <=3 children (2 vars, scopes {0},{1},{0,1}) or <=2 (3 vars, 7 scopes), "
                       "one nested inner node with <=2 leaf children and an optional sibling, every scope labelling, weight counts len-1/len/len+1/None; "
                       "id corruptions (clash, gap, None, offset, permutation), cycles; random valid circuits with every single corruption; "
                       "quick tier samples the 3-variable space (3000) — thorough is exhaustive; one evaluation = one object graph "
                       "(accept/reject and BFS order compared inside Coq); non-trivial = more than one object; distinct by graph hash")
    C.clean_gen(PID)
    return rep.finish("proof")
