"""C15 — normalizing flows are bijections with exact log-determinants.
Proof: Properties/C15.v (masks/orderings/index maps for all sizes; coupling / channel coupling /
autoregressive / BatchNorm / logit inverse and log-det antisymmetry with arbitrary conditioners;
derivative theorems over R; composition and multi-scale wiring).
Tie (engine E1, exact rationals, float64 run of the implementation): mask / ordering / permutation
buffers and squeeze index maps extracted from the modules vs Model/Flow.v; MaskedLinear.forward;
every leaf bijector's apply_backward / apply_forward outputs and log-determinants reproduced by the
Gallina formulas from the implementation's own conditioner answers; data movement between the stages of
RealNVP2d; totals and log-probability.
Direct oracle (run on every model, not only on failure): autograd Jacobian slogdet vs reported
log-determinant (both directions), round trips, no-grad vs autograd forward path."""
import os, json, math, itertools
import numpy as np
from . import common as C

PID = "C15"
MY_FILES = ["Model/Flow.v", "Model/FlowRun.v", "Proofs/FlowFacts.v", "Proofs/FlowReal.v"]


# ------------------------------------------------------------------ build of the C15 Coq files
def pre_build():
    """The C15 files are compiled here when the integrator has not (yet) listed them in _CoqProject."""
    proj = open(os.path.join(C.COQ, "_CoqProject")).read()
    ok, log = C.build_coq()
    if not ok:
        return None  # proof_stage reports the build failure itself
    with C.Lock(os.path.join(C.COQ, ".build_c15.lock")):
        newest = os.path.getmtime(os.path.join(C.COQ, "Model", "QcInst.vo"))
        for f in MY_FILES:
            v = os.path.join(C.COQ, f); vo = v + "o"
            if f in proj:
                if os.path.exists(vo):
                    newest = max(newest, os.path.getmtime(vo))
                continue
            if not os.path.exists(vo) or os.path.getmtime(vo) < os.path.getmtime(v) or os.path.getmtime(vo) < newest:
                rc, out = C.sh(f"timeout 900 coqc -R . DV -w -notation-overridden,-ambiguous-paths {f}", cwd=C.COQ, timeout=950)
                if rc != 0:
                    return f"C15 file {f} does not compile:\n{out[-2500:]}"
            newest = max(newest, os.path.getmtime(vo))
    return None


# ------------------------------------------------------------------ literals
def ql(a):
    return C.coq_list([C.qlit(float(v)) for v in np.asarray(a, dtype=np.float64).reshape(-1)])


def bl(a):
    return C.coq_list(["true" if v else "false" for v in np.asarray(a).reshape(-1)])


def bmat(a):
    return C.coq_list([bl(r) for r in np.asarray(a)])


def cb(b):
    return "true" if b else "false"


def table(keys, fn):
    ks = sorted(set(float(k) for k in keys))
    return C.coq_list([f"({C.qlit(k)}, {C.qlit(float(fn(k)))})" for k in ks])


def exact01(t):
    a = t.detach().cpu().numpy()
    return bool(np.all((a == 0.0) | (a == 1.0)))


# ------------------------------------------------------------------ instrumentation
class Rec:
    def __init__(self):
        self.calls = []; self.stack = []; self.on = True


def leaf_classes():
    from deeprob.flows.layers.autoregressive import AutoregressiveLayer
    from deeprob.flows.layers.coupling import CouplingLayer1d, CouplingLayer2d
    from deeprob.flows.utils import BatchNormLayer1d, BatchNormLayer2d, LogitLayer
    return (AutoregressiveLayer, CouplingLayer1d, CouplingLayer2d, BatchNormLayer1d, BatchNormLayer2d, LogitLayer)


def instrument(model, rec):
    leaves = [m for m in model.modules() if isinstance(m, leaf_classes())]
    for idx, m in enumerate(leaves):
        m._c15_id = idx
        for d in ("apply_backward", "apply_forward"):
            orig = getattr(m, d)

            def wrapped(x, _orig=orig, _m=m, _d=d):
                if not rec.on:
                    return _orig(x)
                cur = dict(leaf=_m._c15_id, dir=_d, x=x.detach().clone(), net=[], sact=[])
                rec.stack.append(cur)
                try:
                    out, ldj = _orig(x)
                finally:
                    rec.stack.pop()
                cur["out"] = out.detach().clone()
                cur["ldj"] = ldj.detach().clone() if hasattr(ldj, "detach") else ldj
                rec.calls.append(cur)
                return out, ldj
            m.__dict__[d] = wrapped
        if hasattr(m, "network"):
            m.network.register_forward_hook(
                lambda mod, inp, out: rec.stack[-1]["net"].append((inp[0].detach().clone(), out.detach().clone()))
                if (rec.on and rec.stack) else None)
        if hasattr(m, "scale_act"):
            m.scale_act.register_forward_hook(
                lambda mod, inp, out: rec.stack[-1]["sact"].append(out.detach().clone())
                if (rec.on and rec.stack) else None)
    return leaves


def randomize(model, rs):
    """random non-degenerate 'trained' parameter values and running statistics (float64)."""
    import torch
    model.double()
    for name, p in model.named_parameters():
        if not p.requires_grad:
            continue  # base distribution location/scale, permutation matrices
        a = rs.uniform(-0.8, 0.8, size=tuple(p.shape))
        if name.endswith("scale_act.weight"):
            a = rs.uniform(0.3, 1.0, size=tuple(p.shape)) * rs.choice([-1.0, 1.0], size=tuple(p.shape))
        if name.endswith("weight_g"):
            a = rs.uniform(0.5, 1.5, size=tuple(p.shape))
        p.data = torch.tensor(a, dtype=torch.float64).reshape(p.shape)
    for name, b in model.named_buffers():
        if name.endswith("running_var"):
            b.data = torch.tensor(rs.uniform(0.3, 2.0, size=tuple(b.shape)), dtype=torch.float64)
        if name.endswith("running_mean"):
            b.data = torch.tensor(rs.uniform(-1.0, 1.0, size=tuple(b.shape)), dtype=torch.float64)
    model.eval()


# ------------------------------------------------------------------ configurations
ACTS = ["relu", "leaky-relu", "softplus", "tanh", "sigmoid"]


def configs(rs, tier):
    n = dict(maf=14, nvp1=12, nvp2=8) if tier == "quick" else dict(maf=80, nvp1=60, nvp2=36)
    out = []
    for i in range(n["maf"]):
        out.append(dict(kind="maf", D=int(rs.randint(2, 7)), n_flows=int(rs.randint(1, 4)), depth=int(rs.randint(1, 4)),
                        units=int(rs.randint(2, 9)), activation=ACTS[i % 5], batch_norm=bool(i % 2 == 0),
                        sequential=bool(i % 3 != 2), rseed=int(rs.randint(0, 10 ** 6)),
                        logit=(None, 0.05, 0.2)[i % 3] if i % 4 != 1 else None))
    for i in range(n["nvp1"]):
        out.append(dict(kind="nvp1", D=int(rs.randint(2, 8)), n_flows=int(rs.randint(1, 4)), depth=int(rs.randint(1, 3)),
                        units=int(rs.randint(2, 9)), batch_norm=bool(i % 2 == 1), affine=bool(i % 3 != 0),
                        logit=(None, 0.1)[i % 2] if i % 5 else 0.01))
    shapes = [(1, 4, 4), (2, 4, 4), (1, 2, 4), (3, 2, 2), (1, 4, 8), (2, 2, 2)]
    for i in range(n["nvp2"]):
        nf = 1 + (i % 3 == 2)
        shp = shapes[i % len(shapes)] if nf == 1 else [(1, 8, 8), (1, 4, 8), (2, 4, 4)][(i // 3) % 3]
        out.append(dict(kind="nvp2", shape=shp, n_flows=nf, network=("resnet", "densenet")[i % 2],
                        n_blocks=int(rs.randint(1, 3)), channels=int(rs.randint(2, 5)), affine=bool(i % 4 != 3),
                        logit=(None, 0.05)[(i // 2) % 2]))
    return out


def build(cfg):
    from deeprob.flows.models.maf import MAF
    from deeprob.flows.models.realnvp import RealNVP1d, RealNVP2d
    if cfg["kind"] == "maf":
        return MAF(cfg["D"], logit=cfg["logit"], n_flows=cfg["n_flows"], depth=cfg["depth"], units=cfg["units"],
                   batch_norm=cfg["batch_norm"], activation=cfg["activation"], sequential=cfg["sequential"],
                   random_state=np.random.RandomState(cfg["rseed"]))
    if cfg["kind"] == "nvp1":
        return RealNVP1d(cfg["D"], logit=cfg["logit"], n_flows=cfg["n_flows"], depth=cfg["depth"], units=cfg["units"],
                         batch_norm=cfg["batch_norm"], affine=cfg["affine"])
    return RealNVP2d(tuple(cfg["shape"]), logit=cfg["logit"], network=cfg["network"], n_flows=cfg["n_flows"],
                     n_blocks=cfg["n_blocks"], channels=cfg["channels"], affine=cfg["affine"])


def in_shape(cfg):
    return (cfg["D"],) if cfg["kind"] != "nvp2" else tuple(cfg["shape"])


# ------------------------------------------------------------------ direct oracle (implementation only)
def oracle(model, cfg, x, u):
    """x: data batch, u: latent batch.  Returns a dict describing the first failure, or None."""
    import torch
    from torch.autograd.functional import jacobian
    shp = in_shape(cfg); n = int(np.prod(shp))
    tol = 1e-7

    def bwd(xx):
        px, a = model.preprocess(xx)
        uu, b = model.apply_backward(px)
        return uu, torch.as_tensor(a + b, dtype=torch.float64).expand(len(xx))

    def fwd(uu):
        xx, a = model.apply_forward(uu)
        xs, b = model.unpreprocess(xx)
        return xs, torch.as_tensor(a + b, dtype=torch.float64).expand(len(uu))
    with torch.no_grad():
        uu, il = bwd(x); xr, l = fwd(uu)
        xs, l2 = fwd(u); ur, il2 = bwd(xs)
        lp = model(x)
    err = float((xr - x).abs().max())
    if not err <= tol * 50:
        return dict(what="forward(backward(x)) != x", max_abs_err=err, x=x[0].reshape(-1).tolist())
    if not float((l + il).abs().max()) <= tol * 50:
        return dict(what="ldj(forward) != -ildj(backward) along the round trip", ildj=il.tolist(), ldj=l.tolist(),
                    x=x[0].reshape(-1).tolist())
    err = float((ur - u).abs().max())
    if not err <= tol * 50:
        return dict(what="backward(forward(u)) != u", max_abs_err=err, u=u[0].reshape(-1).tolist())
    if not float((l2 + il2).abs().max()) <= tol * 50:
        return dict(what="ildj(backward) != -ldj(forward) along the round trip", u=u[0].reshape(-1).tolist())
    # no-grad path vs autograd path of apply_forward (two implementations in AutoregressiveLayer)
    xg, lg = fwd(u)
    if not (float((xg.detach() - xs).abs().max()) <= tol and float((lg.detach() - l2).abs().max()) <= tol):
        return dict(what="apply_forward differs between torch.no_grad() and autograd mode", u=u[0].reshape(-1).tolist())
    prior = (-0.5 * uu.reshape(len(x), -1) ** 2 - 0.5 * math.log(2 * math.pi)).sum(1)
    if not float((lp - (prior + il)).abs().max()) <= tol:
        return dict(what="log_prob != base log-density + ildj", x=x[0].reshape(-1).tolist())
    for r in range(min(2, len(x))):
        J = jacobian(lambda v: bwd(v.reshape((1,) + shp))[0].reshape(-1), x[r].reshape(-1).clone())
        sign, lad = torch.linalg.slogdet(J.reshape(n, n))
        if not abs(float(lad) - float(il[r])) <= 1e-6 * (1 + abs(float(lad))):
            return dict(what="reported inverse log-det-Jacobian differs from log|det J| of the backward map (autograd)",
                        reported=float(il[r]), autograd=float(lad), x=x[r].reshape(-1).tolist())
        J = jacobian(lambda v: fwd(v.reshape((1,) + shp))[0].reshape(-1), u[r].reshape(-1).clone())
        sign, lad = torch.linalg.slogdet(J.reshape(n, n))
        if not abs(float(lad) - float(l2[r])) <= 1e-6 * (1 + abs(float(lad))):
            return dict(what="reported log-det-Jacobian differs from log|det J| of the forward map (autograd)",
                        reported=float(l2[r]), autograd=float(lad), u=u[r].reshape(-1).tolist())
    return None


# ------------------------------------------------------------------ case construction
class Cases:
    def __init__(self):
        self.items = []   # (coq expression : Z, descriptor)

    def add(self, expr, **desc):
        self.items.append((expr, desc))


def np_(t):
    return t.detach().cpu().numpy().astype(np.float64)


def ldj_row(v, r):
    if hasattr(v, "detach"):
        a = np_(v).reshape(-1)
        return float(a[r] if a.size > 1 else a[0])
    return float(v)


def leaf_cases(cs, model, cfg, ci, leaves, bw, fw, B):
    """bw / fw: dict leaf id -> call record of the backward / forward pass."""
    import torch
    from deeprob.flows.layers.autoregressive import AutoregressiveLayer
    from deeprob.flows.layers.coupling import CouplingLayer1d, CouplingLayer2d
    from deeprob.flows.utils import BatchNormLayer1d, BatchNormLayer2d, LogitLayer
    from deeprob.torch.utils import MaskedLinear
    ar_count = 0
    for m in leaves:
        lid = m._c15_id; b = bw[lid]; f = fw[lid]
        base = dict(cfg=ci, leaf=lid, cls=type(m).__name__)
        if isinstance(m, AutoregressiveLayer):
            D = cfg["D"]
            mls = [l for l in m.network if isinstance(l, MaskedLinear)]
            ok01 = all(exact01(l.mask) for l in mls)
            masks = C.coq_list([bmat(np_(l.mask) != 0) for l in mls])
            ordl = C.natlist(m.ordering); invl = C.natlist(m.inv_ordering)
            reverse = (ar_count % 2 == 1); ar_count += 1
            if not ok01:
                cs.add("99%Z", what="mask buffer entries are not exactly 0/1", **base)
            if cfg["sequential"]:
                cs.add(f"run_masks_seq {D} {cfg['depth']} {cfg['units']} {cb(reverse)} {masks} {ordl} {invl}",
                       what="masks-seq", flags="1 masks != build_masks(degrees_seq) 2 ordering 4 inv_ordering 8 connectivity not autoregressive 16 ordering not a permutation", **base)
            else:
                cs.add(f"run_masks_cert {D} {masks} {ordl} {invl}", what="masks-cert",
                       flags="4 inv_ordering 8 connectivity not autoregressive 16 ordering not a permutation 32 last mask rows", **base)
            l0 = mls[0]
            with torch.no_grad():
                o0 = l0(b["x"][:1])
            wl = C.coq_list([ql(r) for r in np_(l0.weight)])
            cs.add(f"run_mlin {D} {bmat(np_(l0.mask) != 0)} {wl} {ql(np_(l0.bias))} {ql(np_(b['x'][0]))} {ql(np_(o0[0]))}",
                   what="masked-linear", flags="1 MaskedLinear.forward != b + (mask*W) x", **base)
            for r in range(B):
                z = np_(b["net"][0][1][r]); s = np_(b["sact"][0][r]); t = z[:D]
                ans = [(np_(zz[1][r])[:D], np_(ss[r])) for zz, ss in zip(f["net"], f["sact"])]
                keys = [0.0] + list(s) + list(-s) + [v for a in ans for v in list(a[1]) + list(-a[1])]
                e = table(keys, math.exp)
                al = C.coq_list([f"({ql(a[0])}, {ql(a[1])})" for a in ans])
                cs.add(f"run_ar {e} {D} {ql(np_(b['x'][r]))} {ql(t)} {ql(s)} {ql(np_(b['out'][r]))} {C.qlit(ldj_row(b['ldj'], r))} "
                       f"{invl} {ql(np_(f['x'][r]))} {al} {ql(np_(f['out'][r]))} {C.qlit(ldj_row(f['ldj'], r))}",
                       what="autoregressive", row=r, flags="1 u 2 ildj 4 x(forward loop) 8 ldj 16 number of conditioner calls != D", **base)
        elif isinstance(m, (CouplingLayer1d, CouplingLayer2d)) and not getattr(m, "channelwise", False):
            affine = bool(m.affine); rev = bool(m.reverse)
            if isinstance(m, CouplingLayer1d):
                n = cfg["D"]; mk = np_(m.mask) != 0; imk = np_(m.inv_mask) != 0
                cs.add(f"run_alt_mask {n} {cb(rev)} {bl(mk)} {bl(imk)}", what="alternating-mask", flags="1 mask 2 inv_mask", **base)
                half = n
            else:
                Cc, H, W = m.in_features; n = Cc * H * W
                cs.add(f"run_checker_mask {H} {W} {cb(rev)} {bl(np_(m.mask) != 0)} {bl(np_(m.inv_mask) != 0)}",
                       what="checkerboard-mask", flags="1 mask 2 inv_mask", **base)
                mk = np.broadcast_to(np_(m.mask) != 0, (Cc, H, W)); imk = np.broadcast_to(np_(m.inv_mask) != 0, (Cc, H, W))
                half = Cc
            if not (exact01(m.mask) and exact01(m.inv_mask)):
                cs.add("99%Z", what="mask buffer entries are not exactly 0/1", **base)
            for r in range(B):
                def ts(c):
                    z = np_(c["net"][0][1][r])
                    if affine:
                        return z[:half].reshape(-1), np_(c["sact"][0][r]).reshape(-1)
                    return z.reshape(-1), np.zeros(0)
                t, s = ts(b); ft, fs = ts(f)
                e = table([0.0] + list(s) + list(-s) + list(fs) + list(-fs), math.exp)
                cs.add(f"run_coupling {e} {cb(affine)} {n} {bl(mk)} {bl(imk)} {ql(np_(b['x'][r]))} {ql(t)} {ql(s)} "
                       f"{ql(np_(b['net'][0][0][r]))} {ql(np_(b['out'][r]))} {C.qlit(ldj_row(b['ldj'], r))} "
                       f"{ql(np_(f['x'][r]))} {ql(ft)} {ql(fs)} {ql(np_(f['net'][0][0][r]))} {ql(np_(f['out'][r]))} {C.qlit(ldj_row(f['ldj'], r))}",
                       what="coupling", row=r, flags="1 u 2 ildj 4 x 8 ldj 16 conditioner input (backward) 32 conditioner input (forward)", **base)
        elif isinstance(m, CouplingLayer2d):
            affine = bool(m.affine); rev = bool(m.reverse)
            Cc, H, W = m.in_features; mm = (Cc // 2) * H * W
            for r in range(B):
                def ts(c):
                    z = np_(c["net"][0][1][r])
                    if affine:
                        return z[:Cc // 2].reshape(-1), np_(c["sact"][0][r]).reshape(-1)
                    return z.reshape(-1), np.zeros(0)
                t, s = ts(b); ft, fs = ts(f)
                e = table([0.0] + list(s) + list(-s) + list(fs) + list(-fs), math.exp)
                cs.add(f"run_chan {e} {cb(affine)} {cb(rev)} {mm} {ql(np_(b['x'][r]))} {ql(t)} {ql(s)} "
                       f"{ql(np_(b['net'][0][0][r]))} {ql(np_(b['out'][r]))} {C.qlit(ldj_row(b['ldj'], r))} "
                       f"{ql(np_(f['x'][r]))} {ql(ft)} {ql(fs)} {ql(np_(f['net'][0][0][r]))} {ql(np_(f['out'][r]))} {C.qlit(ldj_row(f['ldj'], r))}",
                       what="channel-coupling", row=r, flags="1 u 2 ildj 4 x 8 ldj 16 conditioner input (backward) 32 conditioner input (forward)", **base)
        elif isinstance(m, (BatchNormLayer1d, BatchNormLayer2d)):
            shape = tuple(b["x"].shape[1:]); n = int(np.prod(shape))
            def ex(p):
                a = np_(p)
                return np.broadcast_to(a.reshape(a.shape[1:]), shape).reshape(-1) if a.ndim == 4 else a.reshape(-1)
            w, bb, rv, rm = ex(m.weight), ex(m.bias), ex(m.running_var), ex(m.running_mean)
            eps = float(m.eps)
            v = sorted(set(float(x) + eps for x in rv))
            e = table(list(w) + list(-w), math.exp); l = table(v, math.log); sq = table(v, math.sqrt)
            for r in range(B):
                cs.add(f"run_bn {e} {l} {sq} {n} {C.qlit(eps)} {ql(w)} {ql(bb)} {ql(rv)} {ql(rm)} {ql(np_(b['x'][r]))} "
                       f"{ql(np_(b['out'][r]))} {C.qlit(ldj_row(b['ldj'], r))} {ql(np_(f['x'][r]))} {ql(np_(f['out'][r]))} {C.qlit(ldj_row(f['ldj'], r))}",
                       what="batchnorm", row=r, flags="1 u 2 ildj 4 x 8 ldj", **base)
        elif isinstance(m, LogitLayer):
            shape = tuple(b["x"].shape[1:]); n = int(np.prod(shape)); a = float(m.alpha)
            for r in range(B):
                x = np_(b["x"][r]).reshape(-1); xp = a + (1.0 - 2.0 * a) * x
                fu = np_(f["x"][r]).reshape(-1); sg = 1.0 / (1.0 + np.exp(-fu))
                l = table(list(xp) + list(1.0 - xp) + [1.0 - 2.0 * a] + list(sg) + list(1.0 - sg), math.log)
                e = table(list(-fu), math.exp)
                cs.add(f"run_logit {e} {l} {n} {C.qlit(a)} {C.qlit(float(m.ldj))} {ql(x)} {ql(np_(b['out'][r]))} {C.qlit(ldj_row(b['ldj'], r))} "
                       f"{ql(fu)} {ql(np_(f['out'][r]))} {C.qlit(ldj_row(f['ldj'], r))}",
                       what="logit", row=r, flags="1 u 2 ildj 4 x 8 ldj 16 registered constant != -dims*log(1-2alpha)", **base)
            # the forward map is defined (and invertible) on the whole real line: latent values beyond +-log((1-alpha)/alpha), whose
            # images fall outside [0, 1], go through the same formula (no clipping)
            x = np_(b["x"][0]).reshape(-1); xp = a + (1.0 - 2.0 * a) * x
            edge = math.log((1.0 - a) / a)
            fu = np.where(np.arange(n) % 2 == 0, 1.0, -1.0) * (edge + 0.25 + 0.5 * (np.arange(n) % 3))
            with torch.no_grad():
                fo, fl = m.apply_forward(torch.tensor(fu, dtype=b["x"].dtype).reshape((1,) + shape))
            sg = 1.0 / (1.0 + np.exp(-fu))
            l = table(list(xp) + list(1.0 - xp) + [1.0 - 2.0 * a] + list(sg) + list(1.0 - sg), math.log)
            e = table(list(-fu), math.exp)
            cs.add(f"run_logit {e} {l} {n} {C.qlit(a)} {C.qlit(float(m.ldj))} {ql(x)} {ql(np_(b['out'][0]))} {C.qlit(ldj_row(b['ldj'], 0))} "
                   f"{ql(fu)} {ql(np_(fo[0]))} {C.qlit(ldj_row(fl, 0))}",
                   what="logit-beyond-the-unit-interval", row=0, flags="1 u 2 ildj 4 x 8 ldj 16 registered constant != -dims*log(1-2alpha)", **base)


def wiring_cases(cs, model, cfg, ci, bw, B):
    """RealNVP2d: index maps on arange tensors and the data movement between recorded stages."""
    import torch
    import torch.nn.functional as F
    from deeprob.flows.utils import squeeze_depth2d, unsqueeze_depth2d
    base = dict(cfg=ci)
    blocks = list(model.layers)
    for i, blk in enumerate(blocks[:-1]):
        Cc, H, W = blk.in_features
        ar = lambda c, h, w: torch.arange(c * h * w, dtype=torch.float64).reshape(1, c, h, w)
        with torch.no_grad():
            sq = squeeze_depth2d(ar(Cc, H, W)); un = unsqueeze_depth2d(ar(4 * Cc, H // 2, W // 2))
            pc = F.conv2d(ar(Cc, H, W), model.perm_matrices[i], stride=2)
            pct = F.conv_transpose2d(ar(4 * Cc, H // 2, W // 2), model.perm_matrices[i], stride=2)
        shapes_ok = (tuple(sq.shape) == (1, 4 * Cc, H // 2, W // 2) and tuple(un.shape) == (1, Cc, H, W)
                     and tuple(pc.shape) == (1, 4 * Cc, H // 2, W // 2) and tuple(pct.shape) == (1, Cc, H, W))
        nl = lambda t: C.natlist(np.rint(np_(t)).reshape(-1).astype(int).tolist())
        if not shapes_ok:
            cs.add("99%Z", what="squeeze / permutation output shapes", level=i, **base)
        cs.add(f"run_index_maps {Cc} {H} {W} {nl(sq)} {nl(un)} {nl(pc)} {nl(pct)}", what="index-maps", level=i,
               flags="1 squeeze_depth2d 2 unsqueeze_depth2d 4 conv2d(perm) 8 conv_transpose2d(perm)", **base)
        ins = list(blk.in_couplings); outs = list(blk.out_couplings); nxt = list(blocks[i + 1].in_couplings)
        half = 2 * Cc * (H // 2) * (W // 2)
        for r in range(B):
            a = bw[ins[-1]._c15_id]["out"][r]; b = bw[outs[0]._c15_id]["x"][r]
            cs.add(f"run_gather (squeeze_list {Cc} {H} {W}) {ql(np_(a))} {ql(np_(b))}", what="wiring:squeeze-in-block",
                   level=i, row=r, flags="1 input of the channel-wise couplings != squeeze(output of the checkerboard couplings)", **base)
            a = bw[outs[-1]._c15_id]["out"][r]; b = bw[nxt[0]._c15_id]["x"][r]
            idx = (f"(map (fun k => nth k (unsqueeze_list {4 * Cc} {H // 2} {W // 2}) 0%nat) "
                   f"(firstn {half} (permconv_list {Cc} {H} {W})))")
            cs.add(f"run_gather {idx} {ql(np_(a))} {ql(np_(b))}", what="wiring:downscale-split", level=i, row=r,
                   flags="1 input of the next block != first half of conv2d(perm)(unsqueeze(output of this block))", **base)


def model_cases(cs, rs, cfg, ci, rep):
    import torch
    model = build(cfg)
    randomize(model, rs)
    rec = Rec()
    leaves = instrument(model, rec)
    shp = in_shape(cfg); n = int(np.prod(shp)); B = 2
    if cfg["logit"] is not None:
        x = torch.tensor(rs.uniform(0.03, 0.97, size=(B,) + shp), dtype=torch.float64)
    else:
        x = torch.tensor(rs.normal(0, 1.0, size=(B,) + shp), dtype=torch.float64)
    # latent rows = images of a second data batch, so that the forward pass stays in a well-conditioned
    # range (random latents can saturate the sigmoid of the logit layer in float arithmetic)
    if cfg["logit"] is not None:
        x2 = torch.tensor(rs.uniform(0.03, 0.97, size=(B,) + shp), dtype=torch.float64)
    else:
        x2 = torch.tensor(rs.normal(0, 1.0, size=(B,) + shp), dtype=torch.float64)
    rec.on = False
    with torch.no_grad():
        u = model.apply_backward(model.preprocess(x2)[0])[0].clone()
    rec.on = True
    info = dict(config=cfg, x=[float(v) for v in x[0].reshape(-1)], u=[float(v) for v in u[0].reshape(-1)])
    try:
        with torch.no_grad():
            rec.calls = []
            logp = model(x)
            bw = {c["leaf"]: c for c in rec.calls if c["dir"] == "apply_backward"}
            order_b = [c["leaf"] for c in rec.calls]
            rec.calls = []
            xf, l1 = model.apply_forward(u)
            xs, l2 = model.unpreprocess(xf)
            fw = {c["leaf"]: c for c in rec.calls if c["dir"] == "apply_forward"}
            order_f = [c["leaf"] for c in rec.calls]
            rec.on = False
            px, pre = model.preprocess(x)
            uu, il = model.apply_backward(px)
        if sorted(bw) != list(range(len(leaves))) or sorted(fw) != list(range(len(leaves))) or order_f != order_b[::-1]:
            cs.add("99%Z", what="not every bijector is applied exactly once, forward in the reverse order of backward", cfg=ci,
                   backward_order=order_b, forward_order=order_f)
            return model, x, u, info
        leaf_cases(cs, model, cfg, ci, leaves, bw, fw, B)
        if cfg["kind"] == "nvp2":
            wiring_cases(cs, model, cfg, ci, bw, B)
        hl2pi = 0.5 * math.log(2 * math.pi)
        for r in range(B):
            ildjs = [ldj_row(bw[l]["ldj"], r) for l in order_b]
            ldjs = [ldj_row(fw[l]["ldj"], r) for l in order_f]
            tot = ldj_row(il, r) + ldj_row(pre, r)
            cs.add(f"run_total {n} {C.qlit(hl2pi)} {ql(ildjs)} {C.qlit(tot)} {ql(np_(uu[r]))} {C.qlit(float(logp[r]))} "
                   f"{ql(ldjs)} {C.qlit(ldj_row(l1, r) + ldj_row(l2, r))}", what="totals", cfg=ci, row=r,
                   flags="1 total ildj != sum of the bijectors' 2 log_prob != standard-normal prior + ildj 4 total ldj != sum")
    except Exception as ex:  # the implementation crashed on a valid configuration
        rep.violation(dict(kind="implementation-raised", error=f"{type(ex).__name__}: {ex}", **info), True)
        return None, x, u, info
    return model, x, u, info


# ------------------------------------------------------------------ main
def stacked_stage(rep, rs, tier):
    """flows stacked through the `in_base` option (a flow with batch normalisation as the base density of another flow), put in
    evaluation mode with .eval(): every sub-module is in evaluation mode, log_prob of a row does not depend on its batch or on
    earlier calls, and equals the change-of-variables density of the composite map (autograd slogdet)."""
    import torch
    from torch.autograd.functional import jacobian
    from deeprob.flows.models.maf import MAF
    from deeprob.flows.models.realnvp import RealNVP1d
    nbad = 0; ndone = 0
    for i in range(4 if tier == "quick" else 24):
        D = int(rs.randint(2, 5))
        torch.manual_seed(int(rs.randint(1 << 30)))
        base = MAF(D, n_flows=int(rs.randint(1, 3)), depth=1, units=4, batch_norm=True, random_state=np.random.RandomState(int(rs.randint(1 << 30))))
        top = (RealNVP1d(D, n_flows=int(rs.randint(1, 3)), depth=1, units=4, batch_norm=bool(i % 2), in_base=base) if i % 2 == 0 else
               MAF(D, n_flows=1, depth=1, units=4, batch_norm=True, in_base=base, random_state=np.random.RandomState(int(rs.randint(1 << 30)))))
        top = top.double()
        randomize(top, rs)
        top.train()
        with torch.no_grad():
            for _ in range(3):
                top(torch.tensor(rs.randn(16, D) * 1.5 + 0.5))       # move the running statistics away from their initial values
        top.eval()
        x = torch.tensor(rs.randn(6, D))
        ndone += 1
        bad = None
        if any(m.training for m in top.modules()):
            bad = dict(what="after .eval() a sub-module is still in training mode",
                       modules=[type(m).__name__ for m in top.modules() if m.training][:6])
        else:
            with torch.no_grad():
                a = top(x).reshape(-1).numpy(); b = top(x).reshape(-1).numpy()
                single = np.array([float(top(x[j:j + 1]).reshape(-1)[0]) for j in range(len(x))])
            if not np.allclose(a, b, rtol=1e-9, atol=1e-9):
                bad = dict(what="two evaluations of log_prob on the same batch differ in evaluation mode", first=a.tolist(), second=b.tolist())
            elif not np.allclose(a, single, rtol=1e-7, atol=1e-7):
                bad = dict(what="log_prob of a row depends on the batch it is evaluated in (evaluation mode)", in_batch=a.tolist(), alone=single.tolist())
        if bad:
            nbad += 1
            if nbad <= 3:
                rep.violation(dict(kind="stacked-flow-in-evaluation-mode", features=D, top=type(top).__name__, failure=bad), True)
    rep.cov["stacked_flows_in_base"] = ndone


def replaced_params_stage(rep, rs, tier, cfgs):
    """histories on ONE model object: evaluation mode, queried (with and without autograd), then its parameters are replaced
    (load_state_dict / in-place copy / an optimiser step) WITHOUT a further .eval()/.train() call, then the whole direct oracle
    runs again: the property speaks of the parameter values the model holds now.  Also compared with a fresh twin that is given
    the same state dict."""
    import torch, copy as _copy
    nbad = 0; ndone = 0; kinds = {}
    pick = [c for i, c in enumerate(cfgs) if i % (3 if tier == "quick" else 2) == 0]
    for hi, cfg in enumerate(pick):
        shp = in_shape(cfg); B = 2
        def batch():
            if cfg["logit"] is not None:
                return torch.tensor(rs.uniform(0.03, 0.97, size=(B,) + shp), dtype=torch.float64)
            return torch.tensor(rs.normal(0, 1.0, size=(B,) + shp), dtype=torch.float64)
        try:
            model = build(cfg); randomize(model, rs)
            donor = build(cfg); randomize(donor, rs)
            x, x2 = batch(), batch()
            with torch.no_grad():
                model(x); model.sample(3)
                model.apply_forward(model.apply_backward(model.preprocess(x2)[0])[0])
            model(x)
            how = ["load_state_dict", "in-place copy", "optimiser step"][hi % 3]
            if how == "load_state_dict":
                model.load_state_dict(_copy.deepcopy(donor.state_dict()))
            elif how == "in-place copy":
                with torch.no_grad():
                    for (_, a), (_, b) in zip(model.named_parameters(), donor.named_parameters()):
                        a.copy_(b)
                    for (_, a), (_, b) in zip(model.named_buffers(), donor.named_buffers()):
                        a.copy_(b)
            else:
                opt = torch.optim.SGD([q for q in model.parameters() if q.requires_grad], lr=0.05)
                opt.zero_grad(); (-model(x).mean()).backward()
                gmax = max([float(q.grad.abs().max()) for q in model.parameters() if q.grad is not None] + [1e-12])
                for q in model.parameters():        # a step of bounded size: no parameter moves by more than 0.05
                    if q.grad is not None:
                        q.grad.div_(gmax)
                opt.step()
            twin = build(cfg); twin.double(); twin.load_state_dict(_copy.deepcopy(model.state_dict())); twin.eval()
            with torch.no_grad():
                u = twin.apply_backward(twin.preprocess(x2)[0])[0].clone()
                a = model(x).reshape(-1); b = twin(x).reshape(-1)
            bad = None
            if not float((a - b).abs().max()) <= 1e-7:
                bad = dict(what="log_prob differs from a fresh model holding the same state dict", used=a.tolist(), fresh=b.tolist())
            if bad is None:
                bad = oracle(model, cfg, x, u)
        except Exception as ex:
            bad = dict(what="history raised", error=f"{type(ex).__name__}: {ex}")
        ndone += 1; kinds[how] = kinds.get(how, 0) + 1
        if bad:
            nbad += 1
            if nbad <= 3:
                rep.violation(dict(kind="parameters-replaced-in-evaluation-mode", history=["eval()", "log_prob/sample/apply_* under no_grad", "log_prob", how, "oracle"],
                                   config=cfg, failure=bad, x=x[0].reshape(-1).tolist()), True)
    rep.cov["replaced_parameter_histories"] = dict(models=ndone, how=kinds)


def base_stage(rep, rs, tier, cfgs):
    """the sampler draws from the distribution log_prob describes also when the base is not the standard normal: a
    user-supplied Normal(loc, scale) base, or the default base after its registered location / scale were given other values
    (a loaded checkpoint).  Latent images of samples (apply_backward, exact by the theorems) must have the base's mean and
    standard deviation per coordinate; log_prob must use the same base."""
    import torch
    nbad = 0; done = 0
    pick = [c for c in cfgs if c["kind"] in ("maf", "nvp1") and c["logit"] is None][: (4 if tier == "quick" else 16)]
    for hi, cfg in enumerate(pick):
        D = cfg["D"]
        loc = torch.tensor(rs.uniform(-3.0, 3.0, size=D)); scale = torch.tensor(rs.uniform(0.3, 2.5, size=D))
        try:
            from deeprob.flows.models.maf import MAF
            from deeprob.flows.models.realnvp import RealNVP1d
            how = ["in_base=Normal(loc, scale)", "registered base location / scale overwritten"][hi % 2]
            if hi % 2 == 0:
                base = torch.distributions.Normal(loc, scale)
                if cfg["kind"] == "maf":
                    model = MAF(D, n_flows=cfg["n_flows"], depth=cfg["depth"], units=cfg["units"], batch_norm=cfg["batch_norm"],
                                activation=cfg["activation"], sequential=cfg["sequential"], in_base=base, random_state=np.random.RandomState(cfg["rseed"]))
                else:
                    model = RealNVP1d(D, n_flows=cfg["n_flows"], depth=cfg["depth"], units=cfg["units"], batch_norm=cfg["batch_norm"], affine=cfg["affine"], in_base=base)
                randomize(model, rs)
            else:
                model = build(cfg); randomize(model, rs)
                with torch.no_grad():
                    model.in_base_loc.copy_(loc); model.in_base_scale.copy_(scale)
            model.eval()
            N = 6000
            torch.manual_seed(int(rs.randint(1 << 30)))
            with torch.no_grad():
                xs = model.sample(N).double()
                us = model.apply_backward(model.preprocess(xs)[0])[0].reshape(N, -1).double().numpy()
                lp = model(xs[:4]).reshape(-1).double().numpy()
                u4, il4 = model.apply_backward(model.preprocess(xs[:4])[0])
                ref = (torch.distributions.Normal(loc, scale).log_prob(u4.reshape(4, -1).double()).sum(1) + torch.as_tensor(il4).double().reshape(-1)).numpy()
            m_, s_ = us.mean(0), us.std(0)
            bad = None
            if np.any(np.abs(m_ - loc.numpy()) > 6 * scale.numpy() / math.sqrt(N) + 1e-3) or np.any(np.abs(s_ / scale.numpy() - 1) > 0.08):
                bad = dict(what="latent images of the sampler's draws do not have the base distribution's mean / standard deviation",
                           base_loc=loc.tolist(), base_scale=scale.tolist(), latent_mean=m_.tolist(), latent_std=s_.tolist(), draws=N)
            elif not np.allclose(lp, ref, rtol=1e-6, atol=1e-6):
                bad = dict(what="log_prob is not the base log-density of the latent image plus the reported ildj", log_prob=lp.tolist(), expected=ref.tolist())
        except Exception as ex:
            bad = dict(what="a flow with a non-standard Gaussian base raised", error=f"{type(ex).__name__}: {ex}")
        done += 1
        if bad:
            nbad += 1
            if nbad <= 3:
                rep.violation(dict(kind="sampler-and-log-prob-use-different-base-distributions", base=how, config=cfg, failure=bad), True)
    rep.cov["non_standard_base_models"] = done


def main(tier, seed, replay=None):
    import torch
    torch.set_num_threads(1)
    torch.set_default_dtype(torch.float32)
    rep = C.Report(PID, tier, seed)
    rs = np.random.RandomState(seed % (2 ** 31))
    torch.manual_seed(seed % (2 ** 31))
    C.proof_stage(rep, PID, pre_build=pre_build)
    rep.cov["trusted_base"] += [
        "harness/c15.py: extraction of module buffers / recorded tensors into literals; oracle tables of exp, log, sqrt (python math, float64) keyed by argument (lookup tolerance 1e-12)",
        "PyTorch kernels (linear, conv2d, conv_transpose2d, tanh, autograd) and the conditioner networks: treated as arbitrary functions by the theorems; their answers are read from the implementation",
        "the implementation is run in float64 (model.double()) so that the comparison tolerance is 1e-9; float32 rounding of the deployed dtype is not modelled",
        "multivariate step 'triangular Jacobian => log|det| = sum log|diagonal|' (mathcomp det_trig, cited, not formalised here); checked numerically on every generated model by autograd slogdet"]
    rep.assumptions += ["logit alpha in (0, 1/2) (the constructor accepts [1/2, 1) where the layer is not a bijection)",
                        "DequantizeLayer is stochastic, not a bijection: excluded",
                        "evaluation mode; standard-normal base distribution"]
    cfgs = configs(rs, tier)
    if replay:
        rp = json.load(open(replay))
        print("replay file:", replay); print(json.dumps(rp, indent=1)[:3000])
        if "config" in rp:
            cfgs = [rp["config"]] + cfgs[:2]
    cs = Cases()
    models = []
    dist = dict(kind={}, features={}, leaves=0, activation={}, affine={}, sequential={})
    n_oracle = 0
    for ci, cfg in enumerate(cfgs):
        before = len(cs.items)
        model, x, u, info = model_cases(cs, rs, cfg, ci, rep)
        models.append((model, x, u, info))
        dist["kind"][cfg["kind"]] = dist["kind"].get(cfg["kind"], 0) + 1
        nfeat = int(np.prod(in_shape(cfg)))
        dist["features"][nfeat] = dist["features"].get(nfeat, 0) + 1
        for k in ("activation", "affine", "sequential"):
            if k in cfg:
                dist[k][str(cfg[k])] = dist[k].get(str(cfg[k]), 0) + 1
        if model is None:
            continue
        dist["leaves"] += sum(1 for _ in model.modules() if isinstance(_, leaf_classes()))
        try:
            bad = oracle(model, cfg, x, u)
        except Exception as ex:
            bad = dict(what="direct oracle raised", error=f"{type(ex).__name__}: {ex}")
        n_oracle += 1
        if bad:
            rep.violation(dict(kind="direct-oracle", failure=bad, **info), found_input=True)
        if len(rep.cov["samples"]) < 3:
            rep.sample(dict(config=cfg, cases=len(cs.items) - before))
    rep.cov["input_distribution"] = dist
    rep.cov["direct_oracle_models"] = n_oracle
    # ---- E1 shards
    header = ["From Coq Require Import List ZArith QArith Qcanon Bool.",
              "From DV Require Import Model.QcInst Model.Flow Model.FlowRun.",
              "Import ListNotations. Open Scope nat_scope."]
    nshard = max(1, min(C.NPROC, (len(cs.items) + 39) // 40))
    shards = [cs.items[k::nshard] for k in range(nshard)]
    files = []
    for k, sh in enumerate(shards):
        body = list(header)
        body.append("Eval vm_compute in (" + C.coq_list([f"({e})" for e, _ in sh]) + " : list Z).")
        files.append((f"cases_{k}", "\n".join(body)))
    res = C.run_case_files(PID, files, timeout=1500)
    flagged = []
    kinds = {}
    for (name, rc, ints, raw), sh in zip(res, shards):
        if rc != 0 or ints is None or len(ints) != len(sh):
            rep.obligation(False)
            rep.violation(dict(kind="correspondence-shard-failed", shard=name, log=raw), False)
            continue
        rep.obligation(True)
        for (e, d), code in zip(sh, ints):
            rep.count(dict(d=d, h=hash(e)), nontrivial=True)
            kinds[d["what"]] = kinds.get(d["what"], 0) + 1
            if code != 0:
                flagged.append((d, code))
    rep.cov["case_kinds"] = kinds
    seen = set()
    for d, code in flagged:
        key = (d.get("cfg"), d.get("what"))
        if key in seen or len(seen) >= 6:
            continue
        seen.add(key)
        model, x, u, info = models[d["cfg"]]
        try:
            bad = oracle(model, cfgs[d["cfg"]], x, u) if model is not None else None
        except Exception as ex:
            bad = dict(what="direct oracle raised", error=f"{type(ex).__name__}: {ex}")
        rep.violation(dict(kind="model-implementation-disagreement", flags=code, case=d, oracle=bad, **info),
                      found_input=True)
    rep.cov["rule"] = ("architecture grids: MAF (features 2-6, flows 1-3, depth 1-3, units 2-8, five activations, batch norm on/off, "
                       "sequential and random degrees, logit off/0.05/0.2), RealNVP1d (features 2-7, flows 1-3, depth 1-2, affine/additive, "
                       "batch norm, logit), RealNVP2d (C,H,W in {1,2,3}x{2,4,8}x{2,4,8}, 1-2 multi-scale levels, resnet/densenet, affine/additive, logit); "
                       "every trainable parameter uniform(-0.8,0.8), scale-activation weights 0.3..1 in magnitude, running variances 0.3..2, float64; "
                       "2 data rows and 2 latent rows per model; one evaluation = one Coq-evaluated case (buffer comparison, or one bijector "
                       "on one row in both directions, or one wiring/total identity); distinct by case hash; in addition the direct oracle "
                       "(autograd Jacobians, round trips) runs on every model")
    stacked_stage(rep, rs, tier)
    replaced_params_stage(rep, rs, tier, cfgs)
    base_stage(rep, rs, tier, cfgs)
    C.clean_gen(PID)
    return rep.finish("proof")
