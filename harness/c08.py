"""C08 — parallel evaluation equals sequential evaluation under every thread schedule.
Proof: Properties/C08.v (layering; every interleaving of a layer's atomic, pairwise independent
actions equals the sequential order; unlocked read-modify-write refuted).
Tie: the real parallel runs (n_jobs != 0) are instrumented WITHOUT touching /repo — the numpy and
threading names of deeprob.spn.algorithms.evaluation are replaced by recording proxies for the
duration of a run — and the recorded per-task accesses are checked against what licenses the
model: same layers as Model/Sched.v:layer_of (engine E1), every task writes only its own `ls` row
and reads only its children's, every write to a mask row happens while the lock is held and targets
a child of the running node, a node's own mask row is not written in its layer.  Results for
n_jobs in {2,4,16,-1} are compared with n_jobs = 0.  Search: a stress schedule (many parents of one
shared child, large batch, parallel `sample`) counts unfilled cells."""
import threading, time, json, time
import numpy as np
from . import common as C
from . import circuits as G
from . import c01

PID = "C08"
HEADER = ["From Coq Require Import List ZArith QArith Qcanon.",
          "From DV Require Import Model.Core Model.Clt Model.Leaves Model.QcInst Model.Sched Model.SchedRun.",
          "Import ListNotations. Open Scope Z_scope."]

AMPLIFY = dict(on=False, pause=0.002)
_tl = threading.local()
_events = []
_ev_lock = threading.Lock()


def _log(*e):
    with _ev_lock:
        _events.append(e)


def _cols_of(key, width):
    """columns of the 2-D output array touched by an index expression (None = cannot tell: treated as all columns)."""
    try:
        if isinstance(key, tuple) and len(key) == 2:
            c = key[1]
            if isinstance(c, slice):
                return tuple(range(width)[c])
            return tuple(sorted({int(v) for v in np.asarray(c).ravel()}))
        return tuple(range(width))
    except Exception:
        return tuple(range(width))


class Traced(np.ndarray):
    """ndarray that records row reads / writes with the running task and whether the mask lock is held."""
    def __array_finalize__(self, obj):
        self.tag = getattr(obj, "tag", None)
        self.top = False

    def __getitem__(self, key):
        if self.top and self.tag == "x":
            _log("xget", _cols_of(key, self.shape[1]), None, getattr(_tl, "node", None))
            out = super().__getitem__(key)
            if AMPLIFY["on"]:
                time.sleep(AMPLIFY["pause"])      # widen the window between a leaf's read of its rows and its write-back
            return out
        if self.top and isinstance(key, (int, np.integer)):
            _log("get", self.tag, int(key), getattr(_tl, "node", None), frozenset(getattr(_tl, "locks", ())))
            if AMPLIFY["on"] and self.tag == "masks":
                # race amplifier (failing-input search only): `masks[k] |= m` is a read-modify-write of row k; hand out a
                # private copy and pause before the write-back.  Under mutual exclusion on row k the result is unchanged;
                # without it another task's update made in the pause is overwritten (the lost update becomes observable).
                row = np.array(super().__getitem__(key))
                time.sleep(AMPLIFY["pause"])
                return row
        return super().__getitem__(key)

    def __setitem__(self, key, value):
        if self.top and self.tag == "x":
            _log("xset", _cols_of(key, self.shape[1]), None, getattr(_tl, "node", None))
            self.view(np.ndarray)[key] = value
            return None
        if self.top and isinstance(key, (int, np.integer)):
            _log("set", self.tag, int(key), getattr(_tl, "node", None), frozenset(getattr(_tl, "locks", ())))
            if AMPLIFY["on"]:
                # write through the base-class view: ndarray's own item assignment may call the (copying) __getitem__ above
                self.view(np.ndarray)[key] = value
                return None
        return super().__setitem__(key, value)


class NpProxy:
    def __getattr__(self, name):
        return getattr(np, name)

    def zeros(self, *a, **k):
        arr = np.zeros(*a, **k)
        if arr.ndim == 2 and arr.dtype == np.bool_:
            arr = arr.view(Traced); arr.tag = "masks"; arr.top = True
        return arr

    def copy(self, a, *args, **k):
        arr = np.copy(a, *args, **k)
        if isinstance(arr, np.ndarray) and arr.ndim == 2 and arr.dtype.kind == "f":
            arr = arr.view(Traced); arr.tag = "x"; arr.top = True      # the output array of the top-down pass
        return arr

    def empty(self, *a, **k):
        arr = np.empty(*a, **k)
        if arr.ndim == 2:
            arr = arr.view(Traced); arr.tag = "ls"; arr.top = True
        return arr


class TracedLock:
    """a real lock that records, per thread, which traced locks are currently held"""
    def __init__(self):
        self._l = threading.Lock()

    def _add(self):
        _tl.locks = set(getattr(_tl, "locks", ())) | {id(self)}

    def _del(self):
        _tl.locks = set(getattr(_tl, "locks", ())) - {id(self)}

    def __enter__(self):
        self._l.acquire(); self._add(); return self

    def __exit__(self, *a):
        self._del(); self._l.release()

    def acquire(self, *a, **k):
        r = self._l.acquire(*a, **k)
        if r:
            self._add()
        return r

    def release(self):
        self._del(); self._l.release()

    def locked(self):
        return self._l.locked()


class ThreadingProxy:
    def __getattr__(self, name):
        return getattr(threading, name)

    def Lock(self):
        _log("lock-created")
        return TracedLock()


def instrumented(fn):
    """run fn() with the evaluation module instrumented; returns (result, events, layer records)."""
    import deeprob.spn.algorithms.evaluation as EV
    global _events
    _events = []
    layers_rec = []
    orig_np, orig_par = EV.np, EV.parallel_layerwise_eval
    had_threading = hasattr(EV, "threading"); orig_thr = getattr(EV, "threading", None)

    def par(layers, eval_func, reverse=False, n_jobs=-1):
        layers = list(layers)
        layers_rec.append(dict(reverse=reverse, layers=[[int(n.id) for n in l] for l in layers]))
        depth = {int(n.id): i for i, l in enumerate(layers) for n in l}

        def wrapped(n):
            _tl.node = int(n.id); _tl.locks = set()
            _log("start", int(n.id), depth[int(n.id)], threading.get_ident())
            try:
                return eval_func(n)
            finally:
                _log("end", int(n.id)); _tl.node = None
        return orig_par(layers, wrapped, reverse=reverse, n_jobs=n_jobs)

    EV.np = NpProxy(); EV.parallel_layerwise_eval = par
    if had_threading:
        EV.threading = ThreadingProxy()
    try:
        out = fn()
    finally:
        EV.np = orig_np; EV.parallel_layerwise_eval = orig_par
        if had_threading:
            EV.threading = orig_thr
    ev = list(_events); _events = []
    return out, ev, layers_rec


def conformance(root, events, layers_rec, topdown):
    """what the model assumes about one instrumented parallel run; returns list of problems."""
    objs = G.post_order(root)
    kids = {int(o.id): [int(c.id) for c in o.children] for o in objs}
    scopes = {int(o.id): [int(v) for v in o.scope] for o in objs if not o.children}
    problems = []
    depth = {}
    common = {}      # mask row -> locks held during EVERY write to it (mutual exclusion needs a common one)
    for rec in layers_rec:
        for i, l in enumerate(rec["layers"]):
            for n in l:
                depth[n] = i
    epoch = 0        # one epoch per top-down call (each creates its own lock)
    for e in events:
        if e[0] == "lock-created":
            epoch += 1
            continue
        if e[0] == "set" and e[1] == "ls":
            if e[3] is not None and e[2] != e[3]:
                problems.append(dict(what="task writes another node's ls row", node=e[3], row=e[2]))
        elif e[0] == "get" and e[1] == "ls" and e[3] is not None:
            if e[2] not in kids.get(e[3], []) and e[2] != e[3]:
                problems.append(dict(what="task reads an ls row that is not one of its children's", node=e[3], row=e[2]))
            if e[2] in depth and e[3] in depth and e[2] != e[3] and depth[e[2]] <= depth[e[3]]:
                problems.append(dict(what="bottom-up task reads a row of the same or a shallower layer", node=e[3], row=e[2]))
        elif e[0] == "set" and e[1] == "masks" and e[3] is not None:
            if e[2] not in kids.get(e[3], []):
                problems.append(dict(what="task writes a mask row that is not one of its children's", node=e[3], row=e[2]))
            if not e[4]:
                problems.append(dict(what="mask row written outside the lock", node=e[3], row=e[2]))
            common[(epoch, e[2])] = e[4] if (epoch, e[2]) not in common else (common[(epoch, e[2])] & e[4])
            if e[2] in depth and e[3] in depth and depth[e[2]] <= depth[e[3]]:
                problems.append(dict(what="mask row of the same or a shallower layer written", node=e[3], row=e[2]))
    # a leaf task may only write cells of its own scope in the output array (cells of other scopes belong to
    # other tasks of the same layer: writing them back from a private copy can undo their update)
    for e in events:
        if e[0] == "xset" and e[3] is not None and e[3] in scopes:
            extra = sorted(set(e[1]) - set(scopes[e[3]]))
            if extra:
                problems.append(dict(what="a leaf task writes output cells outside its own scope", node=e[3], columns=extra[:6]))
    for row, locks in common.items():
        if not locks:
            problems.append(dict(what="writes to one mask row are not all protected by a common lock", row=row[1]))
    if topdown:
        # every inner node processed in parallel must have propagated its mask to each of its children
        done = {(e[3], e[2]) for e in events if e[0] == "set" and e[1] == "masks" and e[3] is not None}
        started = {e[1] for e in events if e[0] == "start"}
        td_layers = [r for r in layers_rec if not r["reverse"]]
        td_nodes = {n for r in td_layers for l in r["layers"] for n in l}
        for n in td_nodes & started:
            for c in kids.get(n, []):
                if (n, c) not in done:
                    problems.append(dict(what="no recorded (locked) mask write from a node to its child", node=n, child=c))
    return problems


def shared_child_dag(rs, n_parents, n_vars=3, kind="prod"):
    """many parents of ONE layer sharing children (the situation in which an unlocked update is lost):
    kind 'prod' = product parents over shared leaves, kind 'sum' = sum parents sharing leaves of one variable."""
    from deeprob.spn.structure.leaf import Bernoulli
    from deeprob.spn.structure.node import Sum, Product, assign_ids
    if kind == "sum":
        shared = [Bernoulli(0, float(rs.randint(1, 16) / 16.0)) for _ in range(max(2, n_vars))]
        parents = [Sum(children=list(shared), weights=np.array(G.dyadic_weights(rs, len(shared), 5), dtype=np.float32))
                   for _ in range(n_parents)]
    else:
        shared = [Bernoulli(v, float(rs.randint(1, 16) / 16.0)) for v in range(n_vars)]
        parents = []
        for i in range(n_parents):
            own = Bernoulli(n_vars, float(rs.randint(1, 16) / 16.0))
            parents.append(Product(children=shared + [own]))
    root = Sum(children=parents, weights=np.array(G.dyadic_weights(rs, n_parents, 6), dtype=np.float32))
    assign_ids(root)
    return root


def clt_product(rs, n_leaves):
    """one product over several multivariate (Chow-Liu) leaves and a univariate one: all leaves run in one layer."""
    from deeprob.spn.structure.leaf import Bernoulli
    from deeprob.spn.structure.node import Product, assign_ids
    kids = []; v = 0
    for _ in range(n_leaves):
        k = int(rs.randint(2, 4)); kids.append(G.rand_clt(rs, list(range(v, v + k)))); v += k
    kids.append(Bernoulli(v, float(rs.randint(1, 16) / 16.0)))
    root = Product(children=kids); assign_ids(root)
    return root


def stress(seed, n_parents=16, n_rows=400000, reps=3):
    """search: parallel sample on all-NaN rows; counts cells left unfilled (a lost mask update)."""
    from deeprob.spn.algorithms.sampling import sample
    rs = np.random.RandomState(seed % (2 ** 31))
    out = dict(n_parents=n_parents, n_rows=n_rows, unfilled_cells=0)
    for kind in ("prod", "sum"):
        root = shared_child_dag(rs, n_parents, n_vars=1 if kind == "prod" else 2, kind=kind)
        width = 2 if kind == "prod" else 1
        worst = 0
        for _ in range(reps):
            x = np.full((n_rows, width), np.nan, dtype=np.float32)
            np.random.seed(int(rs.randint(2 ** 31 - 1)))
            y = sample(root, x, n_jobs=16)
            worst = max(worst, int(np.isnan(y).sum()))
        out["unfilled_" + kind] = worst; out["unfilled_cells"] = max(out["unfilled_cells"], worst)
    return out


def directed_race(seed, n_parents=4, n_rows=64):
    """failing-input search with the race amplifier: parallel sample / mpe on DAGs whose parents share a child; returns the
    first circuit on which the parallel result differs from the sequential one (cells left unfilled), or None."""
    from deeprob.spn.algorithms.sampling import sample
    from deeprob.spn.algorithms.inference import mpe
    rs = np.random.RandomState(seed % (2 ** 31))
    found = None
    AMPLIFY["on"] = True
    try:
        for kind in ("prod", "sum", "clt", "prod", "sum", "clt"):
            root = shared_child_dag(rs, n_parents, n_vars=2, kind=kind) if kind != "clt" else clt_product(rs, n_parents)
            tab = G.Table(root); scope = sorted(tab.root_scope()); width = max(scope) + 1
            x = np.full((n_rows, width), np.nan, dtype=np.float32)
            for name, f in (("mpe", mpe), ("sample", sample)):
                np.random.seed(7)
                (y,), ev, lrec = instrumented(lambda: (f(root, x, n_jobs=n_parents),))
                unfilled = int(np.isnan(y[:, scope]).sum())
                if unfilled:
                    found = dict(what=f"parallel {name} leaves missing cells unfilled under the amplified schedule (a task's read of shared state — a mask row, "
                                      "or rows of the output array — is followed by a pause before its write-back: another task's update is lost)",
                                 entry_point=name, n_jobs=n_parents, rows=n_rows, unfilled_cells=unfilled, circuit=tab.brief(),
                                 sequential_unfilled=int(np.isnan(f(root, x, n_jobs=0)[:, scope]).sum()))
                    return found
    finally:
        AMPLIFY["on"] = False
    return found


def restructured_stage(rep, rs, tier):
    """histories on ONE root object: parallel queries, then the circuit is restructured IN PLACE below the same root (a leaf
    replaced, a leaf wrapped into a new mixture, prune(copy=False)) and relabelled with assign_ids, then parallel queries
    again: they must equal the sequential ones on the circuit as it is now."""
    from deeprob.spn.algorithms.inference import likelihood, log_likelihood, mpe
    from deeprob.spn.algorithms.sampling import sample
    from deeprob.spn.algorithms.structure import prune
    from deeprob.spn.structure.node import assign_ids, Sum, Product
    from deeprob.spn.structure.leaf import Bernoulli
    nbad = 0; done = {}
    for i in range(6 if tier == "quick" else 40):
        root = c01.gen_circuit(rs, 2 * i, tier, kinds=("bern",), clt=0.0)      # Bernoulli leaves only
        if not isinstance(root, (Sum, Product)):
            continue
        assign_ids(root)
        tab = G.Table(root); dom = tab.domains(); scope = sorted(tab.root_scope()); width = max(scope) + 1
        rows = c01.missing_rows(rs, scope, dom, "quick")
        X = np.array([G.np_row(c, width, {}) for c in rows], dtype=np.float32)
        nj = int(rs.choice([2, 4, -1]))
        def queries(n_jobs):
            with np.errstate(all="ignore"):
                return (log_likelihood(root, X, n_jobs=n_jobs), mpe(root, X, n_jobs=n_jobs), sample(root, X, n_jobs=n_jobs))
        history = [f"parallel queries n_jobs={nj}"]
        problem = None
        try:
            queries(nj)
            for step in range(3):
                inner = [o for o in G.post_order(root) if isinstance(o, (Sum, Product)) and any(isinstance(c, Bernoulli) for c in o.children)]
                kind = ["replace-leaf", "wrap-leaf", "prune-in-place"][(i + step) % 3]
                if kind != "prune-in-place" and inner:
                    par = inner[int(rs.randint(len(inner)))]
                    k = [j for j, c in enumerate(par.children) if isinstance(c, Bernoulli)][0]
                    old = par.children[k]; v = int(old.scope[0])
                    new = Bernoulli(v, float(rs.randint(1, 16) / 16.0))
                    ch = list(par.children); ch[k] = new if kind == "replace-leaf" else Sum(children=[old, new], weights=[0.25, 0.75])
                    par.children = ch
                else:
                    kind = "prune-in-place"
                    r2 = prune(root, copy=False)
                    if r2 is not root:
                        history.append("prune(copy=False) returned another root object: history ends"); break
                assign_ids(root); history.append(kind + " + assign_ids")
                LLs, Ms, _ = queries(0)
                LLp, Mp, Sp = queries(nj)
                history.append(f"parallel queries n_jobs={nj}")
                obs = ~np.isnan(X)
                if not np.array_equal(LLp, LLs, equal_nan=True):
                    problem = dict(what="parallel log_likelihood differs from sequential on the restructured circuit",
                                   max_abs_diff=float(np.nanmax(np.abs(LLp - LLs))))
                elif not np.array_equal(Mp, Ms, equal_nan=True):
                    problem = dict(what="parallel mpe differs from sequential on the restructured circuit")
                elif np.isnan(Sp[:, scope]).any() or not np.array_equal(Sp[obs], X[obs]):
                    problem = dict(what="parallel sample leaves a missing cell unfilled or changes evidence on the restructured circuit",
                                   unfilled=int(np.isnan(Sp[:, scope]).sum()))
                if problem:
                    break
                done[kind] = done.get(kind, 0) + 1
        except Exception as e:
            problem = dict(what="a query raised on a valid circuit", error=f"{type(e).__name__}: {e}")
        if problem:
            nbad += 1
            if nbad <= 3:
                rep.violation(dict(kind="parallel-differs-after-in-place-restructuring", history=history, failure=problem,
                                   circuit_before=tab.brief(), circuit_now=G.Table(root).brief()), True)
    rep.cov["restructured_in_place_histories"] = done


def main(tier, seed, replay=None):
    rep = C.Report(PID, tier, seed)
    rs = np.random.RandomState(seed % (2 ** 31))
    C.proof_stage(rep, PID)
    rep.cov["trusted_base"] += ["instrumentation by replacing the names `np`, `threading`, `parallel_layerwise_eval` of deeprob.spn.algorithms.evaluation with recording proxies during a run (no change to /repo)",
                                "runtime behaviour the model cannot exhibit: CPython/NumPy element-wise writes to DISJOINT rows/cells from several threads, joblib's barrier between layers, GIL release points, the timing of a real race (the stress search may find nothing on a quiet machine)",
                                "leaf cell writes of one layer target pairwise distinct (row, variable) cells: follows from decomposability (C06_descent_covers / masks of parents are disjoint per row), checked on results, not recorded per cell"]
    from deeprob.spn.algorithms.inference import likelihood, log_likelihood, mpe
    from deeprob.spn.algorithms.sampling import sample
    cases = []; dist = dict(random=0, shared=0, nodes=0, max_layer_width=0, parallel_runs=0, events=0)
    ncirc = 10 if tier == "quick" else 60
    specs = []
    for i in range(ncirc):
        if i % 5 == 4:
            specs.append(("random", clt_product(rs, int(rs.choice([2, 3, 4])))))
        elif i % 5 == 3:
            # a component shared by mixtures of different nesting levels: its parents sit at different depths, so its layer is
            # fixed by the DEEPEST of them
            from deeprob.spn.structure.node import assign_ids as _aid
            r_ = G.rand_nested_mixture(rs); _aid(r_)
            specs.append(("random", r_))
        elif i % 2 == 0:
            specs.append(("shared", shared_child_dag(rs, int(rs.choice([2, 4, 8, 16])), n_vars=int(rs.randint(1, 4)), kind=["prod", "sum"][(i // 2) % 2])))
        else:
            specs.append(("random", c01.gen_circuit(rs, i, tier, kinds=[("bern",), ("bern", "cat")][i % 4 // 2 % 2], clt=0.2)))
    for tag, root in specs:
        tab = G.Table(root)
        dom = tab.domains(); scope = sorted(tab.root_scope()); width = max(scope) + 1
        rows = c01.missing_rows(rs, scope, dom, "quick")
        rows = rows + rows
        X = np.array([G.np_row(c, width, {}) for c in rows], dtype=np.float32)
        Xc = np.where(np.isnan(X), 0, X).astype(np.float32)
        pos = {int(o.id): i for i, o in enumerate(tab.objs)}
        seq = dict(L=likelihood(root, Xc, n_jobs=0), LL=log_likelihood(root, X, n_jobs=0), M=mpe(root, X, n_jobs=0))
        problems = []; layers_impl = None
        for nj in ([2, 16] if tier == "quick" else [2, 4, 16, -1]):
            (L, LL, M, S), ev, lrec = instrumented(lambda: (likelihood(root, Xc, n_jobs=nj), log_likelihood(root, X, n_jobs=nj),
                                                           mpe(root, X, n_jobs=nj), sample(root, X, n_jobs=nj)))
            dist["parallel_runs"] += 4; dist["events"] += len(ev)
            if not (np.array_equal(L, seq["L"]) and np.array_equal(LL, seq["LL"], equal_nan=True)):
                problems.append(dict(what="parallel likelihood / log_likelihood differs from sequential", n_jobs=nj))
            if not np.array_equal(M, seq["M"], equal_nan=True):
                problems.append(dict(what="parallel mpe differs from sequential", n_jobs=nj))
            obs = ~np.isnan(X)
            if np.isnan(S[:, scope]).any() or not np.array_equal(S[obs], X[obs]):
                problems.append(dict(what="parallel sample leaves a missing cell unfilled or changes evidence", n_jobs=nj,
                                     unfilled=int(np.isnan(S[:, scope]).sum())))
            problems += [dict(p, n_jobs=nj) for p in conformance(root, ev, lrec, topdown=True)[:5]]
            if not any(e[0] == "lock-created" for e in ev):
                problems.append(dict(what="no lock is created for the top-down mask updates", n_jobs=nj))
            td = [r for r in lrec if not r["reverse"]]
            if td:
                layers_impl = [[pos[n] for n in l] for l in td[0]["layers"]]
            for r in lrec:
                dist["max_layer_width"] = max(dist["max_layer_width"], max(len(l) for l in r["layers"]))
        # the same queries on batches stored in other dtypes (integer codes for complete rows, float64 with NaN): the parallel
        # result must be the sequential result on that very batch
        with np.errstate(all="ignore"):
            for dt in (np.float64, np.int64, np.uint8):
                Xd = Xc.astype(dt)
                for fn, nm in ((likelihood, "likelihood"), (log_likelihood, "log_likelihood")):
                    a = fn(root, Xd, n_jobs=0); b = fn(root, Xd, n_jobs=2)
                    dist["parallel_runs"] += 1
                    if a.dtype != b.dtype or not np.array_equal(a, b, equal_nan=True):
                        problems.append(dict(what=f"parallel {nm} differs from sequential on a {np.dtype(dt).name} batch", n_jobs=2,
                                             sequential=[float(v) for v in np.ravel(a)[:4]], parallel=[float(v) for v in np.ravel(b)[:4]],
                                             dtypes=[str(a.dtype), str(b.dtype)]))
            X64 = X.astype(np.float64)
            a = log_likelihood(root, X64, n_jobs=0); b = log_likelihood(root, X64, n_jobs=2)
            am = mpe(root, X64, n_jobs=0); bm = mpe(root, X64, n_jobs=2)
            dist["parallel_runs"] += 2
            if a.dtype != b.dtype or not np.array_equal(a, b, equal_nan=True) or not np.array_equal(am, bm, equal_nan=True):
                problems.append(dict(what="parallel log_likelihood / mpe differs from sequential on a float64 batch with missing entries", n_jobs=2,
                                     dtypes=[str(a.dtype), str(b.dtype)]))
        # in-place operation on batches that are not row-major (column-major, every second row of a taller array): the caller's
        # array is the result, on the parallel path as on the sequential one
        with np.errstate(all="ignore"):
            tall = np.full((2 * len(X), X.shape[1]), np.nan, dtype=np.float32); tall[::2] = X
            for lay, mk in (("F-order", lambda: np.asfortranarray(X.copy())), ("every-second-row view", lambda: tall.copy()[::2])):
                try:
                    a_ = mk(); ra = mpe(root, a_, inplace=True, n_jobs=0)
                    b_ = mk(); rb = mpe(root, b_, inplace=True, n_jobs=2)
                    c_ = mk(); rc_ = sample(root, c_, inplace=True, n_jobs=2)
                    dist["parallel_runs"] += 2
                    if not np.array_equal(a_, b_, equal_nan=True) or not np.array_equal(np.asarray(rb), b_, equal_nan=True):
                        problems.append(dict(what=f"parallel mpe(inplace=True) on a {lay} batch differs from sequential: the caller's array is not the completed batch",
                                             n_jobs=2, unfilled_in_callers_array=int(np.isnan(b_[:, scope]).sum())))
                    if np.isnan(c_[:, scope]).any() or not np.array_equal(c_[obs], X[obs]):
                        problems.append(dict(what=f"parallel sample(inplace=True) on a {lay} batch leaves a missing cell unfilled in the caller's array or changes evidence",
                                             n_jobs=2, unfilled=int(np.isnan(c_[:, scope]).sum())))
                except Exception as e:
                    problems.append(dict(what=f"in-place query on a {lay} batch raised: differs from sequential", error=f"{type(e).__name__}: {e}"))
        cases.append(dict(tag=tag, tab=tab, layers=layers_impl, problems=problems))
        dist[tag] += 1; dist["nodes"] += len(tab.nodes)
    rep.cov["input_distribution"] = dist
    body = list(HEADER); items = []
    for i, cs in enumerate(cases):
        body.append(f"Definition t{i} : qtable :=\n  {cs['tab'].coq()}.")
        items.append(f"(t{i}, {C.coq_list([C.natlist(l) for l in (cs['layers'] or [])])})")
    body.append("Eval vm_compute in (map run_ycase " + C.coq_list(items) + ").")
    res = C.run_case_files(PID, [("cases_0", "\n".join(body))])
    name, rc, ints, raw = res[0]
    if rc != 0 or ints is None or len(ints) != len(cases):
        rep.obligation(False); rep.violation(dict(kind="correspondence-shard-failed", shard=name, log=raw), False)
        ints = [0] * len(cases)
    else:
        rep.obligation(True)
    nv = 0
    for cs, code in zip(cases, ints):
        rep.count(cs["tab"].brief(), nontrivial=any(len(l) > 1 for l in (cs["layers"] or [])))
        if code or cs["problems"]:
            nv += 1
            if nv <= 4:
                w = stress(seed) if cs["problems"] else None
                dr = None
                if cs["problems"] and not (w and w["unfilled_cells"]):
                    try:
                        dr = directed_race(seed)
                    except Exception as e:
                        dr = dict(what="directed race search raised", error=f"{type(e).__name__}: {e}")
                found = (bool(code) or any("differs" in p["what"] or "unfilled" in p["what"] for p in cs["problems"])
                         or bool(w and w["unfilled_cells"]) or bool(dr and dr.get("unfilled_cells")))
                rep.violation(dict(kind="trace-conformance-or-layering-broken", layer_flags=code, tag=cs["tag"], circuit=cs["tab"].brief(),
                                   implementation_layers=cs["layers"], problems=cs["problems"][:8], stress_search=w, directed_race=dr,
                                   theorem_no_longer_applicable="C08_top_down_locked / C08_bottom_up (the recorded accesses are not the independent atomic actions the theorems assume)",
                                   note="layer flags: 1 layer sets differ from Model/Sched.v:layer_of, 2 not children-first, 4 number of layers, 8 edge not to a deeper layer"),
                              found_input=found)
    restructured_stage(rep, rs, tier)
    if tier == "thorough":
        w = stress(seed, n_rows=2000000, reps=4)
        rep.cov["stress_search"] = w
        if w["unfilled_cells"]:
            rep.violation(dict(kind="lost-mask-update", stress=w), True)
    for cs in cases[:2]:
        rep.sample(dict(tag=cs["tag"], circuit=cs["tab"].brief()[:10], implementation_layers=cs["layers"]))
    if replay:
        print(open(replay).read()[:3000])
    rep.cov["rule"] = ("DAGs with 2-16 product parents of one layer sharing 1-3 leaf children + random valid DAGs as C01 (CLT leaves 0.2); every evidence pattern "
                       "(duplicated batch); likelihood, log_likelihood, mpe, sample with n_jobs in {2,16} (quick) / {2,4,16,-1} (thorough) instrumented and compared with n_jobs=0; "
                       "one evaluation = one circuit (4 entry points x n_jobs values); non-trivial = some layer has more than one node; distinct by circuit hash")
    C.clean_gen(PID)
    return rep.finish("proof")
