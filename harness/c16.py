"""C16 — RAT-SPNs are normalised, marginalise exactly and complete/sample validly.
Proof: Properties/C16.v (region graph partition, padding arithmetic, unpad index logic for any argsort,
completion keeps evidence, top-down group indices, marginalisation / sum over completions / normalisation of
every class output of the model, sampler measure = model value).  The implementation's sampler is tied to
that law statistically (Hoeffding), its forward/mpe numerically.
Tie (engine E1): the constructor's region graph, masks, pad masks, argsort buffers against the model
run on the RECORDED permutations; `forward` on complete rows and NaN patterns and `mpe` rows against
the model evaluated at exact rationals; `sample` by a Hoeffding bound against the (tied) exact law;
Gaussian leaves through density-oracle tables and quadrature marginal-consistency identities."""
import itertools, math, json, math, os, time
import numpy as np
from . import common as C

PID = "C16"
DELTA = 1e-9


# ------------------------------------------------------------------------------------------------
class Rec(np.random.RandomState):
    """RandomState that records every permutation it hands out (the oracle answers of random_layers)."""
    def __init__(self, seed):
        super().__init__(seed)
        self.log = []

    def permutation(self, x):
        p = super().permutation(x)
        self.log.append(([int(v) for v in x], [int(v) for v in np.asarray(p).tolist()]))
        return p


def composition(rs, k, total):
    """k positive integers summing to total."""
    w = np.ones(k, dtype=np.int64)
    w += rs.multinomial(total - k, np.ones(k) / k)
    return [int(v) for v in w]


GAUSS_POINTS = [-1.5, -0.5, 0.25, 1.0]     # test points of continuous leaves (codes 0..3)


class Cfg:
    def __init__(self, n, d, reps, batch, sums, classes, seed, kind="bern"):
        self.n, self.d, self.reps, self.batch, self.sums, self.classes = n, d, reps, batch, sums, classes
        self.seed, self.kind = int(seed), kind

    def key(self):
        return dict(n=self.n, depth=self.d, reps=self.reps, batch=self.batch, sums=self.sums,
                    classes=self.classes, seed=self.seed, kind=self.kind)

    def build(self):
        """construct the implementation's model with recorded permutations and dyadic parameters."""
        import torch
        from deeprob.spn.models.ratspn import BernoulliRatSpn, GaussianRatSpn
        rs = np.random.RandomState(self.seed)
        rec = Rec(self.seed)
        torch.manual_seed(self.seed)
        if self.kind == "bern":
            m = BernoulliRatSpn(self.n, out_classes=self.classes, rg_depth=self.d, rg_repetitions=self.reps,
                                rg_batch=self.batch, rg_sum=self.sums, random_state=rec)
        else:
            m = GaussianRatSpn(self.n, out_classes=self.classes, rg_depth=self.d, rg_repetitions=self.reps,
                               rg_batch=self.batch, rg_sum=self.sums, random_state=rec)
        m.eval()
        self.m = m
        bl = m.base_layer
        R, D = bl.in_regions, bl.dimension
        # recorded permutations: repetition -> level -> region
        per_rep = 2 ** self.d - 1
        self.perm_log = rec.log
        self.perms = []
        for g in range(self.reps):
            chunk = rec.log[g * per_rep:(g + 1) * per_rep]
            lv = []; pos = 0
            for i in range(self.d):
                lv.append([p for _, p in chunk[pos:pos + 2 ** i]]); pos += 2 ** i
            self.perms.append(lv)
        # dyadic parameters
        with torch.no_grad():
            if self.kind == "bern":
                ks = rs.choice([2, 3, 4, 5, 6, 7, 9, 10, 11, 12, 13, 14], size=(R, self.batch, D))
                self.p = ks / 16.0
                bl.logits.copy_(torch.tensor(np.log(self.p / (1 - self.p)), dtype=torch.float32))
            else:
                self.loc = rs.randint(-16, 17, size=(R, self.batch, D)) / 8.0
                bl.loc.copy_(torch.tensor(self.loc, dtype=torch.float32))
            self.Ws = []
            for layer in m.layers:
                if hasattr(layer, "weight"):
                    o, s, k = layer.weight.shape
                    w = np.array([[composition(rs, k, 64) for _ in range(s)] for _ in range(o)])
                    layer.weight.copy_(torch.tensor(np.log(w / 64.0), dtype=torch.float32))
                    self.Ws.append(w)
            c, k = m.root_layer.weight.shape
            w = np.array([composition(rs, k, 128) for _ in range(c)])
            m.root_layer.weight.copy_(torch.tensor(np.log(w / 128.0), dtype=torch.float32))
            self.Wroot = w
        return m

    # ---- what the constructor produced ----
    def structure(self):
        m = self.m; bl = m.base_layer
        layers = m.rg_layers[::-1]                     # root first
        regions = [[list(map(int, r)) for r in layers[h]] for h in range(0, len(layers), 2)]
        parts = [[list(map(int, r)) for pr in layers[h] for r in pr] for h in range(1, len(layers), 2)]
        R, D = bl.in_regions, bl.dimension
        mask = bl.mask.tolist()
        if bl.pad > 0:
            padm = bl.pad_mask[:, 0, :].tolist()
            ipm = bl.inv_pad_mask.tolist()
        else:
            padm = [[False] * D for _ in range(R)]
            ipm = [[False] * (self.n + bl.pad) for _ in range(self.reps)]
        return dict(regions=regions, parts=parts, pad=int(bl.pad), dim=int(D), mask=mask, padm=padm,
                    inv=bl.inv_mask.tolist(), ipm=ipm)

    # ---- Coq literals ----
    def coq_perms(self):
        return nat4(self.perms)

    def coq_tabs(self):
        R, B, D = (self.p if self.kind == "bern" else self.loc).shape
        out = []
        for i in range(R):
            chans = []
            for c in range(B):
                cells = []
                for k in range(D):
                    if self.kind == "bern":
                        p = float(self.p[i, c, k])
                        cells.append(f"[(0%Z, {C.qlit(1 - p)}); (1%Z, {C.qlit(p)})]")
                    else:
                        mu = float(self.loc[i, c, k])
                        cells.append("[" + "; ".join(
                            f"({j}%Z, {C.qlit(math.exp(-0.5 * (x - mu) ** 2) / math.sqrt(2 * math.pi))})"
                            for j, x in enumerate(GAUSS_POINTS)) + "]")
                chans.append(C.coq_list(cells))
            out.append(C.coq_list(chans))
        return C.coq_list(out)

    def coq_weights(self):
        ws = C.coq_list([C.coq_list([C.coq_list([C.coq_list([f"(q {int(v)} 64)" for v in row]) for row in reg])
                                     for reg in w]) for w in self.Ws])
        wr = C.coq_list([C.coq_list([f"(q {int(v)} 128)" for v in row]) for row in self.Wroot])
        return ws, wr

    # ---- running the implementation ----
    def tensor(self, rows):
        import torch
        a = np.array([[np.nan if v is None else self.value(v) for v in r] for r in rows], dtype=np.float32)
        return torch.tensor(a.reshape(len(rows), self.n))

    def value(self, code):
        return float(code) if self.kind == "bern" else GAUSS_POINTS[code]

    def forward(self, rows):
        import torch
        with torch.no_grad():
            return self.m(self.tensor(rows)).double().numpy()


def nat1(l):
    return "[" + ";".join(str(int(v)) for v in l) + "]"


def nat2(l):
    return "[" + ";".join(nat1(x) for x in l) + "]"


def nat3(l):
    return "[" + ";".join(nat2(x) for x in l) + "]"


def nat4(l):
    return "[" + ";".join(nat3(x) for x in l) + "]"


def bool2(l):
    return "[" + ";".join("[" + ";".join("true" if v else "false" for v in x) + "]" for x in l) + "]"


def rowlit(r):
    return "[" + ";".join("N_" if v is None else f"S_ {int(v)}" for v in r) + "]"


def safe_q(x):
    x = float(x)
    if not math.isfinite(x):
        return "(q (-1) 1)"
    return C.qlit(x)


# ------------------------------------------------------------------------------------------------
# rows
def gen_rows(cfg, rs, tier):
    n = cfg.n
    ncode = 2 if cfg.kind == "bern" else len(GAUSS_POINTS)
    rows = []
    exh = False
    if cfg.kind == "bern" and n <= 4:
        rows = [list(r) for r in itertools.product([0, 1, None], repeat=n)]
        exh = True
    elif cfg.kind == "bern" and n <= (7 if tier == "quick" else 8):
        rows = [list(r) for r in itertools.product([0, 1], repeat=n)]
        exh = True
    k = 30 if tier == "quick" else 60
    extra = [[None] * n]
    for _ in range(k):
        rate = rs.choice([0.0, 0.2, 0.5, 0.8])
        extra.append([None if rs.rand() < rate else int(rs.randint(ncode)) for _ in range(n)])
    seen = set(tuple(r) for r in rows)
    for r in extra:
        if tuple(r) not in seen:
            seen.add(tuple(r)); rows.append(r)
    return rows, exh


def gen_mpe_rows(cfg, rs, tier):
    n = cfg.n
    rows = [[None] * n]
    for _ in range(12 if tier == "quick" else 40):
        rate = rs.choice([0.3, 0.6, 1.0, 0.0])
        rows.append([None if rs.rand() < rate else int(rs.randint(2)) for _ in range(n)])
    ys = [int(rs.randint(cfg.classes)) for _ in rows]
    return rows, ys


# ------------------------------------------------------------------------------------------------
# direct oracles on the implementation (also used when the tie breaks)
def hoeffding_eps(N, K, m):
    return math.sqrt(math.log(2 * K * m / DELTA) / (2 * N))


def direct_oracle(cfg, rs, tier, n_tests, want_sampling=True):
    """returns (failure dict or None, stats).  Bernoulli: total mass, marginals = sums over completions,
    all-NaN = 0, mpe/sample shape+domain+evidence, sample law (n<=6).  Gaussian: all-NaN = 0, quadrature
    marginal consistency, mpe/sample shape + evidence."""
    import torch
    n = cfg.n; m = cfg.m
    stats = dict(mass=0, marg=0, mpe=0, sample_rows=0, gof=0, state_dict_twins=0, half_leaf_models=0, gauss_sample_moments=0, dropout_models=0)
    with torch.no_grad():
        ll0 = m(torch.full((1, n), float("nan")))
    if not np.all(np.abs(ll0.numpy()) < 1e-4):
        return dict(what="all-NaN row does not have log-likelihood 0", input=[None] * n, impl=ll0.tolist()), stats
    if cfg.kind == "bern":
        allrows = [list(r) for r in itertools.product([0, 1], repeat=n)]
        L = np.exp(cfg.forward(allrows))                      # (2^n, classes)
        tot = L.sum(axis=0)
        stats["mass"] = len(allrows)
        if not np.all(np.abs(tot - 1) < 1e-4):
            return dict(what="class outputs do not sum to one over all inputs", total_mass=tot.tolist()), stats
        arr = np.array(allrows)
        for _ in range(6):
            pat = rs.rand(n) < rs.choice([0.3, 0.6])
            base = [int(rs.randint(2)) for _ in range(n)]
            row = [None if pat[v] else base[v] for v in range(n)]
            sel = np.all(arr[:, ~pat] == np.array(base)[~pat], axis=1) if (~pat).any() else np.ones(len(arr), bool)
            want = L[sel].sum(axis=0)
            got = np.exp(cfg.forward([row]))[0]
            stats["marg"] += 1
            if not np.all(np.abs(got - want) <= 2e-4 * want + 1e-12):
                return dict(what="NaN-marked input is not the sum over its completions", input=row,
                            impl=got.tolist(), sum_over_completions=want.tolist()), stats
    else:
        xs = np.linspace(-14, 14, 4001)
        for _ in range(3):
            v = int(rs.randint(n))
            base = [None if rs.rand() < 0.3 else int(rs.randint(len(GAUSS_POINTS))) for _ in range(n)]
            base[v] = None
            t = cfg.tensor([base] * len(xs)); t[:, v] = torch.tensor(xs, dtype=torch.float32)
            with torch.no_grad():
                dens = np.exp(m(t).double().numpy())
                want = np.exp(m(cfg.tensor([base])).double().numpy())[0]
            got = (dens[1:] + dens[:-1]).sum(axis=0) * (xs[1] - xs[0]) / 2
            stats["marg"] += 1
            if not np.all(np.abs(got - want) <= 2e-3 * want + 1e-30):
                return dict(what="Gaussian RAT-SPN: integral over one variable differs from the NaN marginal",
                            input=base, variable=v, quadrature=got.tolist(), impl_marginal=want.tolist()), stats
    # mpe
    rows, ys = gen_mpe_rows(cfg, rs, tier)
    if cfg.kind != "bern":
        rows = [[None if c is None else c for c in r] for r in rows]
    x = cfg.tensor(rows)
    try:
        with torch.no_grad():
            out = m.mpe(x.clone(), y=torch.tensor(ys))
    except Exception as e:
        return dict(what="mpe raised on an accepted architecture", error=f"{type(e).__name__}: {e}", rows=rows[:2]), stats
    stats["mpe"] = len(rows)
    bad = check_completion(cfg, x, out, "mpe")
    if bad:
        return bad, stats
    cfg.mpe_rows, cfg.mpe_ys, cfg.mpe_out = rows, ys, out.numpy()
    # leaves with p exactly 1/2 (uniform / zero-initialised logits): the mode is still a value of the domain
    if cfg.kind == "bern":
        from deeprob.spn.models.ratspn import BernoulliRatSpn
        h = BernoulliRatSpn(cfg.n, out_classes=cfg.classes, rg_depth=cfg.d, rg_repetitions=cfg.reps, rg_batch=cfg.batch,
                            rg_sum=cfg.sums, random_state=np.random.RandomState(cfg.seed + 3))
        with torch.no_grad():
            h.base_layer.logits.zero_()
        h.eval()
        try:
            with torch.no_grad():
                oh = h.mpe(x.clone(), y=torch.tensor(ys))
        except Exception as e:
            return dict(what="mpe raised on a model whose leaves have p = 1/2", error=f"{type(e).__name__}: {e}"), stats
        bad = check_completion(cfg, x, oh, "mpe (all leaves p = 1/2)")
        stats["half_leaf_models"] += 1
        if bad:
            bad["input"] = x[0].tolist(); bad["output"] = oh[0].tolist()
            return bad, stats
    # the dropout options (and uniform_loc for Gaussian leaves), evaluation mode: dropout is a training device, so the model is
    # still a normalised distribution — all-missing input scores 0, Bernoulli outputs sum to one over all inputs, two forward
    # passes agree, and a history forward; mpe; sample; forward leaves the model in evaluation mode with the same outputs
    from deeprob.spn.models.ratspn import GaussianRatSpn as _GR, BernoulliRatSpn as _BR
    torch.manual_seed(cfg.seed + 31)
    kw = dict(out_classes=cfg.classes, rg_depth=cfg.d, rg_repetitions=cfg.reps, rg_batch=cfg.batch, rg_sum=cfg.sums,
              in_dropout=0.3, sum_dropout=0.3, random_state=np.random.RandomState(cfg.seed + 7))
    dm = _BR(n, **kw) if cfg.kind == "bern" else _GR(n, uniform_loc=(-1.0, 1.0), **kw)
    dm.eval()
    xd = torch.tensor(rs.randint(0, 2, size=(5, n)).astype(np.float32)) if cfg.kind == "bern" else torch.tensor(rs.uniform(-1.5, 1.5, size=(5, n)).astype(np.float32))
    xh = xd.clone(); xh[torch.tensor(rs.rand(5, n) < 0.4)] = float("nan")
    with torch.no_grad():
        a0 = dm(xd).double().numpy(); a1 = dm(xd).double().numpy(); n0 = dm(torch.full((1, n), float("nan"))).double().numpy()
        tot_d = None
        if cfg.kind == "bern" and n <= 10:
            allr = torch.tensor(np.array(list(itertools.product([0.0, 1.0], repeat=n)), dtype=np.float32))
            tot_d = np.exp(dm(allr).double().numpy()).sum(axis=0)
        yk = torch.zeros(5, dtype=torch.long)
        dm.mpe(xh.clone(), y=yk); dm.sample(3, y=torch.zeros(3, dtype=torch.long))
        a2 = dm(xd).double().numpy()
    stats["dropout_models"] = stats.get("dropout_models", 0) + 1
    if (not np.all(np.abs(n0) < 1e-4) or not np.allclose(a0, a1, rtol=1e-6, atol=1e-6) or not np.allclose(a0, a2, rtol=1e-6, atol=1e-6)
            or dm.training or any(mod.training for mod in dm.modules()) or (tot_d is not None and not np.all(np.abs(tot_d - 1) < 1e-4))):
        return dict(what="model built with the dropout options, in evaluation mode: not a normalised distribution / outputs change between calls "
                         "or after mpe / sample / a sub-module left evaluation mode",
                    all_missing=n0.tolist(), first=a0.tolist(), second=a1.tolist(), after_mpe_and_sample=a2.tolist(),
                    total_mass=None if tot_d is None else tot_d.tolist(), still_eval=bool(not dm.training)), stats
    # a model reached through a checkpoint: a twin with the same architecture but another region graph, after
    # load_state_dict, IS the original model (same distribution), so it must answer every query identically
    bad = twin_after_load(cfg, x, ys, out)
    stats["state_dict_twins"] += 1
    if bad:
        return bad, stats
    # Gaussian leaves with scales other than one: the samples' per-feature mean and variance are those of the model's own
    # one-dimensional marginals (quadrature of exp(log-likelihood) with every other entry missing)
    if cfg.kind != "bern":
        from deeprob.spn.models.ratspn import GaussianRatSpn
        torch.manual_seed(cfg.seed + 23)
        gm = GaussianRatSpn(cfg.n, out_classes=cfg.classes, rg_depth=cfg.d, rg_repetitions=cfg.reps, rg_batch=cfg.batch,
                            rg_sum=cfg.sums, random_state=np.random.RandomState(cfg.seed + 5), optimize_scale=True)
        with torch.no_grad():
            gm.base_layer.scale.copy_(torch.tensor(rs.uniform(0.4, 1.6, size=tuple(gm.base_layer.scale.shape)), dtype=torch.float32))
            gm.base_layer.loc.copy_(torch.tensor(rs.uniform(-1.5, 1.5, size=tuple(gm.base_layer.loc.shape)), dtype=torch.float32))
        gm.eval()
        NS = 30000
        torch.manual_seed(cfg.seed + 29)
        with torch.no_grad():
            sg = gm.sample(NS, y=torch.zeros(NS, dtype=torch.long)).double().numpy()
        xs = np.linspace(-12, 12, 4801)
        for v in range(n):
            t = torch.full((len(xs), n), float("nan")); t[:, v] = torch.tensor(xs, dtype=torch.float32)
            with torch.no_grad():
                dens = np.exp(gm(t).double().numpy()[:, 0])
            w = dens * (xs[1] - xs[0])
            mean = float((w * xs).sum()); var = float((w * (xs - mean) ** 2).sum())
            sm, sv = float(sg[:, v].mean()), float(sg[:, v].var())
            stats["gauss_sample_moments"] += 1
            if abs(sm - mean) > 6 * math.sqrt(var / NS) + 1e-2 or abs(sv - var) > 0.1 * var + 1e-2:
                return dict(what="Gaussian RAT-SPN with learned scales: samples do not have the mean / variance of the model's marginal",
                            feature=v, model_mean=mean, model_variance=var, sample_mean=sm, sample_variance=sv, draws=NS), stats
    # sample
    N = 2000
    gof = want_sampling and cfg.kind == "bern" and n <= 6
    if gof:
        N = 100000 if tier == "quick" else 400000
    # with several classes the goodness-of-fit draws come from ONE call whose label vector mixes the classes in random order
    # (row i must follow the class y[i]); each class is then tested on its own rows
    mixed_y = None; s_all = None
    if gof and cfg.classes > 1:
        mixed_y = rs.randint(0, cfg.classes, size=N * cfg.classes)
        torch.manual_seed(cfg.seed + 3)
        try:
            with torch.no_grad():
                s_all = m.sample(len(mixed_y), y=torch.tensor(mixed_y, dtype=torch.long))
        except Exception as e:
            return dict(what="sample raised on an accepted architecture (mixed label vector)", error=f"{type(e).__name__}: {e}"), stats
        if tuple(s_all.shape) != (len(mixed_y), n):
            return dict(what="sample does not return one row per label", shape=list(s_all.shape)), stats
    for cls in range(cfg.classes if gof else 1):
        torch.manual_seed(cfg.seed + 17 * cls + 1)
        try:
            if s_all is not None:
                s = s_all[torch.tensor(mixed_y == cls)]; N = int(s.shape[0])
            else:
                with torch.no_grad():
                    s = m.sample(N, y=torch.full((N,), cls, dtype=torch.long))
        except Exception as e:
            return dict(what="sample raised on an accepted architecture", error=f"{type(e).__name__}: {e}"), stats
        stats["sample_rows"] += N
        if tuple(s.shape) != (N, n) or not bool(torch.isfinite(s).all()):
            return dict(what="sample does not return complete rows of the input width", shape=list(s.shape)), stats
        if cfg.kind == "bern":
            if not bool(((s == 0) | (s == 1)).all()):
                return dict(what="sample leaves the Bernoulli domain {0,1}"), stats
            if gof:
                codes = (s.numpy().astype(np.int64) * (2 ** np.arange(n - 1, -1, -1))).sum(axis=1)
                freq = np.bincount(codes, minlength=2 ** n) / N
                eps = hoeffding_eps(N, 2 ** n, n_tests) + 2e-4
                dev = np.abs(freq - L[:, cls])
                stats["gof"] += 1
                if dev.max() > eps:
                    j = int(dev.argmax())
                    return dict(what="samples do not follow the model's distribution (Hoeffding bound, delta=1e-9)",
                                cls=cls, cell=allrows[j], frequency=float(freq[j]), probability=float(L[j, cls]),
                                bound=eps, draws=N), stats
    return None, stats


def twin_after_load(cfg, x, ys, out):
    import torch
    from deeprob.spn.models.ratspn import BernoulliRatSpn, GaussianRatSpn
    cls_ = BernoulliRatSpn if cfg.kind == "bern" else GaussianRatSpn
    a = cfg.m
    try:
        b = cls_(cfg.n, out_classes=cfg.classes, rg_depth=cfg.d, rg_repetitions=cfg.reps, rg_batch=cfg.batch,
                 rg_sum=cfg.sums, random_state=np.random.RandomState(cfg.seed + 7919))
        b.load_state_dict(a.state_dict())
        b.eval()
        with torch.no_grad():
            la, lb = a(x), b(x)
            ob = b.mpe(x.clone(), y=torch.tensor(ys))
            torch.manual_seed(cfg.seed + 5); sa = a.sample(500, y=torch.zeros(500, dtype=torch.long))
            torch.manual_seed(cfg.seed + 5); sb = b.sample(500, y=torch.zeros(500, dtype=torch.long))
    except Exception as e:
        return dict(what="state_dict transfer to a same-architecture model raised", error=f"{type(e).__name__}: {e}")
    if not torch.allclose(la, lb, rtol=1e-5, atol=1e-6, equal_nan=True):
        return dict(what="model restored from state_dict gives different log-likelihoods")
    if not torch.equal(ob, out):
        j = int((ob != out).any(dim=1).nonzero()[0])
        return dict(what="model restored from state_dict answers MPE differently from the model it was loaded from "
                         "(same distribution, different completion)", row=x[j].tolist(), original=out[j].tolist(), restored=ob[j].tolist())
    if not torch.equal(sa, sb):
        return dict(what="model restored from state_dict samples differently from the original under the same generator state")
    return None


def check_completion(cfg, x, out, what):
    import torch
    n = cfg.n
    if tuple(out.shape) != tuple(x.shape):
        return dict(what=f"{what} does not return rows of the input width", shape=list(out.shape), expected=list(x.shape))
    if bool(torch.isnan(out).any()):
        return dict(what=f"{what} leaves NaN cells")
    obs = ~torch.isnan(x)
    if not bool((out[obs] == x[obs]).all()):
        return dict(what=f"{what} changed observed entries")
    if cfg.kind == "bern" and not bool(((out == 0) | (out == 1)).all()):
        return dict(what=f"{what} leaves the Bernoulli domain")
    return None


# ------------------------------------------------------------------------------------------------
def configs(rs, tier):
    """structure grid: every (features 2..12, depth <= log2 features, repetitions 1..3); the value grid
    (batch, sums, classes in 1..3) is sampled."""
    grid = [(n, d, r) for n in range(2, 13) for d in range(1, int(math.log2(n)) + 1) for r in (1, 2, 3)]
    out = []
    nper = 1 if tier == "quick" else 3
    for (n, d, r) in grid:
        for _ in range(nper):
            b, s, c = (int(rs.randint(1, 4)) for _ in range(3))
            out.append(Cfg(n, d, r, b, s, c, rs.randint(2 ** 31 - 1)))
    # corners of the value grid
    for (b, s, c) in [(1, 1, 1), (3, 3, 3), (1, 3, 2), (3, 1, 3)]:
        for (n, d, r) in [(2, 1, 1), (5, 2, 2), (7, 2, 1), (9, 3, 2), (12, 3, 3)]:
            out.append(Cfg(n, d, r, b, s, c, rs.randint(2 ** 31 - 1)))
    gauss = [(3, 1, 2, 2, 2, 2), (5, 2, 1, 2, 2, 1), (7, 2, 2, 2, 3, 2), (9, 3, 1, 2, 2, 1), (6, 2, 3, 3, 2, 3)]
    if tier == "thorough":
        gauss += [(n, d, 2, 2, 2, 2) for n in range(2, 13) for d in range(1, int(math.log2(n)) + 1)]
    for g in gauss:
        out.append(Cfg(*g, rs.randint(2 ** 31 - 1), kind="gauss"))
    return out


HEADER = ["From Coq Require Import List ZArith QArith Qcanon.",
          "From DV Require Import Model.Core Model.Leaves Model.QcInst Model.Rat Model.RatRun.",
          "Import ListNotations. Local Open Scope nat_scope."]


def scase_coq(cfg, st):
    return (f"(Build_scase {cfg.n} {cfg.d} {cfg.coq_perms()} {nat3(st['regions'])} {nat3(st['parts'])} "
            f"{st['pad']} {st['dim']} {nat2(st['mask'])} {bool2(st['padm'])} {nat2(st['inv'])} {bool2(st['ipm'])})")


def rcase_coq(cfg, st, rows, exh, impl, mrows, mys, mout):
    ws, wr = cfg.coq_weights()
    rl = C.coq_list([f"({rowlit(r)}, {C.coq_list([safe_q(math.exp(min(v, 50.0))) if math.isfinite(v) else '(q (-1) 1)' for v in ll])})"
                     for r, ll in zip(rows, impl)])
    ml = C.coq_list([f"({rowlit(r)}, {y}, {rowlit([None if not math.isfinite(v) else int(v) for v in o])})"
                     for r, y, o in zip(mrows, mys, mout)])
    return (f"(Build_rcase {cfg.n} {cfg.d} {cfg.classes} {cfg.coq_perms()} {cfg.coq_tabs()} {ws} {wr} "
            f"{'true' if cfg.kind == 'bern' else 'false'} {'true' if exh else 'false'} {rl} "
            f"{nat2(st['inv'])} {bool2(st['ipm'])} {ml})")


S_FLAGS = {1: "recorded permutations are not permutations of the model's regions", 2: "region layers differ",
           4: "partition layers are not the consecutive pairs of the next region layer", 8: "pad / dimension differ",
           16: "mask differs", 32: "pad_mask differs", 64: "inv_mask is not a sorting permutation of the flattened mask",
           128: "inv_pad_mask differs", 256: "unpad of the variable ids is not 0..n-1",
           512: "leaf region sizes outside {dimension-1, dimension} or empty"}


def main(tier, seed, replay=None):
    rep = C.Report(PID, tier, seed)
    rs = np.random.RandomState(seed % (2 ** 31))
    C.proof_stage(rep, PID)
    rep.cov["trusted_base"] += [
        "harness/c16.py: recording RandomState subclass (oracle permutations), reading of torch buffers/parameters into "
        "model literals, dyadic parameter generator (weights = log(k/64), logits = logit(k/16)), Hoeffding test, quadrature",
        "PyTorch kernels (indexing, gather, argsort, logsumexp, log_softmax, distributions) and float32 rounding "
        "(absorbed by the relative tolerance 2e-4 evaluated inside Coq)",
        "sampler law: C16_sample_measure proves that the modelled sampler's measure equals the model's value; the implementation's "
        "random draws are tied to that law statistically (Hoeffding, delta=1e-9), not proved (torch.distributions trusted)"]
    rep.assumptions += ["Gaussian leaf densities integrate to one (dens_normalised): values enter the model as oracle tables"]
    t_start = time.time()
    cfgs = configs(rs, tier)
    if replay:
        rp = json.load(open(replay))
        print("replay file:", replay); print(json.dumps(rp, indent=1)[:3000])
        k = rp.get("config")
        if k:
            cfgs = [Cfg(k["n"], k["depth"], k["reps"], k["batch"], k["sums"], k["classes"], k["seed"], k["kind"])]
    n_gof = sum(c.classes for c in cfgs if c.kind == "bern" and c.n <= 6)
    dist = dict(features={}, depth={}, padded=0, kinds={}, nan_cells={}, exhaustive_configs=0)
    built = []
    oracle_stats = dict(mass=0, marg=0, mpe=0, sample_rows=0, gof=0, state_dict_twins=0, half_leaf_models=0, gauss_sample_moments=0, dropout_models=0)
    n_viol = 0
    for cfg in cfgs:
        try:
            cfg.build()
            st = cfg.structure()
        except Exception as e:
            if n_viol < 5:
                rep.violation(dict(kind="constructor-raised-on-accepted-architecture", config=cfg.key(),
                                   error=f"{type(e).__name__}: {e}"), True)
            n_viol += 1
            continue
        crs = np.random.RandomState(cfg.seed)
        cfg.mpe_rows, cfg.mpe_ys, cfg.mpe_out = [], [], []
        bad, stt = direct_oracle(cfg, crs, tier, max(n_gof, 1))
        for k_, v_ in stt.items():
            oracle_stats[k_] += v_
        if bad:
            if n_viol < 5:
                rep.violation(dict(kind="direct-oracle", config=cfg.key(), failure=bad), True)
            n_viol += 1
        rows, exh = gen_rows(cfg, crs, tier)
        try:
            impl = cfg.forward(rows)
        except Exception as e:
            if n_viol < 5:
                rep.violation(dict(kind="forward-raised", config=cfg.key(), error=f"{type(e).__name__}: {e}"), True)
            n_viol += 1
            continue
        built.append((cfg, st, rows, exh, impl))
        dist["features"][cfg.n] = dist["features"].get(cfg.n, 0) + 1
        dist["depth"][cfg.d] = dist["depth"].get(cfg.d, 0) + 1
        dist["kinds"][cfg.kind] = dist["kinds"].get(cfg.kind, 0) + 1
        dist["padded"] += 1 if st["pad"] > 0 else 0
        dist["exhaustive_configs"] += 1 if exh else 0
        for r in rows:
            kk = sum(1 for v in r if v is None)
            dist["nan_cells"][kk] = dist["nan_cells"].get(kk, 0) + 1
    rep.cov["input_distribution"] = dist
    rep.cov["direct_oracle"] = oracle_stats
    rep.cov["configurations_failing_before_the_tie"] = n_viol
    # ---- E1 case files ----
    files = []
    sshard = 40
    for s in range(0, len(built), sshard):
        items = [scase_coq(cfg, st) for cfg, st, *_ in built[s:s + sshard]]
        files.append((f"struct_{s // sshard}", "\n".join(HEADER + ["Eval vm_compute in (map run_scase [" + ";\n".join(items) + "])."])))
    shards = []; cur = []; cur_rows = 0
    for i, (cfg, st, rows, exh, impl) in enumerate(built):
        if cur and cur_rows + len(rows) > (260 if tier == "quick" else 500):
            shards.append(cur); cur = []; cur_rows = 0
        cur.append(i); cur_rows += len(rows)
    if cur:
        shards.append(cur)
    for j, idxs in enumerate(shards):
        body = list(HEADER)
        for i in idxs:
            cfg, st, rows, exh, impl = built[i]
            mr = cfg.mpe_rows if cfg.kind == "bern" else []
            body.append(f"Definition c{i} := {rcase_coq(cfg, st, rows, exh, impl, mr, cfg.mpe_ys, cfg.mpe_out)}.")
        body.append("Eval vm_compute in (concat (map (fun c => (-1)%Z :: run_rcase c) " +
                    C.coq_list([f"c{i}" for i in idxs]) + ")).")
        files.append((f"rows_{j}", "\n".join(body)))
    res = C.run_case_files(PID, files) if files else []
    resd = {name: (rc, ints, raw) for name, rc, ints, raw in res}
    flagged = []
    # structure
    for s in range(0, len(built), sshard):
        name = f"struct_{s // sshard}"
        rc, ints, raw = resd[name]
        part = built[s:s + sshard]
        if rc != 0 or ints is None or len(ints) != len(part):
            rep.obligation(False)
            rep.violation(dict(kind="correspondence-shard-failed", shard=name, log=raw), False)
            continue
        rep.obligation(True)
        for (cfg, st, *_), code in zip(part, ints):
            rep.count(dict(s=cfg.key()), nontrivial=True)
            if code:
                flagged.append((cfg, "structure", code, [t for b, t in S_FLAGS.items() if code & b], None))
    # rows
    n_tie = 0; n_mpe = 0; n_fwd = 0
    for j, idxs in enumerate(shards):
        name = f"rows_{j}"
        rc, ints, raw = resd[name]
        if rc != 0 or ints is None:
            rep.obligation(False)
            rep.violation(dict(kind="correspondence-shard-failed", shard=name, log=raw), False)
            continue
        groups = []
        for z in ints:
            if z == -1:
                groups.append([])
            else:
                groups[-1].append(z)
        if len(groups) != len(idxs):
            rep.obligation(False)
            rep.violation(dict(kind="correspondence-shard-failed", shard=name, log=raw), False)
            continue
        rep.obligation(True)
        for i, codes in zip(idxs, groups):
            cfg, st, rows, exh, impl = built[i]
            hdr = codes[0]; sep = codes.index(-2)
            fcodes = codes[1:sep]; mcodes = codes[sep + 1:]
            if hdr:
                what = [t for b, t in {1: "generated weights not normalised (harness)", 2: "generated leaf tables not normalised (harness)",
                                       4: "model total mass over all complete rows is not 1",
                                       8: "inv_mask is not a sorting permutation"}.items() if hdr & b]
                flagged.append((cfg, "header", hdr, what, None))
            if len(fcodes) != len(rows):
                flagged.append((cfg, "row-count", -1, ["shape"], None)); continue
            for r, ll, code in zip(rows, impl, fcodes):
                n_fwd += 1
                rep.count(dict(c=cfg.key(), r=r), nontrivial=any(v is not None for v in r))
                if code:
                    flagged.append((cfg, "forward", code, ["forward differs from the model"], dict(row=r, impl_ll=ll.tolist())))
            for r, y, o, code in zip(cfg.mpe_rows, cfg.mpe_ys, cfg.mpe_out, mcodes):
                n_mpe += 1
                if code == 16:
                    n_tie += 1; continue
                rep.count(dict(c=cfg.key(), m=r, y=y), nontrivial=any(v is None for v in r))
                if code:
                    flagged.append((cfg, "mpe", code, ["mpe row differs from the model's top-down argmax completion"],
                                    dict(row=r, y=y, impl=[float(v) for v in o])))
    rep.cov["forward_rows"] = n_fwd; rep.cov["mpe_rows"] = n_mpe; rep.cov["mpe_numerical_ties_excluded"] = n_tie
    for cfg, st, rows, exh, impl in built[:1] + built[len(built) // 2:len(built) // 2 + 1] + built[-1:]:
        rep.sample(dict(config=cfg.key(), leaf_regions=st["regions"][-1], pad=st["pad"], dimension=st["dim"],
                        first_row=rows[0], impl_ll=impl[0].tolist()))
    seen_cfg = set()
    for cfg, stage, code, what, extra in flagged:
        kk = (json.dumps(cfg.key()), stage)
        if kk in seen_cfg or len(seen_cfg) >= 6:
            continue
        seen_cfg.add(kk)
        crs = np.random.RandomState(cfg.seed + 1)
        try:
            bad, _ = direct_oracle(cfg, crs, tier, max(n_gof, 1))
        except Exception as e:
            bad = dict(what="direct oracle raised", error=f"{type(e).__name__}: {e}")
        info = dict(kind="model-implementation-disagreement", stage=stage, flags=code, meaning=what, config=cfg.key(),
                    detail=extra, direct_oracle=bad, structure=cfg.structure() if stage == "structure" else None)
        # the disagreeing row / buffer is itself a concrete input on which the implementation departs from the model
        rep.violation(info, found_input=True)
    rep.cov["rule"] = (
        "every (features 2..12, depth 1..floor(log2 features), repetitions 1..3) with batch/sums/classes drawn from 1..3 "
        "(plus corner combinations), Bernoulli leaves with p=k/16, sum weights k/64, root weights k/128 (exact dyadics), random "
        "region-graph permutations recorded from the constructor; Gaussian configurations with dyadic means, unit scale, 4 test points; "
        "per configuration: structure case (region/partition layers, pad, dimension, mask, pad_mask, inv_mask validity, inv_pad_mask), "
        "forward rows = all 3^n NaN patterns (n<=4) or all 2^n complete rows (n<=7 quick / 8 thorough) plus random NaN patterns, "
        "mpe rows with random evidence and class; direct oracles on the implementation: total mass over all 2^n inputs, marginal = sum of "
        "completions, all-NaN = 0, completion shape/domain/evidence, sampling GOF (n<=6, Hoeffding delta=1e-9); "
        "one evaluation = one structure case or one (configuration, row) compared inside Coq; distinct by hash")
    rep.cov["wall_build_and_oracle_s"] = round(time.time() - t_start, 1)
    C.clean_gen(PID)
    return rep.finish("proof")
