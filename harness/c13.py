"""C13 — JSON save/load round trip preserves structure and parameters.
Proof: Properties/C13.v (structural round trip of the node-link conversion for every circuit, round8
bound / idempotence, guards after rounding, Chow-Liu tree round trip, refuted pinned behaviours).
Tie (engine E1): hand-built and learned circuits over every leaf family (incl. degenerate fits) and
Chow-Liu trees are saved with the implementation (file object / path, 3 generations); the JSON TEXT
is parsed into the model's graph type and compared with Model/Json.v:spn_to_graph, the loaded OBJECT is
compared with graph_to_spn of that text, and the property clause itself (loaded = original with
round8 parameters, single precision) is evaluated inside Coq.  Direct oracle: log-likelihoods of the
original and the loaded model on random rows away from density discontinuities."""
import io, json, os, shutil, math, itertools
from collections import deque
from fractions import Fraction
import numpy as np
from . import common as C

PID = "C13"
MY_FILES = ["Model/Json.v", "Model/JsonRun.v", "Proofs/JsonFacts.v", "Proofs/Round8Facts.v"]
WORK = os.path.join(C.ROOT, "work", PID)

PARAM_KEYS = dict(Bernoulli=["p"], Categorical=["categories", "probabilities"], Isotonic=["densities", "breaks"],
                  Uniform=["start", "width"], Gaussian=["mean", "stddev"], BinaryCLT=["root", "tree", "params"])
CLASS_COQ = dict(Bernoulli="CBernoulli", Categorical="CCategorical", Isotonic="CIsotonic", Uniform="CUniform",
                 Gaussian="CGaussian", BinaryCLT="CBinaryCLT")


XPC_KEY = "xpc-det-numpy-int-param"


class Unsupported(Exception):
    pass


# ------------------------------------------------------------------ object -> description
def topo(root):
    """node.topological_order re-implemented (Kahn from the root, children in list order)."""
    seen = {id(root)}; q = deque([root]); order = []
    nout = {id(root): 0}
    while q:
        n = q.popleft(); order.append(n)
        for c in n.children:
            if c is None:
                continue
            nout[id(c)] = nout.get(id(c), 0) + 1
            if id(c) not in seen:
                seen.add(id(c)); q.append(c)
    out = []; q = deque([root])
    while q:
        n = q.popleft(); out.append(n)
        for c in n.children:
            if c is None:
                continue
            nout[id(c)] -= 1
            if nout[id(c)] == 0:
                q.append(c)
    return out


def pval(v):
    """a params_dict value as the JSON value the format stores BEFORE rounding (exact)."""
    if v is None:
        return None
    if isinstance(v, (bool, np.bool_)):
        raise Unsupported("bool parameter")
    if isinstance(v, np.ndarray):
        if v.dtype.kind == "f":
            return _nest(v.astype(np.float64), lambda x: Fraction(float(x)))
        if v.dtype.kind in "iu":
            return _nest(v, int)
        raise Unsupported(f"array dtype {v.dtype}")
    if isinstance(v, (np.floating, float)):
        if not math.isfinite(float(v)):
            raise Unsupported("non-finite parameter")
        return Fraction(float(v))
    if isinstance(v, (int, np.integer)):
        return int(v)
    raise Unsupported(f"parameter of type {type(v).__name__}")


def _nest(a, f):
    if a.ndim == 0:
        return f(a.item())
    if a.ndim == 1:
        out = [f(x) for x in a.tolist()]
        if any(isinstance(x, Fraction) is False and isinstance(x, int) is False for x in out):
            raise Unsupported("bad array entry")
        return out
    return [_nest(x, f) for x in a]


def describe(root, order=None):
    """list of node descriptions in topological order (or in the given id order for loaded objects)."""
    from deeprob.spn.structure.node import Sum, Product
    nodes = topo(root)
    if order is not None:
        by_id = {}
        for n in nodes:
            by_id.setdefault(n.id, n)
        if sorted(by_id) != sorted(order) or len(by_id) != len(nodes):
            raise Unsupported(f"loaded object has ids {sorted(by_id)[:20]} for JSON ids {sorted(order)[:20]}")
        nodes = [by_id[i] for i in order]
    out = []
    for n in nodes:
        d = dict(id=int(n.id), scope=[int(v) for v in n.scope],
                 kids=[None if c is None else int(c.id) for c in n.children])
        if isinstance(n, Sum):
            d["cls"] = "Sum"
            w = np.asarray(n.weights, dtype=np.float64)
            if not np.all(np.isfinite(w)):
                raise Unsupported("non-finite weight")
            d["ws"] = [Fraction(float(x)) for x in w.tolist()]
        elif isinstance(n, Product):
            d["cls"] = "Product"
        else:
            cls = type(n).__name__
            if cls not in PARAM_KEYS:
                raise Unsupported(f"leaf class {cls}")
            pd = n.params_dict()
            if list(pd.keys()) != PARAM_KEYS[cls]:
                raise Unsupported(f"params_dict keys of {cls}: {list(pd.keys())}")
            d["cls"] = cls
            d["params"] = [pval(pd[k]) for k in PARAM_KEYS[cls]]
        out.append(d)
    return out


def describe_clt(c):
    tree = [int(t) for t in np.asarray(c.tree).tolist()]
    params = np.asarray(c.params)
    if params.dtype.kind != "f":
        raise Unsupported("CLT params dtype")
    return dict(scope=[int(v) for v in c.scope], tree=tree,
                params=[_nest(params[i].astype(np.float64), lambda x: Fraction(float(x))) for i in range(len(tree))])


# ------------------------------------------------------------------ JSON text -> description
def _pf(s):
    return Fraction(s)


def _bad_const(s):
    raise Unsupported(f"JSON constant {s}")


def parse_spn_json(text):
    o = json.loads(text, parse_float=_pf, parse_constant=_bad_const)
    ek = "edges" if "edges" in o else "links"
    if not (o.get("directed") is True and o.get("multigraph") is False):
        raise Unsupported("not a simple directed node-link document")
    nodes = []
    for nd in o["nodes"]:
        cls = nd["class"]
        d = dict(id=nd["id"], scope=nd["scope"], cls=cls)
        if cls == "Sum":
            if list(nd.keys()) != ["class", "scope", "weights", "id"]:
                raise Unsupported(f"Sum node keys {list(nd.keys())}")
            d["ws"] = nd["weights"]
        elif cls == "Product":
            if list(nd.keys()) != ["class", "scope", "id"]:
                raise Unsupported(f"Product node keys {list(nd.keys())}")
        else:
            if cls not in PARAM_KEYS or list(nd.keys()) != ["class", "scope", "params", "id"] or \
                    list(nd["params"].keys()) != PARAM_KEYS[cls]:
                raise Unsupported(f"leaf node keys {list(nd.keys())} / {list(nd.get('params', {}).keys())}")
            d["params"] = [nd["params"][k] for k in PARAM_KEYS[cls]]
        if not (isinstance(d["id"], int) and isinstance(d["scope"], list) and all(isinstance(v, int) and v >= 0 for v in d["scope"])):
            raise Unsupported("id/scope are not non-negative integers")
        nodes.append(d)
    edges = []
    for e in o[ek]:
        if sorted(e.keys()) != ["idx", "source", "target"]:
            raise Unsupported(f"edge keys {sorted(e.keys())}")
        edges.append((e["source"], e["target"], e["idx"]))
    return dict(nodes=nodes, edges=edges)


def parse_clt_json(text):
    o = json.loads(text, parse_float=_pf, parse_constant=_bad_const)
    ek = "edges" if "edges" in o else "links"
    nodes = []
    for nd in o["nodes"]:
        if list(nd.keys()) != ["scope", "weight", "id"] or not isinstance(nd["scope"], int):
            raise Unsupported(f"CLT node {list(nd.keys())}")
        nodes.append((nd["id"], nd["scope"], nd["weight"]))
    edges = []
    for e in o[ek]:
        if sorted(e.keys()) != ["source", "target"]:
            raise Unsupported(f"CLT edge keys {sorted(e.keys())}")
        edges.append((e["source"], e["target"]))
    return dict(nodes=nodes, edges=edges)


# ------------------------------------------------------------------ description -> Coq literal
def qq(f):
    f = Fraction(f)
    n = f.numerator
    return f"(qq ({n}) {f.denominator})" if n < 0 else f"(qq {n} {f.denominator})"


def jv(v, force_num=False):
    if v is None:
        return "JNull"
    if isinstance(v, bool):
        raise Unsupported("bool in JSON")
    if isinstance(v, int):
        return f"(JInt {C.zlit(v)})"
    if isinstance(v, Fraction):
        return f"(JNum {qq(v)})"
    if isinstance(v, list):
        return "(JArr [" + "; ".join(jv(x) for x in v) + "])"
    raise Unsupported(f"JSON value of type {type(v).__name__}")


def kind_coq(d):
    if d["cls"] == "Sum":
        ws = d["ws"]
        if not isinstance(ws, list) or not all(isinstance(w, (Fraction, int)) and not isinstance(w, bool) for w in ws):
            raise Unsupported("weights are not a list of numbers")
        return "(SSum [" + "; ".join(qq(w) for w in ws) + "])"
    if d["cls"] == "Product":
        return "SProd"
    return f"(SLeaf {CLASS_COQ[d['cls']]} [" + "; ".join(jv(p) for p in d["params"]) + "])"


def snode_coq(d):
    if any(k is None for k in d["kids"]):
        raise Unsupported("original object has a None child")
    return f"Build_snode {d['id']}%nat {kind_coq(d)} {C.natlist(d['scope'])} {C.natlist(d['kids'])}"


def lnode_coq(d):
    kids = "[" + "; ".join("None" if k is None else f"Some {k}%nat" for k in d["kids"]) + "]"
    return f"Build_lnode {d['id']}%nat {kind_coq(d)} {C.natlist(d['scope'])} {kids}"


def graph_coq(g):
    ns = "; ".join(f"({d['id']}%nat, ({kind_coq(d)}, {C.natlist(d['scope'])}))" for d in g["nodes"])
    es = "; ".join(f"(({s}%nat, {t}%nat), {i}%nat)" for s, t, i in g["edges"])
    return f"(Build_graph [{ns}] [{es}])"


def cltj_coq(d):
    tree = "[" + "; ".join("None" if t < 0 else f"Some {t}%nat" for t in d["tree"]) + "]"
    return f"(Build_cltj {C.natlist(d['scope'])} {tree} [" + "; ".join(jv(p) for p in d["params"]) + "])"


def cgraph_coq(g):
    ns = "; ".join(f"({i}%nat, ({s}%nat, {jv(w)}))" for i, s, w in g["nodes"])
    es = "; ".join(f"({s}%nat, {t}%nat)" for s, t in g["edges"])
    return f"(Build_cgraph [{ns}] [{es}])"


EMPTY_GRAPH = "(Build_graph [] [])"
EMPTY_CGRAPH = "(Build_cgraph [] [])"
EMPTY_CLTJ = "(Build_cltj [] [] [])"
B = {True: "true", False: "false"}


# ------------------------------------------------------------------ generators
def rand_probs(rs, k, mode):
    if mode == "dyadic":
        from .circuits import dyadic_weights
        return np.array(dyadic_weights(rs, k, 5), dtype=np.float32)
    if mode == "dirichlet":
        w = rs.dirichlet(np.ones(k) * float(rs.choice([0.3, 1.0, 5.0]))).astype(np.float32)
        w = np.maximum(w, np.float32(1e-6))
        return (w / w.sum(dtype=np.float64)).astype(np.float32)
    # ties of the rounding (odd multiples of 2^-9 = 0.001953125 are exactly half way at 8 decimals)
    parts = rs.multinomial(512 - k, np.ones(k) / k) + 1
    return (parts / 512.0).astype(np.float32)


def rand_leaf13(rs, v, kind, mode):
    from deeprob.spn.structure.leaf import Bernoulli, Categorical, Gaussian, Uniform, Isotonic
    if kind == "bern":
        p = float(rs.randint(0, 513) / 512.0) if mode != "dirichlet" else float(rs.rand())
        if rs.rand() < 0.1:
            p = float(rs.choice([0.0, 1.0]))
        return Bernoulli(v, p)
    if kind == "cat":
        k = int(rs.randint(2, 6))
        return Categorical(v, list(range(k)), rand_probs(rs, k, mode).tolist())
    if kind == "gauss":
        if mode == "dyadic":
            return Gaussian(v, float(rs.randint(-8, 9) / 4.0), float(rs.randint(1, 9) / 4.0))
        return Gaussian(v, float(rs.randn() * 10 ** rs.randint(-2, 3)), float(10 ** rs.uniform(-5, 1)) + 1e-5)
    if kind == "unif":
        if mode == "dyadic":
            return Uniform(v, float(rs.randint(-8, 9) / 4.0), float(rs.randint(1, 9) / 2.0))
        return Uniform(v, float(rs.randn() * 3), float(rs.uniform(0.01, 5)))
    if kind == "iso":
        k = int(rs.randint(1, 6))
        start = float(rs.randint(-4, 5)) if mode == "dyadic" else float(rs.randn())
        widths = rs.randint(1, 4, size=k) / 2.0 if mode == "dyadic" else rs.uniform(0.05, 2.0, size=k)
        breaks = np.concatenate([[start], start + np.cumsum(widths)]).astype(np.float32)
        return Isotonic(v, rand_probs(rs, k, mode), breaks)
    raise ValueError(kind)


def rand_clt13(rs, scope, mode, as_leaf=True):
    from deeprob.spn.structure.cltree import BinaryCLT
    n = len(scope)
    order = list(rs.permutation(n)); tree = [-1] * n
    for k in range(1, n):
        tree[order[k]] = int(order[rs.randint(0, k)])
    if mode == "dyadic":
        p = rs.randint(1, 16, size=(n, 2)) / 16.0
    else:
        p = np.clip(rs.rand(n, 2), 1e-4, 1 - 1e-4)
    params = np.zeros((n, 2, 2)); params[:, :, 1] = p; params[:, :, 0] = 1 - p
    r = tree.index(-1); params[r, 1] = params[r, 0]
    return BinaryCLT(list(scope), tree=tree, params=np.log(params).tolist())


def rand_circuit13(rs, scope, mode, kinds, clt=0.2, share=0.3, depth=0, pool=None, kind_of=None):
    from deeprob.spn.structure.node import Sum, Product
    pool = {} if pool is None else pool
    kind_of = {} if kind_of is None else kind_of
    key = tuple(sorted(scope))
    if key in pool and rs.rand() < share:
        return pool[key][rs.randint(len(pool[key]))]
    for v in scope:
        kind_of.setdefault(v, kinds[rs.randint(len(kinds))])
    binary = all(kind_of[v] == "bern" for v in scope)
    if len(scope) == 1 and (depth >= 2 or rs.rand() < 0.5):
        n = rand_leaf13(rs, scope[0], kind_of[scope[0]], mode)
    elif len(scope) >= 2 and binary and rs.rand() < clt:
        n = rand_clt13(rs, scope, mode)
    elif depth >= 4 and len(scope) > 1:
        n = Product(children=[rand_circuit13(rs, [v], mode, kinds, clt, share, depth + 1, pool, kind_of) for v in scope])
    elif rs.rand() < 0.45 or len(scope) == 1:
        k = int(rs.randint(1, 5)) if depth < 3 else 1
        ch = [rand_circuit13(rs, scope, mode, kinds, clt, share, depth + 1, pool, kind_of) for _ in range(k)]
        if len(set(map(id, ch))) != len(ch):                  # no parent lists one child twice here
            ch = list({id(c): c for c in ch}.values()); k = len(ch)
        n = Sum(children=ch, weights=rand_probs(rs, k, mode))
    else:
        perm = [int(v) for v in rs.permutation(scope)]
        k = int(rs.randint(2, min(3, len(scope)) + 1))
        cuts = sorted(rs.choice(range(1, len(scope)), size=k - 1, replace=False).tolist())
        parts = [perm[i:j] for i, j in zip([0] + cuts, cuts + [len(scope)])]
        n = Product(children=[rand_circuit13(rs, p, mode, kinds, clt, share, depth + 1, pool, kind_of) for p in parts])
    pool.setdefault(key, []).append(n)
    return n


def learned_streams(rs, tier):
    """(tag, builder) pairs; every builder returns a circuit learned by the library."""
    from deeprob.spn.structure.leaf import Bernoulli, Categorical, Gaussian, Uniform, Isotonic
    from deeprob.spn.learning.learnspn import learn_spn
    from deeprob.spn.learning.wrappers import learn_estimator
    from deeprob.spn.learning.xpc import learn_xpc
    out = []
    nrep = 2 if tier == "quick" else 10

    def bin_data(n, d, const=()):
        z = rs.rand(n, 1) < 0.5
        x = (rs.rand(n, d) < np.where(z, 0.2, 0.75)).astype(np.float32)
        for c in const:
            x[:, c] = float(rs.randint(2))
        return x

    def mixed_data(n, dists, const=()):
        z = rs.randint(0, 2, size=n)
        cols = []
        for j, d in enumerate(dists):
            if d is Bernoulli:
                col = (rs.rand(n) < np.where(z == 0, 0.2, 0.8)).astype(np.float32)
            elif d is Categorical:
                col = ((rs.randint(0, 3, size=n) + z) % 4).astype(np.float32)
            else:
                col = (rs.randn(n) * (0.5 + j) + 3.0 * z + j).astype(np.float32)
            if j in const:
                col = np.full(n, float(col[0]), dtype=np.float32)
            cols.append(col)
        return np.stack(cols, axis=1)

    for r in range(nrep):
        for learn_leaf, kw in (("mle", None), ("binary-clt", dict(to_pc=False)), ("binary-clt", dict(to_pc=True))):
            for const in ((), (1,)):
                def b(learn_leaf=learn_leaf, kw=kw, const=const, seed=int(rs.randint(1 << 30))):
                    d = 5
                    x = bin_data(240, d, const)
                    return learn_spn(x, [Bernoulli] * d, [[0, 1]] * d, learn_leaf=learn_leaf, learn_leaf_kwargs=kw,
                                     split_rows="kmeans", split_cols="rdc", min_rows_slice=60, random_state=seed, verbose=False)
                out.append((f"learnspn:{learn_leaf}{'' if not kw else ':pc' if kw['to_pc'] else ':clt'}{':const' if const else ''}", b))
        for dists, learn_leaf in (([Bernoulli, Categorical, Gaussian, Gaussian], "mle"),
                                  ([Categorical, Uniform, Gaussian, Uniform], "mle"),
                                  ([Bernoulli, Isotonic, Isotonic, Categorical], "isotonic"),
                                  ([Gaussian, Isotonic, Uniform, Bernoulli], "mle")):
            for const in ((), (1, 2)):
                def b(dists=dists, learn_leaf=learn_leaf, const=const, seed=int(rs.randint(1 << 30))):
                    from deeprob.spn.learning.wrappers import compute_data_domains
                    x = mixed_data(260, dists, const)
                    doms = compute_data_domains(x, dists)
                    return learn_spn(x, dists, doms, learn_leaf=learn_leaf, split_rows="kmeans", split_cols="random",
                                     min_rows_slice=70, random_state=seed, verbose=False)
                out.append((f"learnspn:{learn_leaf}:{'/'.join(d.__name__[:3] for d in dists)}{':const' if const else ''}", b))
        for det, sd in ((False, False), (True, True), (False, True)):
            def b(det=det, sd=sd, seed=int(rs.randint(1 << 30))):
                x = bin_data(300, 6)
                root, _ = learn_xpc(x, det=det, sd=sd, min_part_inst=40, conj_len=2, arity=2, n_max_parts=12, random_seed=seed)
                return root
            out.append((f"xpc:det={det}:sd={sd}", b))
        def b(seed=int(rs.randint(1 << 30))):
            x = bin_data(200, 4)
            return learn_estimator(x, [Bernoulli] * 4, [[0, 1]] * 4, method="learnspn", min_rows_slice=64, random_state=seed, verbose=False)
        out.append(("learn_estimator", b))
    return out


def circuit_inputs(rs, tier):
    from deeprob.spn.structure.node import Sum, Product, assign_ids
    from deeprob.spn.structure.leaf import Bernoulli, Categorical, Gaussian, Uniform, Isotonic
    from deeprob.spn.structure.cltree import BinaryCLT
    items = []   # (tag, root)
    errors = []
    n_hand = 36 if tier == "quick" else 800
    kind_sets = [("bern",), ("bern", "cat"), ("bern", "cat", "gauss", "unif", "iso"), ("gauss", "unif", "iso"), ("cat", "iso")]
    for i in range(n_hand):
        mode = ("dyadic", "dirichlet", "ties")[i % 3]
        kinds = kind_sets[i % len(kind_sets)]
        nv = int(rs.randint(1, 6 if tier == "quick" else 8))
        scope = sorted(int(v) for v in rs.choice(nv + 3, size=nv, replace=False))
        root = rand_circuit13(rs, scope, mode, kinds)
        assign_ids(root)
        items.append((f"hand:{mode}", root))
    # single leaves, boundary parameters, unfitted leaves, integer-valued parameter
    specials = [
        ("special:gauss-min-sigma", lambda: Gaussian(0, 0.5, 1e-5)),
        ("special:gauss-fit-constant", lambda: _fit(Gaussian(0), np.full((30, 1), 2.5, np.float32), (2.5, 2.5))),
        ("special:bern-0", lambda: Bernoulli(3, 0.0)),
        ("special:bern-int", lambda: Bernoulli(1, 1)),
        ("special:cat-unfitted", lambda: Product(children=[Categorical(0), Bernoulli(1, 0.25)])),
        ("special:iso-unfitted", lambda: Product(children=[Isotonic(0), Bernoulli(1, 0.25)])),
        ("special:clt-unfitted", lambda: Product(children=[BinaryCLT([0, 2], root=2), Bernoulli(1, 0.25)])),
        ("special:uniform-fit-constant", lambda: _fit(Uniform(0), np.full((30, 1), 1.25, np.float32), (1.25, 1.25))),
        ("special:iso-fit-constant", lambda: _fit(Isotonic(0), np.full((30, 1), 1.25, np.float32), (1.25, 1.25))),
        ("special:cat-fit-constant", lambda: _fit(Categorical(0), np.full((30, 1), 2, np.float32), [0, 1, 2, 3])),
        ("special:bern-fit-constant", lambda: _fit(Bernoulli(0), np.zeros((30, 1), np.float32), [0, 1])),
        ("special:sum-2000", lambda: Sum(children=[Bernoulli(0, (i % 97) / 97.0) for i in range(200)],
                                         weights=np.full(200, 1 / 200, np.float32))),
        ("special:float64-weights", lambda: Sum(children=[Bernoulli(0, 0.1), Bernoulli(0, 0.7), Bernoulli(0, 0.3)],
                                                weights=np.array([1 / 3, 1 / 3, 1 / 3], dtype=np.float64))),
        ("special:clt-fit", lambda: _fitclt(rs, 5)),
        ("special:clt-fit-constant", lambda: _fitclt(rs, 4, const=(2,))),
        ("special:clt-to-pc", lambda: _fitclt(rs, 4).to_pc()),
        ("special:wide-product", lambda: Product(children=[Bernoulli(i, 0.5) for i in range(40)])),
    ]
    for tag, f in specials:
        try:
            root = f(); assign_ids(root)
            items.append((tag, root))
        except Exception as e:   # construction is the library's business; the property is about what it CAN build
            errors.append((tag, f"{type(e).__name__}: {e}"))
    for tag, f in learned_streams(rs, tier):
        try:
            items.append((tag, f()))
        except Exception as e:
            errors.append((tag, f"{type(e).__name__}: {e}"))
    return items, errors


def _fit(leaf, data, domain):
    leaf.fit(data, domain)
    return leaf


def _fitclt(rs, d, const=()):
    from deeprob.spn.structure.cltree import BinaryCLT
    z = rs.rand(200, 1) < 0.5
    x = (rs.rand(200, d) < np.where(z, 0.2, 0.75)).astype(np.float32)
    for c in const:
        x[:, c] = 1.0
    c = BinaryCLT(list(range(d)))
    c.fit(x, [[0, 1]] * d, random_state=int(rs.randint(1 << 30)))
    return c


def clt_inputs(rs, tier):
    items = []
    n = 24 if tier == "quick" else 200
    for i in range(n):
        mode = ("dyadic", "dirichlet")[i % 2]
        d = int(rs.randint(1, 9))
        scope = sorted(int(v) for v in rs.choice(d + 3, size=d, replace=False))
        items.append((f"clt:{mode}", rand_clt13(rs, scope, mode)))
    for i in range(4 if tier == "quick" else 30):
        items.append(("clt:fit", _fitclt(rs, int(rs.randint(2, 8)))))
    items.append(("clt:fit-constant", _fitclt(rs, 4, const=(0, 3))))
    return items


# ------------------------------------------------------------------ running the implementation
def save_to(saver, obj, target, path):
    """returns (text or None, error or None)"""
    try:
        if target == "fileobj":
            f = io.StringIO(); saver(obj, f); return f.getvalue(), None
        p = path if target == "str" else __import__("pathlib").Path(path)
        saver(obj, p)
        with open(path, encoding="utf-8") as f:
            return f.read(), None
    except Exception as e:
        return None, f"{type(e).__name__}: {e}"


def load_from(loader, text, target, path):
    try:
        if target == "fileobj":
            return loader(io.StringIO(text)), None
        with open(path, "w", encoding="utf-8") as f:
            f.write(text)
        p = path if target == "str" else __import__("pathlib").Path(path)
        return loader(p), None
    except Exception as e:
        return None, f"{type(e).__name__}: {e}"


TARGETS = ["fileobj", "str", "pathlike"]


def load_from_streams(loader, text):
    """the same text through two more kinds of file object (round 8): a stream positioned AFTER a header that precedes the model, and
    a stream that cannot seek (a pipe).  A file-object target is read from where it stands.  Returns an error text or None."""
    import threading
    try:
        head = "# model follows\n"
        f = io.StringIO(head + text); f.seek(len(head))
        loader(f)
    except Exception as e:
        return f"[file object positioned after a header line] {type(e).__name__}: {e}"
    try:
        r, w = os.pipe()
        def feed():
            with os.fdopen(w, "w", encoding="utf-8") as fw:
                fw.write(text)
        th = threading.Thread(target=feed); th.start()
        try:
            with os.fdopen(r, "r", encoding="utf-8") as fr:
                loader(fr)
        finally:
            th.join()
    except Exception as e:
        return f"[non-seekable file object (pipe)] {type(e).__name__}: {e}"
    return None


def generations(kind, obj, ngen, k0, tag):
    """run ngen save/load generations; returns list of per-generation records."""
    from deeprob.spn.structure.io import save_spn_json, load_spn_json, save_binary_clt_json, load_binary_clt_json
    saver, loader = (save_spn_json, load_spn_json) if kind == "spn" else (save_binary_clt_json, load_binary_clt_json)
    recs = []
    cur = obj
    for g in range(ngen):
        target = TARGETS[(k0 + g) % 3]
        path = os.path.join(WORK, f"m{k0}_{g}.json")
        text, serr = save_to(saver, cur, target, path)
        loaded, lerr = (None, None)
        if text is not None:
            loaded, lerr = load_from(loader, text, TARGETS[(k0 + g + 1) % 3], path + ".in")
            if loaded is not None and g == 0:
                serr2 = load_from_streams(loader, text)
                if serr2:
                    loaded, lerr = None, serr2
        recs.append(dict(kind=kind, tag=tag, gen=g, target=target, orig=cur, text=text, save_error=serr,
                         loaded=loaded, load_error=lerr))
        if loaded is None:
            break
        cur = loaded
    return recs


def custom_leaf_stage(rep, rs, tier):
    """user-defined leaf classes (the loader's `leaves=` option): circuits containing a custom leaf, and circuits of built-in
    leaves loaded with the option given anyway, through several save / load generations IN ONE PROCESS — every load succeeds
    and yields the same classes, parameters and log-likelihoods."""
    from deeprob.spn.structure.leaf import Bernoulli
    from deeprob.spn.structure.node import Sum, Product, assign_ids
    from deeprob.spn.structure.io import save_spn_json, load_spn_json
    from deeprob.spn.algorithms.inference import log_likelihood
    from . import circuits as G
    Custom = type("HarnessBernoulli", (Bernoulli,), {})
    Other = type("HarnessBernoulliB", (Bernoulli,), {})
    nbad = 0; done = 0
    for i in range(4 if tier == "quick" else 24):
        k = int(rs.randint(2, 4))
        mk = (lambda v: Custom(v, float(rs.randint(1, 16) / 16.0))) if i % 2 == 0 else (lambda v: Bernoulli(v, float(rs.randint(1, 16) / 16.0)))
        root = Sum(children=[Product(children=[mk(0), Bernoulli(1, float(rs.randint(1, 16) / 16.0)), (Other if i % 4 == 0 else Bernoulli)(2, 0.25)])
                             for _ in range(k)], weights=G.dyadic_weights(rs, k))
        assign_ids(root)
        X = np.array(list(itertools.product([0, 1], repeat=3)) + [[np.nan, 1, 0]], dtype=np.float32)
        ref = log_likelihood(root, X).reshape(-1)
        want = [type(o).__name__ for o in G.post_order(root)]
        cur = root; problem = None
        try:
            for gen in range(3):
                f = io.StringIO(); save_spn_json(cur, f)
                for again in range(2):                      # the same text is also loaded twice
                    f.seek(0)
                    cur = load_spn_json(f, leaves=[Custom, Other])
                    got = [type(o).__name__ for o in G.post_order(cur)]
                    ll = log_likelihood(cur, X).reshape(-1)
                    if got != want or not np.allclose(ll, ref, rtol=1e-5, atol=1e-6):
                        problem = dict(what="loaded circuit differs (classes or log-likelihoods)", generation=gen + 1, load=again + 1, classes=got, expected=want)
                        break
                if problem:
                    break
        except Exception as e:
            problem = dict(what="save / load with custom leaf classes raised", generation=gen + 1, load=again + 1, error=f"{type(e).__name__}: {e}")
        done += 1
        if problem:
            nbad += 1
            if nbad <= 3:
                rep.violation(dict(kind="round-trip-with-custom-leaf-classes", circuit=G.Table(root).brief(), option="leaves=[HarnessBernoulli, HarnessBernoulliB]", **problem), True)
    rep.cov["custom_leaf_round_trips"] = done


def nonfinite_stage(rep, rs, tier):
    """Chow-Liu trees with exact-zero table entries (log-parameters -inf: hand-built deterministic tables, or fit(alpha=0) on
    data in which a parent/child configuration never occurs), alone and as a circuit leaf.  The exact-rational model has no
    infinite numbers, so these are checked on the implementation only: every generation saves and loads, structure equal,
    finite log-parameters within the 8-decimal rounding, infinite ones still infinite, same log-likelihood on every row."""
    from deeprob.spn.structure.cltree import BinaryCLT
    from deeprob.spn.structure.leaf import Bernoulli
    from deeprob.spn.structure.node import Product, Sum, assign_ids
    from deeprob.spn.algorithms.inference import log_likelihood
    nbad = 0; ndone = 0
    for i in range(6 if tier == "quick" else 40):
        n = int(rs.randint(2, 5))
        scope = list(range(n)) if i % 2 == 0 else [int(v) for v in rs.permutation(n)]
        order = list(rs.permutation(n)); tree = [-1] * n
        for k in range(1, n):
            tree[order[k]] = int(order[rs.randint(0, k)])
        p = rs.randint(1, 16, size=(n, 2)) / 16.0
        det = rs.rand(n, 2) < 0.5; det[rs.randint(n), rs.randint(2)] = True
        p = np.where(det, rs.randint(0, 2, size=(n, 2)).astype(float), p)
        params = np.zeros((n, 2, 2)); params[:, :, 1] = p; params[:, :, 0] = 1 - p
        r = tree.index(-1); params[r, 1] = params[r, 0]
        with np.errstate(divide="ignore"):
            clt = BinaryCLT(scope, tree=tree, params=np.log(params).tolist())
        if i % 3 == 2:      # the same kind of table learned from data: fit without smoothing on a deterministic relation
            X = (rs.rand(60, n) < 0.5).astype(np.float32); X[:, 1 % n] = X[:, 0]
            clt = BinaryCLT(list(range(n)), root=0)
            with np.errstate(divide="ignore", invalid="ignore"):
                try:
                    clt.fit(X, [[0, 1]] * n, alpha=0.0, random_state=int(rs.randint(1 << 30)))
                except Exception:
                    continue
            if not np.isneginf(np.asarray(clt.params, dtype=np.float64)).any() or np.isnan(np.asarray(clt.params, dtype=np.float64)).any():
                continue
        objs = [("clt", clt)]
        leafc = BinaryCLT(list(clt.scope), tree=[int(t) for t in clt.tree], params=np.asarray(clt.params).tolist())
        root = Sum(children=[Product(children=[leafc, Bernoulli(n, 0.25)]), Product(children=[Bernoulli(v, 0.5) for v in range(n + 1)])],
                   weights=[0.5, 0.5])
        assign_ids(root); objs.append(("spn", root))
        R = np.array(list(itertools.product([0, 1], repeat=n + 1)), dtype=np.float32)
        for kind, obj in objs:
            ndone += 1
            recs = generations(kind, obj, 2, 900 + 3 * i + (kind == "spn"), f"nonfinite:{kind}")
            bad = None
            for rec in recs:
                if rec["save_error"] or rec["load_error"] or rec["loaded"] is None:
                    bad = dict(what="saving or loading failed", generation=rec["gen"], target=rec["target"],
                               save_error=rec["save_error"], load_error=rec["load_error"]); break
            if bad is None:
                last = recs[-1]["loaded"]
                a = clt if kind == "clt" else leafc
                b = last if kind == "clt" else next(o for o in topo(last) if type(o).__name__ == "BinaryCLT")
                pa, pb = np.asarray(a.params, dtype=np.float64), np.asarray(b.params, dtype=np.float64)
                fin = np.isfinite(pa)
                if list(a.scope) != list(b.scope) or [int(t) for t in a.tree] != [int(t) for t in b.tree] or pa.shape != pb.shape:
                    bad = dict(what="structure of the loaded tree differs", scope=[list(a.scope), list(b.scope)])
                elif not (np.array_equal(np.isneginf(pa), np.isneginf(pb)) and np.all(np.abs(pa[fin] - pb[fin]) <= 2e-8 + 1e-7 * np.abs(pa[fin]))):
                    bad = dict(what="parameters of the loaded tree differ beyond the 8-decimal rounding", original=pa.tolist(), loaded=pb.tolist())
                else:
                    with np.errstate(all="ignore"):
                        if kind == "clt":
                            la = np.asarray(clt.log_likelihood(R[:, :n])).reshape(-1); lb = np.asarray(last.log_likelihood(R[:, :n])).reshape(-1)
                        else:
                            la = np.asarray(log_likelihood(root, R)).reshape(-1); lb = np.asarray(log_likelihood(last, R)).reshape(-1)
                    f2 = np.isfinite(la)
                    if not (np.array_equal(f2, np.isfinite(lb)) and np.allclose(la[f2], lb[f2], rtol=1e-5, atol=1e-5)):
                        bad = dict(what="log-likelihoods of the loaded model differ", original=la.tolist(), loaded=lb.tolist())
            if bad:
                nbad += 1
                if nbad <= 3:
                    rep.violation(dict(kind="round-trip-of-a-tree-with-infinite-log-parameters", model_kind=kind, scope=list(clt.scope),
                                       tree=[int(t) for t in clt.tree], params=np.asarray(clt.params, dtype=np.float64).tolist(), failure=bad), True)
    rep.cov["nonfinite_clt_round_trips"] = ndone


def case_coq(rec):
    """Coq term of one generation; raises Unsupported when the observation cannot be expressed
    (reported as a violation by the caller: the model has no such behaviour)."""
    if rec["kind"] == "spn":
        od = describe(rec["orig"])
        rec["orig_desc"] = od
        orig = "[" + ";\n ".join(snode_coq(d) for d in od) + "]"
        if rec["text"] is None:
            return f"(Build_jcase {orig} false {EMPTY_GRAPH} false [])", len(od)
        g = parse_spn_json(rec["text"])
        if rec["loaded"] is None:
            return f"(Build_jcase {orig} true {graph_coq(g)} false [])", len(od)
        ld = describe(rec["loaded"], order=[d["id"] for d in g["nodes"]])
        rec["loaded_desc"] = ld
        loaded = "[" + ";\n ".join(lnode_coq(d) for d in ld) + "]"
        return f"(Build_jcase {orig} true {graph_coq(g)} true {loaded})", len(od)
    od = describe_clt(rec["orig"])
    rec["orig_desc"] = od
    if rec["text"] is None:
        return f"(Build_ccase {cltj_coq(od)} false {EMPTY_CGRAPH} false {EMPTY_CLTJ})", len(od["tree"])
    g = parse_clt_json(rec["text"])
    if rec["loaded"] is None:
        return f"(Build_ccase {cltj_coq(od)} true {cgraph_coq(g)} false {EMPTY_CLTJ})", len(od["tree"])
    ld = describe_clt(rec["loaded"])
    rec["loaded_desc"] = ld
    return f"(Build_ccase {cltj_coq(od)} true {cgraph_coq(g)} true {cltj_coq(ld)})", len(od["tree"])


# ------------------------------------------------------------------ direct oracle: log-likelihoods
D8 = 1e-8


def _leaf_info(n):
    """(domain sampler, sensitivity) of a leaf; None when the leaf sits on a discontinuity or is unfitted."""
    cls = type(n).__name__
    rel = lambda p: (D8 + 6e-8 * abs(p)) / abs(p) if p != 0 else 0.0
    if cls == "Bernoulli":
        p = float(n.p)
        return ("disc", [0.0, 1.0]), max(rel(p), rel(1 - p)) if 0 < p < 1 else 0.0
    if cls == "Categorical":
        if n.categories is None:
            return None
        pr = [float(x) for x in n.probabilities]
        return ("disc", [float(c) for c in n.categories]), max(rel(p) for p in pr if p > 0)
    if cls == "Gaussian":
        m, s = float(n.mean), float(n.stddev)
        dm, ds = D8 + 6e-8 * abs(m), D8 + 6e-8 * s
        return ("pts", [m + s * z for z in (-2.0, -0.5, 0.3, 1.5)]), 2.0 * dm / s + 6.0 * ds / s
    if cls == "Uniform":
        a, w = float(n.start), float(n.width)
        if w < 1e-4:
            return None
        return ("pts", [a + w * t for t in (0.2, 0.5, 0.8)] + [a - 1.0 - w, a + 2 * w + 1.0]), 2 * D8 / w + 2e-7
    if cls == "Isotonic":
        if n.breaks is None:
            return None
        b = [float(x) for x in n.breaks]; d = [float(x) for x in n.densities]
        wmin = min(b1 - b0 for b0, b1 in zip(b[:-1], b[1:]))
        if wmin < 1e-4 or min(d) <= 0:
            return None
        pts = [b0 + (b1 - b0) * t for b0, b1 in zip(b[:-1], b[1:]) for t in (0.3, 0.7)][:8]
        return ("pts", pts + [b[0] - 1.0, b[-1] + 1.0]), max(rel(p) for p in d) * 2 + 4 * (D8 + 6e-8 * max(abs(b[0]), abs(b[-1]))) / wmin
    if cls == "BinaryCLT":
        if n.params is None or n.tree is None:
            return None
        pm = np.asarray(n.params, dtype=np.float64)
        return ("clt", [0.0, 1.0]), float(len(n.scope) * (D8 + 6e-8 * np.abs(pm).max()) * 2)
    return None


def ll_oracle(orig, loaded, rs, nrows=24):
    """compare log-likelihoods of the original and the loaded circuit.  Returns (status, info)."""
    from deeprob.spn.structure.node import Sum, Product
    from deeprob.spn.algorithms.inference import log_likelihood
    nodes = topo(orig)
    tol = 2e-5
    doms = {}; gauss = []
    for n in nodes:
        if isinstance(n, Sum):
            w = [float(x) for x in n.weights if float(x) > 0]
            tol += max((D8 + 6e-8 * x) / x for x in w)
        elif isinstance(n, Product):
            pass
        else:
            info = _leaf_info(n)
            if info is None:
                return "skipped", "unfitted leaf or leaf on a discontinuity"
            (kind, vals), s = info
            if type(n).__name__ == "Gaussian":
                # sensitivity depends on how far the evaluated point is from THIS leaf's mean (another leaf over the same
                # variable may contribute test points thousands of standard deviations away): bounded per row below
                gauss.append((int(n.scope[0]), float(n.mean), float(n.stddev)))
            else:
                tol += s
            for v in n.scope:
                doms.setdefault(int(v), []).extend(vals)
    if tol > 2e-2:
        return "skipped", f"ill-conditioned parameters (first-order bound {tol:.3g})"
    width = max(doms) + 1
    X = np.full((nrows, width), np.nan, dtype=np.float32)
    for v, vals in doms.items():
        X[:, v] = np.asarray(vals, dtype=np.float32)[rs.randint(0, len(vals), size=nrows)]
        X[rs.rand(nrows) < 0.15, v] = np.nan
    try:
        a = np.asarray(log_likelihood(orig, X), dtype=np.float64).ravel()
    except Exception as e:
        return "skipped", f"original cannot be evaluated: {type(e).__name__}: {e}"
    try:
        b = np.asarray(log_likelihood(loaded, X), dtype=np.float64).ravel()
    except Exception as e:
        return "fail", dict(what="loaded circuit cannot be evaluated", error=f"{type(e).__name__}: {e}")
    fin = np.isfinite(a) & (a > -1e29)
    # first-order effect of the 8-decimal rounding of Gaussian parameters at the evaluated points
    gtol = np.zeros(len(a))
    for v, m, sd in gauss:
        z = np.abs(np.nan_to_num(X[:, v].astype(np.float64) - m, nan=0.0)) / sd
        gtol += z * (D8 + 6e-8 * abs(m)) / sd + (z * z + 1.0) * (D8 + 6e-8 * sd) / sd
    skip = gtol >= 2e-2         # ill-conditioned rows are not compared
    fin &= ~skip
    # float32 evaluation noise: relative 1e-5 of the magnitude
    bad = np.zeros(len(a), bool)
    bad[fin] = np.abs(a[fin] - b[fin]) > 3 * (tol + gtol[fin]) + 2e-5 * np.abs(a[fin])
    bad[~fin] = ~((np.isnan(a[~fin]) & np.isnan(b[~fin])) | (a[~fin] == b[~fin]) | ((a[~fin] < -1e29) & (b[~fin] < -1e29)))
    bad[skip] = False
    if bad.any():
        i = int(np.argmax(bad))
        return "fail", dict(what="log-likelihood of the loaded circuit differs from the original's", row=X[i].tolist(),
                            ll_original=float(a[i]), ll_loaded=float(b[i]), tolerance=float(3 * (tol + gtol[i]) + 2e-5 * abs(a[i])))
    return "ok", int(fin.sum())


def clt_ll_oracle(orig, loaded, rs, nrows=24):
    d = len(orig.scope)
    X = rs.randint(0, 2, size=(nrows, d)).astype(np.float32)
    X[rs.rand(nrows, d) < 0.15] = np.nan
    try:
        a = np.asarray(orig.log_likelihood(X), dtype=np.float64).ravel()
        b = np.asarray(loaded.log_likelihood(X), dtype=np.float64).ravel()
    except Exception as e:
        return "fail", dict(what="Chow-Liu tree cannot be evaluated", error=f"{type(e).__name__}: {e}")
    tol = 3 * d * 2 * (D8 + 6e-8 * float(np.abs(np.asarray(orig.params, dtype=np.float64)).max())) + 2e-5
    bad = np.abs(a - b) > tol + 2e-5 * np.abs(a)
    if bad.any():
        i = int(np.argmax(bad))
        return "fail", dict(what="log-likelihood of the loaded Chow-Liu tree differs", row=X[i].tolist(),
                            ll_original=float(a[i]), ll_loaded=float(b[i]), tolerance=float(tol))
    return "ok", nrows


# ------------------------------------------------------------------ summaries for replays
def brief(rec, maxlen=6000):
    def ser(x):
        if isinstance(x, Fraction):
            return float(x)
        if isinstance(x, list):
            return [ser(y) for y in x]
        if isinstance(x, dict):
            return {k: ser(v) for k, v in x.items()}
        return x
    out = dict(kind=rec["kind"], tag=rec["tag"], generation=rec["gen"], target=rec["target"],
               save_error=rec["save_error"], load_error=rec["load_error"])
    od = rec.get("orig_desc")
    if od is not None:
        s = json.dumps(ser(od))
        out["original"] = ser(od) if len(s) <= maxlen else s[:maxlen] + "...(truncated)"
    if rec["text"] is not None:
        out["json_text"] = rec["text"] if len(rec["text"]) <= maxlen else rec["text"][:maxlen] + "...(truncated)"
    ld = rec.get("loaded_desc")
    if ld is not None:
        s = json.dumps(ser(ld))
        out["loaded"] = ser(ld) if len(s) <= maxlen else s[:maxlen] + "...(truncated)"
    return out


FLAG_NOTE = ("flags: 1 JSON nodes differ from the model's spn_to_graph (ids/classes/scopes exactly, numbers within 2e-8); "
             "2 JSON edges differ; 4 implementation and model disagree on whether the file loads; "
             "8 loaded object differs from the model's graph_to_spn of the JSON text; "
             "64 PROPERTY: loading failed or the loaded object is not the original with 8-decimal, single-precision parameters")


def pre_build():
    """the C13 files are compiled here when the integrator has not yet listed them in _CoqProject."""
    proj = open(os.path.join(C.COQ, "_CoqProject")).read()
    if all(f in proj for f in MY_FILES):
        return None
    ok, log = C.build_coq()
    if not ok:
        return log
    with C.Lock(os.path.join(C.COQ, ".build.c13.lock")):
        for f in MY_FILES:
            vo = os.path.join(C.COQ, f[:-2] + ".vo")
            src = os.path.join(C.COQ, f)
            deps = [os.path.join(C.COQ, g[:-2] + ".vo") for g in MY_FILES[:MY_FILES.index(f)]]
            if os.path.exists(vo) and os.path.getmtime(vo) >= os.path.getmtime(src) and \
                    all(os.path.exists(d) and os.path.getmtime(d) <= os.path.getmtime(vo) for d in deps):
                continue
            rc, out = C.sh(f"timeout 900 coqc -R . DV {f}", cwd=C.COQ, timeout=950)
            if rc != 0:
                return f"coqc {f} failed:\n{out[-3000:]}"
    return None


def main(tier, seed, replay=None):
    rep = C.Report(PID, tier, seed)
    rs = np.random.RandomState(seed % (2 ** 31))
    shutil.rmtree(WORK, ignore_errors=True); os.makedirs(WORK, exist_ok=True)
    C.proof_stage(rep, PID, pre_build=pre_build)
    rep.cov["trusted_base"] += [
        "harness/c13.py: mapping of deeprob objects (params_dict, ids, children) and of the JSON text (parsed with exact decimal "
        "fractions) to Model/Json.v literals; its re-implementation of node.topological_order (the order of the JSON nodes)",
        "modelled, not verified: json / networkx node_link_data serialisation internals (their output is an input of the tie), "
        "float summation inside np.isclose(np.sum(..)) guards (evaluated on exact sums in the model), the CPT normalisation guard of "
        "BinaryCLT (needs exp; inputs are normalised), scipy rv_histogram / rv_discrete construction, acyclicity checks",
        "tolerances evaluated inside Coq: JSON numbers within 2e-8 of exact round8 (np.around works in floating point), loaded "
        "numbers within relative 6e-8 (float32 storage) of the JSON numbers"]
    rep.assumptions += ["ids have been assigned (assign_ids / a learner): distinct ids, root id 0 — save_spn_json keys the graph by node.id",
                        "no parent lists the same child object twice (known finding duplicate-child-edge)"]
    ngen = 3
    recs = []
    dist = dict(tags={}, classes={}, generations=0, nodes=0, targets={})
    build_errors = []
    if not replay:
        items, build_errors = circuit_inputs(rs, tier)
        for k, (tag, root) in enumerate(items):
            recs.append(generations("spn", root, ngen, k, tag))
        for k, (tag, c) in enumerate(clt_inputs(rs, tier)):
            recs.append(generations("clt", c, ngen, k + len(items), tag))
    rep.cov["construction_errors_of_generators"] = build_errors[:10]
    # ---- known-finding streams (never silently skipped)
    known = {kf["key"]: kf for kf in C.known_findings(PID)}
    known_recs = known_streams()
    # ---- Coq cases
    cases = []   # (group index, rec, term, size, runner)
    pyviol = []
    all_groups = [("main", r) for r in recs] + [(key, r) for key, r in known_recs]
    for gi, (stream, group) in enumerate(all_groups):
        for rec in group:
            try:
                term, size = case_coq(rec)
                cases.append((gi, rec, term, size, "run_jcase" if rec["kind"] == "spn" else "run_ccase"))
            except Unsupported as e:
                rec["unsupported"] = str(e)
                pyviol.append((stream, rec, f"observation outside the model: {e}"))
            except Exception as e:
                rec["unsupported"] = f"{type(e).__name__}: {e}"
                pyviol.append((stream, rec, f"observation could not be parsed: {type(e).__name__}: {e}"))
        # drift: last generation against the first original
        if len(group) == ngen and group[-1]["loaded"] is not None and "loaded_desc" in group[-1] and "orig_desc" in group[0]:
            first, last = group[0], group[-1]
            try:
                if first["kind"] == "spn":
                    t = "([" + ";\n ".join(snode_coq(d) for d in first["orig_desc"]) + "], [" + \
                        ";\n ".join(lnode_coq(d) for d in last["loaded_desc"]) + "])"
                    cases.append((gi, dict(first, gen="0->3", loaded_desc=last["loaded_desc"], text=last["text"], drift=True),
                                  t, len(first["orig_desc"]), "run_jdrift"))
                else:
                    t = f"({cltj_coq(first['orig_desc'])}, {cltj_coq(last['loaded_desc'])})"
                    cases.append((gi, dict(first, gen="0->3", loaded_desc=last["loaded_desc"], text=last["text"], drift=True),
                                  t, len(first["orig_desc"]["tree"]), "run_cdrift"))
            except Unsupported:
                pass
    # shard by size
    shards = []; cur = []; cur_size = 0
    limit = 700
    for c in sorted(cases, key=lambda c: -c[3]):
        if cur and (cur_size + c[3] > limit or len(cur) >= 120):
            shards.append(cur); cur = []; cur_size = 0
        cur.append(c); cur_size += c[3] + 5
    if cur:
        shards.append(cur)
    files = []
    for si, sh in enumerate(shards):
        body = ["From Coq Require Import List ZArith QArith Qcanon.", "From DV Require Import Model.Json Model.JsonRun.",
                "Import ListNotations."]
        outs = []
        for ci, (gi, rec, term, size, runner) in enumerate(sh):
            ty = {"run_jcase": "jcase", "run_ccase": "ccase", "run_jdrift": "(list qsnode * list qlnode)%type",
                  "run_cdrift": "(cltj Qc * cltj Qc)%type"}[runner]
            body.append(f"Definition c{ci} : {ty} := {term}.")
            outs.append(f"{runner} c{ci}")
        body.append("Eval vm_compute in ([" + "; ".join(outs) + "])%list.")
        files.append((f"cases_{si}", "\n".join(body)))
    res = C.run_case_files(PID, files) if files else []
    flagged = []
    for (name, rc, ints, raw), sh in zip(res, shards):
        if rc != 0 or ints is None or len(ints) != len(sh):
            rep.obligation(False)
            rep.violation(dict(kind="correspondence-shard-failed", shard=name, log=raw,
                               cases=[(c[1]["tag"], c[1]["gen"]) for c in sh][:20]), False)
            continue
        rep.obligation(True)
        for (gi, rec, term, size, runner), code in zip(sh, ints):
            stream = all_groups[gi][0]
            if stream == "main":
                od = rec.get("orig_desc")
                ntriv = size > 1 or rec["kind"] == "spn" and od and od[0]["cls"] not in ("Product",)
                rep.count(dict(t=rec["tag"], g=rec["gen"], h=C.hashlib.sha1((rec["text"] or "").encode()).hexdigest()),
                          nontrivial=bool(ntriv))
                dist["tags"][rec["tag"].split(":")[0]] = dist["tags"].get(rec["tag"].split(":")[0], 0) + 1
                dist["targets"][rec["target"]] = dist["targets"].get(rec["target"], 0) + 1
                dist["nodes"] += size; dist["generations"] += 1
                if rec["kind"] == "spn" and od and not rec.get("drift"):
                    for d in od:
                        dist["classes"][d["cls"]] = dist["classes"].get(d["cls"], 0) + 1
            if code:
                flagged.append((stream, rec, code))
    rep.cov["input_distribution"] = dist
    # ---- direct oracle on every main-stream object (first generation and last generation vs the first original)
    ll = dict(ok=0, skipped=0, rows=0, skipped_reasons={})
    for group in recs:
        first = group[0]
        last = group[-1]
        if last["loaded"] is None:
            continue
        for loaded in ([first["loaded"], last["loaded"]] if last is not first else [first["loaded"]]):
            st, info = (ll_oracle if first["kind"] == "spn" else clt_ll_oracle)(first["orig"], loaded, rs)
            if st == "ok":
                ll["ok"] += 1; ll["rows"] += info
            elif st == "skipped":
                ll["skipped"] += 1; ll["skipped_reasons"][info[:40]] = ll["skipped_reasons"].get(info[:40], 0) + 1
            else:
                rep.violation(dict(kind="direct-oracle", case=brief(first), oracle=info), True)
                break
    rep.cov["loglik_oracle"] = ll
    # ---- verdicts
    nviol = 0
    for stream, rec, why in pyviol:
        if nviol < 6:
            rep.violation(dict(kind="observation-outside-model", stream=stream, why=why, case=brief(rec)), True)
        nviol += 1
    known_seen = {}
    for stream, rec, code in flagged:
        if stream != "main" and code == 64 and stream in known:
            known_seen[stream] = known[stream]["what"]      # fails exactly as the model predicts: recorded finding
            continue
        if rec["tag"].startswith("xpc:det=True") and XPC_KEY in known and rec.get("gen") == 0 and \
                "int64 is not JSON serializable" in (rec.get("save_error") or ""):
            known_seen[XPC_KEY] = known[XPC_KEY]["what"]    # only if the integrator records it (see docs/notes_C13.md)
            continue
        if nviol < 6:
            info = dict(kind="model-implementation-disagreement" if code & 15 else "round-trip-property-fails",
                        stream=stream, flags=code, note=FLAG_NOTE, case=brief(rec))
            if rec.get("loaded") is not None and not rec.get("drift"):
                st, o = (ll_oracle if rec["kind"] == "spn" else clt_ll_oracle)(rec["orig"], rec["loaded"], np.random.RandomState(seed % 1000))
                info["oracle"] = dict(status=st, info=o)
            rep.violation(info, True)
        nviol += 1
    seen2, other = py_known_checks(known)
    for o in other:
        rep.violation(o, True)
    for key, what in seen2.items():
        known_seen.setdefault(key, what)
    for key in sorted(known_seen):
        rep.known_finding(known_seen[key])
    rep.cov["known_stream_cases"] = len(known_recs)
    for group in recs[:1] + recs[len(recs) // 2:len(recs) // 2 + 1] + recs[-1:]:
        if group and group[0].get("text"):
            rep.sample(dict(tag=group[0]["tag"], target=group[0]["target"], json_text=group[0]["text"][:600],
                            load_error=group[0]["load_error"]))
    if replay:
        rp = json.load(open(replay))
        print("replay file:", replay); print(json.dumps(rp, indent=1)[:3000])
        txt = (rp.get("case") or {}).get("json_text")
        if txt and not txt.endswith("(truncated)"):
            from deeprob.spn.structure.io import load_spn_json, load_binary_clt_json
            ld = load_spn_json if (rp.get("case") or {}).get("kind") == "spn" else load_binary_clt_json
            try:
                ld(io.StringIO(txt)); print("replay: the stored JSON text loads")
            except Exception as e:
                print("replay: loading the stored JSON text raises", type(e).__name__, e)
                rep.violation(dict(kind="replay", case=rp.get("case"), error=f"{type(e).__name__}: {e}"), True)
    rep.cov["rule"] = ("hand-built random DAGs (1-7 variables, shared sub-circuits, all five leaf families + BinaryCLT leaves; parameters "
                       "dyadic / random float32 (Dirichlet weights, log-uniform sigma down to 1e-5) / exact rounding ties k/512), special "
                       "leaves (sigma = 1e-5, fits on constant columns, unfitted leaves, integer parameter, float64 weights, 200-way sum), "
                       "circuits learned by learn_spn (mle / isotonic / binary-clt with and without to_pc, kmeans+rdc/random, constant "
                       "columns), learn_estimator, learn_xpc (det/sd), stand-alone Chow-Liu trees (random and fitted); each object goes "
                       "through 3 save/load generations alternating file-object / str path / PathLike targets; one evaluation = one "
                       "generation of one object (JSON text vs spn_to_graph, loaded object vs graph_to_spn, property clause) or one "
                       "3-generation drift comparison, all decided inside Coq; non-trivial = more than one node or a parametrised "
                       "root; distinct by JSON text hash; log-likelihood oracle on 24 random rows per object (15% missing cells, "
                       "points away from Uniform ends and Isotonic breaks)")
    nonfinite_stage(rep, rs, tier)
    custom_leaf_stage(rep, rs, tier)
    C.clean_gen(PID)
    shutil.rmtree(WORK, ignore_errors=True)
    return rep.finish("proof")


# ------------------------------------------------------------------ known findings
def known_streams():
    """inputs of the two recorded findings, run through the same tie in their own stream."""
    from deeprob.spn.structure.node import Sum, Product, assign_ids
    from deeprob.spn.structure.leaf import Bernoulli, Categorical
    out = []
    try:
        n = 7000
        c = Categorical(0, list(range(n)), np.full(n, 1.0 / n, dtype=np.float32))
        root = Product(children=[c, Bernoulli(1, 0.5)]); assign_ids(root)
        out.append(("many-entries-isclose", generations("spn", root, 1, 0, "known:categorical-7000")))
    except Exception:
        pass
    try:
        a = Bernoulli(0, 0.25)
        root = Sum(children=[a, a], weights=[0.5, 0.5]); assign_ids(root)
        out.append(("duplicate-child-edge", generations("spn", root, 1, 1, "known:sum-a-a")))
        b = Bernoulli(1, 0.5); a2 = Bernoulli(0, 0.125)
        root = Product(children=[Sum(children=[a2, Bernoulli(0, 0.75), a2], weights=[0.25, 0.5, 0.25]), b]); assign_ids(root)
        out.append(("duplicate-child-edge", generations("spn", root, 1, 2, "known:sum-a-b-a")))
    except Exception:
        pass
    return out


def py_known_checks(known):
    """the 7000-way Sum of the recorded finding, observed directly (too large for a Coq literal)."""
    from deeprob.spn.structure.node import Sum, assign_ids
    from deeprob.spn.structure.leaf import Bernoulli
    from deeprob.spn.structure.io import save_spn_json, load_spn_json
    seen = {}; other = []
    if "many-entries-isclose" in known:
        n = 7000
        root = Sum(children=[Bernoulli(0, 0.5) for _ in range(n)], weights=np.full(n, 1.0 / n, dtype=np.float32))
        assign_ids(root)
        try:
            f = io.StringIO(); save_spn_json(root, f); f.seek(0)
            load_spn_json(f)
        except Exception as e:
            if isinstance(e, ValueError) and "sum up to 1" in str(e):
                seen["many-entries-isclose"] = known["many-entries-isclose"]["what"]
            else:
                other.append(dict(kind="round-trip-property-fails", stream="many-entries-isclose",
                                  input="Sum of 7000 Bernoulli(0, 0.5) children with weights float32(1/7000)",
                                  error=f"{type(e).__name__}: {e}"))
    return seen, other
