"""C05 — learned mixture weights are the training-row proportions of their children.
Proof: Properties/C05.v (alignment invariant of the LearnSPN task queue for EVERY oracle answer).
Tie: real learn_spn runs with recording wrappers around the row splitter, the column splitter and
the leaf learner (built-in and adversarial ones that fail on some slices); the recorded answers
drive the Gallina machine (engine E1) and the resulting arena is compared node for node (kinds,
scopes, child order, weights, rows and columns of every leaf) with the returned circuit."""
import json, warnings
from fractions import Fraction
import numpy as np
from . import common as C
from . import circuits as G

PID = "C05"
HEADER = ["From Coq Require Import List ZArith QArith Qcanon.",
          "From DV Require Import Model.QcInst Model.LearnSpn Model.LearnSpnRun.",
          "Import ListNotations. Open Scope nat_scope."]
OPCODE = dict(REM_FEATURES=1, CREATE_LEAF=2, SPLIT_NAIVE=3, SPLIT_ROWS=4, SPLIT_COLS=5)


def gen_data(rs, kind, n, d, offsets=False):
    """data, distributions, domains with constant / duplicated columns and cluster structure.
    offsets: continuous columns may sit far from the origin with a small spread (a temperature in Kelvin, a counter)."""
    from deeprob.spn.structure.leaf import Bernoulli, Categorical, Gaussian
    z = rs.randint(0, 3, size=n)
    cols = []; dists = []; doms = []
    for j in range(d):
        t = kind if kind != "mixed" else ["bin", "cat", "cont"][j % 3]
        if t == "bin":
            p = np.array([0.15, 0.5, 0.85])[(z + j) % 3]
            c = (rs.rand(n) < p).astype(np.float32); dists.append(Bernoulli); doms.append([0, 1])
        elif t == "cat":
            c = ((z + rs.randint(0, 2, size=n) * (j % 2 + 1)) % 3).astype(np.float32); dists.append(Categorical); doms.append([0, 1, 2])
        else:
            c = rs.randn(n) + 2.0 * ((z + j) % 3)
            if offsets and rs.rand() < 0.6:
                loc, sc = [(293.15, 0.02), (1000.1, 0.05), (1.0e4, 0.5), (-77.7, 0.01), (0.1, 1e-4)][rs.randint(5)]
                c = loc + sc * c
            c = c.astype(np.float32); dists.append(Gaussian); doms.append((float(c.min()) - 1, float(c.max()) + 1))
        cols.append(c)
    X = np.stack(cols, axis=1)
    if d >= 3 and rs.rand() < 0.4:
        X[:, 1] = X[:, 0] if dists[0] is dists[1] else X[:, 1]          # duplicated column
    if rs.rand() < 0.4:
        j = rs.randint(d); X[:, j] = X[0, j]                             # constant column
    if rs.rand() < 0.3:                                                  # constant inside one cluster only
        j = rs.randint(d); X[z == 0, j] = X[0, j]
    if rs.rand() < 0.25:                                                 # only a handful of distinct rows
        X = X[rs.randint(0, min(n, 4), size=n)]
    for j in range(d):                                                   # keep discrete values inside their domains
        if isinstance(doms[j], list):
            X[:, j] = np.clip(X[:, j], min(doms[j]), max(doms[j]))
    return X, dists, doms


class Recorder:
    def __init__(self, rs, rows_name, cols_name, leaf_name, adversarial):
        from deeprob.spn.learning.splitting.rows import get_split_rows_method
        from deeprob.spn.learning.splitting.cols import get_split_cols_method
        from deeprob.spn.learning.leaf import get_learn_leaf_method
        self.rs = rs; self.adv = adversarial
        self.real_rows = get_split_rows_method(rows_name) if rows_name != "adv" else None
        self.real_cols = get_split_cols_method(cols_name) if cols_name != "adv" else None
        self.real_leaf = get_learn_leaf_method(leaf_name)
        self.splits = []       # ('rows'|'cols', labels)
        self.leaves = []       # (data copy, scope, returned node)
        self.leaf_meta = []    # (distribution classes, domains) handed to the leaf learner

    def rows(self, data, distributions, domains, random_state, **kw):
        if self.real_rows is None or (self.adv and self.rs.rand() < 0.35):
            k = int(self.rs.randint(1, 4))
            c = self.rs.randint(0, k, size=len(data)) if self.rs.rand() < 0.7 else np.zeros(len(data), dtype=np.int64)
            if self.rs.rand() < 0.3:
                c = np.array([0, 2, 5])[c]          # label sets with gaps (a clusterer may leave ids unused)
        else:
            c = np.asarray(self.real_rows(data, distributions, domains, random_state, **kw))
        self.splits.append(("rows", np.asarray(c).tolist())); return np.asarray(c)

    def cols(self, data, distributions, domains, random_state, **kw):
        if self.real_cols is None or (self.adv and self.rs.rand() < 0.35):
            k = int(self.rs.randint(1, 4))
            c = self.rs.randint(0, k, size=data.shape[1]) if self.rs.rand() < 0.7 else np.zeros(data.shape[1], dtype=np.int64)
        else:
            c = np.asarray(self.real_cols(data, distributions, domains, random_state, **kw))
        self.splits.append(("cols", np.asarray(c).tolist())); return np.asarray(c)

    def leaf(self, data, distributions, domains, scope, **kw):
        node = self.real_leaf(data, distributions, domains, scope, **kw)
        self.leaves.append((np.array(data, copy=True), [int(s) for s in scope], node))
        self.leaf_meta.append((list(distributions), list(domains))); return node


def ranks(labels):
    u = sorted(set(labels)); m = {v: i for i, v in enumerate(u)}
    return [m[v] for v in labels]


def impl_tree(root, rec):
    """(coq literal, python tree) of the returned circuit, cut at the nodes returned by the leaf learner."""
    from deeprob.spn.structure.node import Sum, Product
    leaf_ids = {id(node): i for i, (_, _, node) in enumerate(rec.leaves)}

    def go(n):
        if id(n) in leaf_ids:
            d, sc, _ = rec.leaves[leaf_ids[id(n)]]
            return dict(kind=2, scope=sc, nrows=len(d), ws=[], kids=[])
        if isinstance(n, Sum):
            return dict(kind=0, scope=[int(v) for v in n.scope], nrows=0, ws=[Fraction(float(w)) for w in n.weights], kids=[go(c) for c in n.children])
        if isinstance(n, Product):
            return dict(kind=1, scope=[int(v) for v in n.scope], nrows=0, ws=[], kids=[go(c) for c in n.children])
        raise TypeError(f"node {type(n).__name__} was not returned by the leaf learner")
    return go(root)


def tree_coq(t):
    return (f"(LT {t['kind']} {C.natlist(t['scope'])} {t['nrows']} " + C.coq_list([C.qlit(w) for w in t['ws']]) + " " +
            C.coq_list([tree_coq(k) for k in t['kids']]) + ")")


def tree_rows(t):
    """direct oracle on the implementation: number of training rows routed to every node."""
    if t["kind"] == 2:
        return t["nrows"]
    ks = [tree_rows(k) for k in t["kids"]]
    t["_n"] = sum(ks) if t["kind"] == 0 else (ks[0] if ks else 0)
    return t["_n"]


def oracle_weights(t, out):
    if t["kind"] == 0:
        ns = [k.get("_n", k["nrows"]) if k["kind"] != 2 else k["nrows"] for k in t["kids"]]
        tot = sum(ns)
        for i, (w, n) in enumerate(zip(t["ws"], ns)):
            if tot and abs(float(w) - n / tot) > 1e-6:
                out.append(dict(scope=t["scope"], child=i, weight=float(w), rows_child=n, rows_sum=tot))
        if len(t["ws"]) != len(t["kids"]):
            out.append(dict(scope=t["scope"], what="weights/children length mismatch"))
    for k in t["kids"]:
        oracle_weights(k, out)


def run_case(rs, cfg):
    """one learn_spn run with recording; returns dict with everything the tie needs (or error)."""
    from deeprob.spn.learning import learnspn as LS
    X, dists, doms = gen_data(rs, cfg["kind"], cfg["n"], cfg["d"])
    if cfg.get("wide_keep"):
        d_ = X.shape[1]
        keep = set(int(v) for v in rs.choice(d_ - 1, size=cfg["wide_keep"] - 1, replace=False)) | {d_ - 1 - int(rs.randint(0, 2))}
        for j in range(d_):
            if j not in keep:
                X[:, j] = X[0, j]
    rec = Recorder(rs, cfg["rows"], cfg["cols"], cfg["leaf"], cfg["adv"])
    LS._VERIF_TRACE = []
    try:
        root = LS.learn_spn(X, dists, doms, learn_leaf=rec.leaf, split_rows=rec.rows, split_cols=rec.cols,
                            min_rows_slice=cfg["min_rows"], min_cols_slice=cfg["min_cols"],
                            split_rows_kwargs=(dict(n=cfg.get("rows_n", 2)) if cfg["rows"] != "random" else dict()),
                            random_state=int(rs.randint(2 ** 31 - 1)), verbose=False)
        err = None
    except Exception as e:
        root = None; err = f"{type(e).__name__}: {e}"
    trace = LS._VERIF_TRACE; LS._VERIF_TRACE = None
    if root is None:
        return dict(cfg=cfg, error=err, X=X)
    answers = []; si = 0
    for (opn, nrows, scope, zvf, nc, nr, fi) in trace:
        lab = []
        if opn in ("SPLIT_ROWS", "SPLIT_COLS"):
            kind, lab = rec.splits[si]; si += 1
            lab = ranks(lab)
        answers.append((zvf, lab))
    return dict(cfg=cfg, X=X, dists=dists, doms=doms, root=root, rec=rec, trace=trace, answers=answers,
                tree=impl_tree(root, rec), n_splits=si, total_splits=len(rec.splits))


def case_coq(name, cs):
    cfg = cs["cfg"]
    ans = C.coq_list([f"(Build_answer {C.coq_list(['true' if b else 'false' for b in zvf])} {C.natlist(lab)})" for zvf, lab in cs["answers"]])
    ops = C.natlist([OPCODE[t[0]] for t in cs["trace"]])
    return (f"Definition {name} := run_lcase (Build_lcase {cfg['min_rows']} {cfg['min_cols']} {cs['X'].shape[0]} {cs['X'].shape[1]}\n  {ans}\n  {ops}\n  {tree_coq(cs['tree'])}).")


def configs(rs, n, tier):
    rows_m = ["kmeans", "gmm", "rdc", "random", "kmeans_mb", "dbscan", "wald", "adv"]
    cols_m = ["gvs", "rgvs", "wrgvs", "ebvs", "gbvs", "rdc", "random", "adv"]
    out = []
    for i in range(n):
        kind = ["bin", "cat", "cont", "mixed", "bin"][i % 5]
        r = rows_m[i % len(rows_m)]; c = cols_m[(i // 2) % len(cols_m)]
        if kind in ("cont", "mixed") and c in ("ebvs", "gbvs"):
            c = "rdc"                                   # entropy/gini splitters are for discrete data
        leaf = "mle" if kind != "bin" or i % 3 else "binary-clt"
        if kind == "cont" and i % 4 == 0:
            leaf = "isotonic"
        out.append(dict(kind=kind, rows=r, cols=c, leaf=leaf, adv=bool(i % 3 == 0), rows_n=int([2, 2, 3, 4, 5][(i // 3) % 5]),
                        n=int(rs.choice([5, 12, 40, 120, 300 if tier == "thorough" else 150])), d=int(rs.randint(2, 7)),
                        min_rows=int(rs.choice([1, 4, 16, 40])), min_cols=int(rs.choice([1, 2, 3]))))
    # wide tables (10-12 columns; wider ones make the replay inside Coq slow) most of whose columns are constant: the zero-variance features are split off first and few variables, with
    # LARGE indices among them, remain (the remaining columns and their variable ids must stay aligned)
    for i in range(max(4, n // 6)):
        out.append(dict(kind=["bin", "cat", "cont"][i % 3], rows=["kmeans", "random", "gmm"][i % 3], cols=["rdc", "random"][i % 2], leaf="mle", adv=False,
                        rows_n=2, n=int(rs.choice([30, 60])), d=int(rs.choice([10, 11, 12])), min_rows=int(rs.choice([4, 16])), min_cols=1,
                        wide_keep=int(rs.choice([2, 3, 4]))))
    return out


def classifier_stage(rep, rs, tier):
    """the classifier wrapper: one branch per class value, root weights = class frequencies, every branch fitted on the rows
    of its class only — for every position of the class column (first, middle, last, negative index)."""
    from deeprob.spn.learning.wrappers import learn_classifier
    from deeprob.spn.structure.leaf import Categorical
    from deeprob.spn.structure.node import Sum
    from deeprob.spn.algorithms.inference import log_likelihood
    import io, contextlib
    n_done = 0; n_bad = 0
    for i in range(12 if tier == "quick" else 80):
        kind = ["bin", "cat", "bin"][i % 3]
        n = int(rs.choice([30, 80, 160])); d = int(rs.randint(2, 5))
        X, dists, doms = gen_data(rs, kind, n, d)
        k = int(rs.choice([2, 3]))
        y = np.minimum(k - 1, (rs.rand(n) < 0.35).astype(np.int64) + (X[:, 0] > np.median(X[:, 0])).astype(np.int64)).astype(np.float32)
        labels = [float(c) for c in (np.array([0, 1, 2]) if rs.rand() < 0.6 else np.array([1, 3, 4]))[:k]]
        y = np.array(labels, dtype=np.float32)[y.astype(int)]
        pos = [0, d // 2, d, -1, -(d + 1)][i % 5]                      # position of the class column in the training matrix
        at = pos if pos >= 0 else d + 1 + pos
        Xy = np.insert(X, at, y, axis=1)
        ds = dists[:at] + [Categorical] + dists[at:]; dm = doms[:at] + [sorted(set(labels))] + doms[at:]
        try:
            with warnings.catch_warnings(), contextlib.redirect_stdout(io.StringIO()):
                warnings.simplefilter("ignore")
                root = learn_classifier(Xy, ds, dm, class_idx=pos, min_rows_slice=int(rs.choice([8, 32])), verbose=False,
                                        random_state=int(rs.randint(2 ** 31 - 1)))
        except Exception as e:
            continue                                                     # learners may refuse a configuration
        n_done += 1
        classes, counts = np.unique(y, return_counts=True)
        bad = None
        if not isinstance(root, Sum) or len(root.children) != len(classes):
            bad = dict(what="root is not a sum with one child per class", children=len(getattr(root, "children", [])), classes=len(classes))
        else:
            w = [float(t) for t in root.weights]; fr = [float(c) / n for c in counts]
            if max(abs(a - b) for a, b in zip(w, fr)) > 1e-6:
                bad = dict(what="root weights are not the class frequencies", weights=w, class_frequencies=fr)
            else:
                # branch c is fitted on the rows of class c only: it gives probability zero to every other class label
                for ci, (c, br) in enumerate(zip(classes, root.children)):
                    probe = np.full((len(classes), Xy.shape[1]), np.nan, dtype=np.float32); probe[:, at] = classes
                    import copy as _copy
                    from deeprob.spn.structure.node import assign_ids as _assign_ids
                    b2 = _copy.deepcopy(br); _assign_ids(b2)               # a branch alone is not labelled from zero
                    with np.errstate(all="ignore"):
                        ll = np.asarray(log_likelihood(b2, probe)).reshape(-1)
                    if not all(ll[ci] > ll[j] + 0.5 for j in range(len(classes)) if j != ci):   # leaves are Laplace-smoothed: dominance, not zero
                        bad = dict(what="a class branch is not fitted on the rows of its own class only", branch=int(ci),
                                   class_value=float(c), log_marginal_of_each_class_label=[float(t) for t in ll]); break
        rep.count(dict(classifier=i, pos=pos, n=n, d=d), nontrivial=True)
        if bad:
            n_bad += 1
            if n_bad <= 3:
                rep.violation(dict(kind="classifier-wrapper", class_idx=pos, data=Xy.tolist() if n <= 40 else Xy[:40].tolist(),
                                   rows=int(n), failure=bad), True)
    rep.cov["classifier_wrapper_cases"] = n_done


def main(tier, seed, replay=None, pid=PID):
    rep = C.Report(pid, tier, seed)
    rs = np.random.RandomState(seed % (2 ** 31))
    C.proof_stage(rep, pid)
    rep.cov["trusted_base"] += ["hook deeprob/spn/learning/learnspn.py:_VERIF_TRACE (guarded, add-only): one record per task (operation, rows, scope, zero-variance flags)",
                                "recording wrappers around split_rows / split_cols / learn_leaf (public extension points); label vectors are mapped to their ranks (order preserving)",
                                "scikit-learn clusterers, RDC, G-test etc. are oracles: the theorems hold for every answer they could give"]
    cases = []; errors = []
    dist = dict(rows_methods={}, cols_methods={}, leaf={}, ops={}, errors=0, tasks=0, deferred=0)
    for cfg in configs(rs, 48 if tier == "quick" else 1000, tier):
        import warnings
        with warnings.catch_warnings():
            warnings.simplefilter("ignore")
            cs = run_case(rs, cfg)
        if "error" in cs and cs.get("error"):
            dist["errors"] += 1; errors.append(dict(cfg=cfg, error=cs["error"])); continue
        cases.append(cs)
        dist["rows_methods"][cfg["rows"]] = dist["rows_methods"].get(cfg["rows"], 0) + 1
        dist["cols_methods"][cfg["cols"]] = dist["cols_methods"].get(cfg["cols"], 0) + 1
        dist["leaf"][cfg["leaf"]] = dist["leaf"].get(cfg["leaf"], 0) + 1
        for t in cs["trace"]:
            dist["ops"][t[0]] = dist["ops"].get(t[0], 0) + 1
            dist["deferred"] += int(t[4] or t[5])
        dist["tasks"] += len(cs["trace"])
    rep.cov["input_distribution"] = dist
    rep.cov["learner_errors_allowed_by_the_property"] = errors[:5]
    shard = 6
    files = []
    for s in range(0, len(cases), shard):
        body = list(HEADER); names = []
        for i, cs in enumerate(cases[s:s + shard]):
            nm = f"c{s + i}"; body.append(case_coq(nm, cs)); names.append(nm)
        body.append("Eval vm_compute in (concat (map (fun l => (-1)%Z :: l) [" + "; ".join(names) + "])).")
        files.append((f"cases_{s // shard}", "\n".join(body)))
    res = C.run_case_files(pid, files)
    for (name, rc, ints, raw), s in zip(res, range(0, len(cases), shard)):
        if rc != 0 or ints is None:
            rep.obligation(False); rep.violation(dict(kind="correspondence-shard-failed", shard=name, log=raw), False); continue
        rep.obligation(True)
        groups = []
        for z in ints:
            if z == -1:
                groups.append([])
            else:
                groups[-1].append(z)
        for cs, g in zip(cases[s:s + shard], groups):
            flags = g[0]; leaves = []
            for z in g[1:]:
                if z == -2:
                    leaves.append([])
                else:
                    leaves[-1].append(z)
            cs["flags"] = flags; cs["model_leaves"] = leaves
    nviol = 0
    for cs in cases:
        if "flags" not in cs:
            continue
        bad = []
        tree_rows(cs["tree"]); oracle_weights(cs["tree"], bad)
        # leaves: the i-th call of the leaf learner must have received exactly the model's rows and columns
        leaf_bad = None
        rec = cs["rec"]
        if len(rec.leaves) != len(cs["model_leaves"]):
            leaf_bad = dict(what="number of leaf-learner calls differs", impl=len(rec.leaves), model=len(cs["model_leaves"]))
        else:
            # model columns: recover from the arena order = recorded scope; compare data content
            for i, ((d, sc, _), rows) in enumerate(zip(rec.leaves, cs["model_leaves"])):
                exp = cs["X"][rows][:, sc] if rows else cs["X"][:0][:, sc]
                md, mo = rec.leaf_meta[i]
                if md != [cs["dists"][v] for v in sc] or mo != [cs["doms"][v] for v in sc]:
                    leaf_bad = dict(what="leaf learner received the distribution class / domain of other variables", leaf=i, scope=sc,
                                    got=[x.__name__ for x in md], expected=[cs["dists"][v].__name__ for v in sc]); break
                if d.shape != exp.shape or not np.array_equal(d, exp):
                    leaf_bad = dict(what="leaf fitted on rows/columns other than those routed to it", leaf=i, scope=sc,
                                    impl_rows=int(d.shape[0]), model_rows=len(rows)); break
        rep.count(dict(cfg=cs["cfg"], ops=[t[0] for t in cs["trace"]]), nontrivial=len(cs["trace"]) > 1)
        if cs["flags"] or bad or leaf_bad:
            nviol += 1
            if nviol <= 5:
                rep.violation(dict(kind="model-implementation-disagreement" if cs["flags"] or leaf_bad else "property-oracle-failed",
                                   flags=cs["flags"], cfg=cs["cfg"], seed=seed, trace=[(t[0], t[1], t[2]) for t in cs["trace"]],
                                   misaligned_sums=bad[:5], leaf_check=leaf_bad, data=cs["X"].tolist() if cs["X"].size <= 400 else "omitted (regenerate from seed)",
                                   answers=[(z, l) for z, l in cs["answers"]][:40],
                                   note="flags: 1 operation sequence differs, 2 model queue not empty, 4 tree differs (kinds/scopes/child order/weights/leaf rows), 8 model alignment broken"),
                              True)
    for cs in cases[:2]:
        rep.sample(dict(cfg=cs["cfg"], ops=[t[0] for t in cs["trace"]], n_leaves=len(cs["rec"].leaves), tree=json.loads(json.dumps(cs["tree"], default=str))))
    if replay:
        print(open(replay).read()[:3000])
    rep.cov["rule"] = ("learn_spn on generated data (binary / categorical / continuous / mixed; 5-150(300) rows, 2-6 columns; constant, duplicated and "
                       "cluster-wise constant columns) x row splitters kmeans,gmm,rdc,random,kmeans_mb,dbscan,wald + adversarial x column splitters "
                       "gvs,rgvs,wrgvs,ebvs,gbvs,rdc,random + adversarial (random labels, 30% single-cluster answers => deferred tasks) x leaf learners "
                       "mle,isotonic,binary-clt x thresholds min_rows 1-40, min_cols 1-3; one evaluation = one run replayed in the Gallina machine; "
                       "non-trivial = more than one task; distinct by configuration + operation trace")
    if pid == PID:
        classifier_stage(rep, rs, tier)
    C.clean_gen(pid)
    return rep.finish("proof")
