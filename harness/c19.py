"""C19 — moment queries are exact moments.
Proof: Properties/C19.v (moment table = sum over assignments of val * a_j^k for every valid DAG;
variance/skewness/kurtosis of the source TRANSLATED ON THIS RUN equal the textbook central-moment
definitions).  Tie: translator (fail-closed) + E1 comparison of moment/variance/skewness/kurtosis."""
import os, json, itertools, math
from fractions import Fraction
import numpy as np
from . import common as C
from . import circuits as G
from . import translate_moments as TM

PID = "C19"


def cont_moments(leaf):
    from deeprob.spn.structure.leaf import Gaussian, Uniform, Isotonic
    if isinstance(leaf, Gaussian):
        m, s = Fraction(float(leaf.mean)), Fraction(float(leaf.stddev))
        return [m, m * m + s * s, m ** 3 + 3 * m * s * s, m ** 4 + 6 * m * m * s * s + 3 * s ** 4]
    if isinstance(leaf, Uniform):
        a, w = Fraction(float(leaf.start)), Fraction(float(leaf.width)); b = a + w
        return [(b ** (k + 1) - a ** (k + 1)) / ((k + 1) * w) for k in (1, 2, 3, 4)]
    if isinstance(leaf, Isotonic):
        d = [Fraction(float(x)) for x in leaf.densities]; b = [Fraction(float(x)) for x in leaf.breaks]
        z = sum(di * (b1 - b0) for di, b0, b1 in zip(d, b[:-1], b[1:]))
        return [sum(di / z * (b1 ** (k + 1) - b0 ** (k + 1)) / (k + 1) for di, b0, b1 in zip(d, b[:-1], b[1:]))
                for k in (1, 2, 3, 4)]
    raise TypeError


def gen_case(rs, idx, tier):
    from deeprob.spn.structure.node import assign_ids
    nv = int(rs.randint(1, 6 if tier == "quick" else 8))
    scope = G.rand_scope(rs, nv, contiguous=True)
    kinds = [("bern",), ("bern", "cat"), ("bern", "cat", "gauss", "unif", "iso"), ("gauss", "unif", "iso")][idx % 4]
    root = G.rand_circuit(rs, sorted(scope), kinds=kinds, clt=0.0, share=0.35)
    assign_ids(root)
    return root


def impl_outputs(root):
    from deeprob.spn.algorithms import moments as M
    out = {}
    out["moms"] = [[float(x) for x in M.moment(root, order=k)] for k in (1, 2, 3, 4)]
    with np.errstate(all="ignore"):
        out["var"] = [float(x) for x in M.variance(root)]
        out["skew"] = [float(x) for x in M.skewness(root)]
        out["kurt"] = [float(x) for x in M.kurtosis(root)]
    out["order0"] = [float(x) for x in M.moment(root, order=0)]
    out["exp"] = [float(x) for x in M.expectation(root)]
    try:
        M.moment(root, order=-1); out["neg"] = "returned"
    except ValueError:
        out["neg"] = "ValueError"
    except Exception as e:  # noqa
        out["neg"] = type(e).__name__
    return out


def fin(x):
    return x if math.isfinite(x) else 0.0


def case_coq(name, tab, out):
    cont = []
    for i, (n, o) in enumerate(zip(tab.nodes, tab.objs)):
        if n.get("cont"):
            cont.append(f"({i}%nat, " + C.coq_list([C.qlit(m) for m in cont_moments(o)]) + ")")
    n = len(tab.root_scope())
    ql = lambda l: C.coq_list([C.qlit(fin(x)) for x in l])
    return (f"Definition {name}_t : qtable :=\n  {tab.coq()}.\n"
            f"Definition {name} : mcase := Build_mcase {name}_t {C.coq_list(cont)} {n}%nat "
            f"{C.coq_list([ql(m) for m in out['moms']])} {ql(out['var'])} {ql(out['skew'])} {ql(out['kurt'])}.\n")


def oracle(root, out=None):
    """direct check of the property on the implementation only: raw moments by enumeration of the
    implementation's own likelihoods (discrete circuits), derived statistics by textbook formulas
    from the implementation's own raw moments.  Returns a description of the failure or None."""
    from deeprob.spn.algorithms.inference import likelihood
    from deeprob.spn.structure.leaf import Bernoulli, Categorical
    out = out or impl_outputs(root)
    tab = G.Table(root)
    if all(isinstance(o, (Bernoulli, Categorical)) for o in tab.objs if not o.children):
        dom = tab.domains(); sc = sorted(tab.root_scope()); n = len(sc)
        rows = list(itertools.product(*[dom[v] for v in sc]))
        X = np.array(rows, dtype=np.float32)
        L = likelihood(root, X).reshape(-1).astype(np.float64)
        for k in (1, 2, 3, 4):
            for j in sc:
                ref = float(np.sum(L * X[:, j].astype(np.float64) ** k))
                if abs(out["moms"][k - 1][j] - ref) > 1e-3 * (1 + abs(ref)):
                    return dict(what="raw moment differs from enumeration", order=k, var=j,
                                impl=out["moms"][k - 1][j], ref=ref)
    m1, m2, m3, m4 = [np.array(m, dtype=np.float64) for m in out["moms"]]
    cm2 = m2 - m1 ** 2; cm3 = m3 - 3 * m1 * m2 + 2 * m1 ** 3
    cm4 = m4 - 4 * m1 * m3 + 6 * m1 ** 2 * m2 - 3 * m1 ** 4
    for j in range(len(m1)):
        # conditioning is RELATIVE (a variable of tiny scale is as well conditioned as one of unit scale): the
        # cancellation error of a central moment is ~1e-5 (single-precision parameters) times the size of its terms
        t2 = abs(m2[j]) + m1[j] ** 2
        t3 = abs(m3[j]) + 3 * abs(m1[j] * m2[j]) + 2 * abs(m1[j]) ** 3
        t4 = abs(m4[j]) + 4 * abs(m1[j] * m3[j]) + 6 * m1[j] ** 2 * abs(m2[j]) + 3 * m1[j] ** 4
        if not cm2[j] > 1e-4 * t2:
            continue
        ref = dict(var=cm2[j], skew=cm3[j] / cm2[j] ** 1.5, kurt=cm4[j] / cm2[j] ** 2 - 3.0)
        noise = dict(var=1e-5 * t2, skew=1e-5 * t3 / cm2[j] ** 1.5, kurt=1e-5 * t4 / cm2[j] ** 2)
        for key in ("var", "skew", "kurt"):
            if noise[key] > 0.25 * (1 + abs(ref[key])):
                continue                                   # too ill-conditioned to judge
            if not abs(out[key][j] - ref[key]) <= 2e-2 * abs(ref[key]) + 2e-2 * (key != "var") + 4 * noise[key]:
                return dict(what=f"{key} differs from its textbook definition on the implementation's own raw moments",
                            var=j, impl=out[key][j], ref=float(ref[key]))
    if out["order0"] != [1.0] * len(out["order0"]):
        return dict(what="order 0 is not all ones", impl=out["order0"])
    if out["neg"] != "ValueError":
        return dict(what="negative order not rejected with ValueError", impl=out["neg"])
    return None


def small_scale_cases():
    """well-conditioned variables of tiny variance (rare events, narrow densities centred at 0, a scaled-down mixture)."""
    from deeprob.spn.structure.leaf import Bernoulli, Gaussian, Uniform
    from deeprob.spn.structure.node import Sum, Product, assign_ids
    out = [Bernoulli(0, p=1e-8), Gaussian(0, mean=0.0, stddev=1e-4), Uniform(0, start=0.0, width=1e-3),
           Product(children=[Gaussian(0, mean=0.0, stddev=2e-4), Bernoulli(1, p=0.3)]),
           Sum(children=[Gaussian(0, mean=-1e-4, stddev=1e-4), Gaussian(0, mean=2e-4, stddev=1e-4)], weights=[0.5, 0.5]),
           Sum(children=[Product(children=[Uniform(0, start=-1e-4, width=3e-4), Bernoulli(1, p=1e-9)]),
                         Product(children=[Gaussian(0, mean=0.0, stddev=1e-4), Bernoulli(1, p=3e-8)])], weights=[0.25, 0.75])]
    for r in out:
        assign_ids(r)
    return out


def search(seed, n=60):
    rs = np.random.RandomState(seed % (2 ** 31))
    for root in small_scale_cases():
        bad = oracle(root)
        if bad:
            return dict(circuit=G.Table(root).brief(), failure=bad)
    for i in range(n):
        root = gen_case(rs, i, "quick")
        bad = oracle(root)
        if bad:
            return dict(circuit=G.Table(root).brief(), failure=bad)
    return None


def main(tier, seed, replay=None):
    rep = C.Report(PID, tier, seed)
    rs = np.random.RandomState(seed % (2 ** 31))

    def pre():
        try:
            TM.regenerate(C.REPO, os.path.join(C.COQ, "Gen", "MomentsSrc.v"))
        except TM.TranslationError as ex:
            return f"translator rejected moments.py (tie to the source broken): {ex}"
        return None

    proved = C.proof_stage(rep, PID, pre_build=pre, search=lambda: search(seed))
    rep.cov["trusted_base"] += [
        "harness/translate_moments.py (Python ast -> Coq, fail-closed); NumPy element-wise vector arithmetic modelled as per-variable scalar arithmetic",
        "harness/circuits.py: mapping of deeprob objects to the model table; closed-form raw moments of Gaussian/Uniform/Isotonic leaves (the leaves' own scipy moments are not proved)",
        "float32 rounding absorbed by tolerances evaluated inside Coq (Model/MomentsRun.v)"]
    rep.assumptions += ["continuous leaf moments: scipy values tied against closed forms, not proved",
                        "root scope is 0..n-1 (the implementation indexes its moment matrix by variable id)"]
    ncirc = 40 if tier == "quick" else 2000
    if replay:
        ncirc = 0
    roots = []
    dist = dict(kinds={}, vars={}, nodes=0)
    for i in range(ncirc):
        root = gen_case(rs, i, tier)
        tab = G.Table(root)
        fp0 = G.fingerprint(root)
        out = impl_outputs(root)
        if dist.get("purity_viol", 0) < 2 and not G.unchanged(root, fp0, "moment / variance / skewness / kurtosis", rep):
            dist["purity_viol"] = dist.get("purity_viol", 0) + 1
        roots.append((root, tab, out))
        d = tab.describe()
        for k, v in d["kinds"].items():
            dist["kinds"][k] = dist["kinds"].get(k, 0) + v
        dist["vars"][len(d["scope"])] = dist["vars"].get(len(d["scope"]), 0) + 1
        dist["nodes"] += d["nodes"]
    # histories: the same OBJECT queried, trained with EM, and queried again must answer from its CURRENT parameters
    # (the model table of the second query is rebuilt from the parameters after training)
    nh = 0
    for i in range(0 if replay else (8 if tier == "quick" else 60)):
        from deeprob.spn.structure.node import assign_ids as _aid
        nvh = int(rs.randint(1, 5))
        root = G.rand_circuit(rs, list(range(nvh)), kinds=[("gauss",), ("gauss", "bern"), ("gauss", "unif", "bern")][i % 3], clt=0.0, share=0.35)
        _aid(root)
        try:
            impl_outputs(root)
            from deeprob.spn.learning.em import expectation_maximization
            from deeprob.spn.algorithms.sampling import sample
            width = max(int(v) for v in root.scope) + 1
            np.random.seed(int(rs.randint(1 << 30)))
            data = sample(root, np.full((60, width), np.nan, dtype=np.float32))
            import io as _io, contextlib as _cl
            with _cl.redirect_stdout(_io.StringIO()), np.errstate(all="ignore"):
                expectation_maximization(root, data, num_iter=2, batch_perc=0.5, step_size=0.5, random_init=False,
                                         random_state=int(rs.randint(1 << 30)), verbose=False)
            tab = G.Table(root); out = impl_outputs(root)
        except Exception as e:
            dist.setdefault("history_skipped", []).append(f"{type(e).__name__}: {e}"[:80])
            continue                                              # EM may refuse a circuit: not this property
        if any(not math.isfinite(x) for m in out["moms"] for x in m):
            continue
        roots.append((root, tab, out)); nh += 1
    dist["queried_trained_queried_again"] = nh
    rep.cov["input_distribution"] = dist
    # scale: well-conditioned variables of tiny variance (the exact-rational tie above runs at unit scale only)
    if not replay:
        for root in small_scale_cases():
            bad = oracle(root)
            rep.cov["small_scale_cases"] = rep.cov.get("small_scale_cases", 0) + 1
            if bad:
                rep.violation(dict(kind="direct-oracle-small-scale", circuit=G.Table(root).brief(), failure=bad), True)
    # python-side clauses: order 0, negative order, expectation == moment 1
    for root, tab, out in roots:
        if out["order0"] != [1.0] * len(tab.root_scope()) or out["neg"] != "ValueError" or out["exp"] != out["moms"][0]:
            rep.violation(dict(kind="guard-clause", circuit=tab.brief(), impl=dict(order0=out["order0"], neg=out["neg"])), True)
    # E1 shards
    shard = 10
    files = []
    for s in range(0, len(roots), shard):
        body = ["From Coq Require Import List ZArith QArith Qcanon.",
                "From DV Require Import Model.Core Model.Clt Model.Leaves Model.Moments Model.QcInst Model.MomentsRun.",
                "Import ListNotations. Open Scope Z_scope."]
        names = []
        for i, (root, tab, out) in enumerate(roots[s:s + shard]):
            nm = f"c{s + i}"
            body.append(case_coq(nm, tab, out)); names.append(nm)
        body.append("Eval vm_compute in (concat (map (fun c => (-1)%Z :: run_mcase c) " + C.coq_list(names) + ")).")
        files.append((f"cases_{s // shard}", "\n".join(body)))
    res = C.run_case_files(PID, files) if files else []
    flagged = []
    for (name, rc, ints, raw), s in zip(res, range(0, len(roots), shard)):
        if rc != 0 or ints is None:
            rep.obligation(False)
            rep.violation(dict(kind="correspondence-shard-failed", shard=name, log=raw), False)
            continue
        rep.obligation(True)
        groups = []; cur = None
        for z in ints:
            if z == -1:
                cur = []; groups.append(cur)
            else:
                cur.append(z)
        for (root, tab, out), codes in zip(roots[s:s + shard], groups):
            for j, code in enumerate(codes):
                rep.count(dict(c=tab.brief(), j=j), nontrivial=(code & 16) == 0 and len(tab.nodes) > 1)
                if code & 15:
                    flagged.append((root, tab, out, j, code))
    for root, tab, out in roots[:3]:
        rep.sample(dict(circuit=tab.brief(), impl_moments=out["moms"], variance=out["var"], skewness=out["skew"]))
    for root, tab, out, j, code in flagged[:5]:
        bad = oracle(root, out)
        rep.violation(dict(kind="model-implementation-disagreement", flags=code, var=j, circuit=tab.brief(),
                           impl=out, oracle=bad,
                           note="flags: 1 raw moment, 2 variance, 4 skewness, 8 kurtosis differ from the model"),
                      found_input=True)
    # known finding: non-contiguous scope labelling
    for kf in C.known_findings(PID):
        if kf.get("key") == "noncontiguous-root-scope":
            from deeprob.spn.structure.leaf import Bernoulli
            from deeprob.spn.structure.node import Product, assign_ids
            from deeprob.spn.algorithms.moments import moment
            r = Product(children=[Bernoulli(0, 0.25), Bernoulli(2, 0.5)]); assign_ids(r)
            try:
                moment(r, 1)
            except IndexError:
                rep.known_finding(kf["what"])
    if replay:
        rp = json.load(open(replay))
        print("replay file:", replay); print(json.dumps(rp, indent=1)[:3000])
        w = search(seed)
        if w:
            rep.violation(dict(kind="replay", witness=w), True)
    rep.cov["rule"] = ("random valid DAGs over contiguous scopes 0..n-1 (n<=5 quick / 7 thorough), leaf mixes "
                       "bern | bern+cat | all five families | continuous only, sharing 0.35; one evaluation = one "
                       "(circuit, variable) with orders 1..4 + variance/skewness/kurtosis compared inside Coq; "
                       "non-trivial = more than one node and variance well-conditioned; distinct by circuit+variable hash")
    C.clean_gen(PID)
    return rep.finish("proof")
