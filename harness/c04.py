"""C04 — every structure learner returns a valid, normalised circuit over all features.
Proof: Properties/C04.v (checker soundness => valid, normalised, total mass one; LearnSPN queue
invariants).  Tie: every circuit returned by learn_spn (all built-in splitters / leaf learners),
learn_estimator, learn_classifier, learn_xpc, learn_expc on generated data is extracted and the
VERIFIED checker is evaluated on it by vm_compute (validity, normalisation, root scope = all
columns, positive weights, structured decomposability when requested); LearnSPN runs are also
replayed in the Gallina machine (see harness/c05.py)."""
import itertools, json, warnings
from fractions import Fraction
import numpy as np
from . import common as C
from . import circuits as G
from . import c01, c05

PID = "C04"
DECL = {"doms": None}     # the domains declared to the learner in the current run (discrete ones are checked)
HEADER = ["From Coq Require Import List ZArith QArith Qcanon.",
          "From DV Require Import Model.Core Model.Clt Model.Leaves Model.QcInst Model.LearnRun.",
          "Import ListNotations. Open Scope Z_scope."]


def clt_subtree_scopes(node):
    """scopes of the product nodes of to_pc(CLT): the variable sets of the subtrees with >= 2 variables."""
    tree, scope = node["tree"], node["scope"]
    n = len(tree); kids = {i: [j for j in range(n) if tree[j] == i] for i in range(n)}
    out = []

    def sub(i):
        vs = [scope[i]]
        for k in kids[i]:
            vs += sub(k)
        if kids[i]:
            out.append(sorted(vs))
        return vs
    sub(tree.index(-1))
    return out


def mass_oracle(root, tab):
    """direct oracle on the implementation: sum of exp(LL) over the whole (discrete, <= 12 variables) domain."""
    from deeprob.spn.algorithms.inference import log_likelihood
    dom = tab.domains(); sc = sorted(tab.root_scope())
    if any(n.get("cont") for n in tab.nodes) or len(sc) > 12:
        return None
    total = 1
    for v in sc:
        total *= len(dom[v])
    if total > 5000:
        return None
    width = max(sc) + 1
    X = np.array([G.np_row(c, width, {}) for c in G.assignments(sc, dom)], dtype=np.float32)
    with np.errstate(all="ignore"):
        m = float(np.exp(log_likelihood(root, X).astype(np.float64)).sum())
    return None if abs(m - 1) < 1e-3 else dict(what="learned circuit is not normalised", total_mass=m)


def cont_leaf_oracle(root):
    """every continuous leaf of a returned circuit is a density: finite parameters in their domain, and the implementation's
    own likelihood integrates to one (trapezoid rule on a float64 grid over the support; tolerance 2%)."""
    from deeprob.spn.structure.leaf import Gaussian, Uniform, Isotonic
    for o in G.post_order(root):
        if isinstance(o, Gaussian):
            m, sdv = float(o.mean), float(o.stddev)
            if not (np.isfinite(m) and np.isfinite(sdv) and sdv > 0):
                return dict(what="Gaussian leaf is not a density", node=int(o.id), scope=[int(v) for v in o.scope], mean=repr(m), stddev=repr(sdv))
            grid = m + sdv * np.linspace(-9.0, 9.0, 3601)
        elif isinstance(o, Uniform):
            a, w = float(o.start), float(o.width)
            if not (np.isfinite(a) and np.isfinite(w) and w > 0):
                return dict(what="Uniform leaf is not a density", node=int(o.id), scope=[int(v) for v in o.scope], start=repr(a), width=repr(w))
            continue
        elif isinstance(o, Isotonic):
            d = np.asarray(o.densities, dtype=np.float64); b = np.asarray(o.breaks, dtype=np.float64)
            if not (np.all(np.isfinite(d)) and np.all(np.isfinite(b)) and np.all(d >= 0) and d.sum() > 0 and np.all(np.diff(b) > 0)
                    and len(b) == len(d) + 1):
                return dict(what="Isotonic leaf is not a density", node=int(o.id), scope=[int(v) for v in o.scope],
                            densities=[repr(float(x)) for x in d][:12], breaks=[repr(float(x)) for x in b][:13])
            continue
        else:
            continue
        with np.errstate(all="ignore"):
            pdf = np.asarray(o.likelihood(grid.reshape(-1, 1)), dtype=np.float64).reshape(-1)
        mass = float(np.sum((pdf[1:] + pdf[:-1]) * np.diff(grid)) / 2.0) if np.all(np.isfinite(pdf)) else float("nan")
        if not abs(mass - 1.0) < 0.02:
            return dict(what="continuous leaf does not integrate to one", node=int(o.id), scope=[int(v) for v in o.scope],
                        kind=type(o).__name__, mean=repr(m), stddev=repr(sdv), integral=repr(mass))
    return None


def learned_stream(rs, tier):
    """(tag, cfg, callable -> root, sd flag, ncols)"""
    from deeprob.spn.learning.wrappers import learn_estimator, learn_classifier
    from deeprob.spn.learning.xpc import learn_xpc, learn_expc
    from deeprob.spn.structure.leaf import Bernoulli
    out = []
    nl = 36 if tier == "quick" else 600
    for cfg in c05.configs(rs, nl, tier):
        cfg = dict(cfg); cfg["adv"] = False
        cfg["rows"] = "kmeans" if cfg["rows"] == "adv" else cfg["rows"]; cfg["cols"] = "rdc" if cfg["cols"] == "adv" else cfg["cols"]
        def f(cfg=cfg):
            X, dists, doms = c05.gen_data(rs, cfg["kind"], cfg["n"], cfg["d"], offsets=True)
            from deeprob.spn.learning.learnspn import learn_spn
            DECL["doms"] = doms
            return learn_spn(X, dists, doms, learn_leaf=cfg["leaf"], split_rows=cfg["rows"], split_cols=cfg["cols"],
                             min_rows_slice=cfg["min_rows"], min_cols_slice=cfg["min_cols"],
                             split_rows_kwargs=(dict(n=cfg.get("rows_n", 2)) if cfg["rows"] != "random" else dict()),
                             random_state=int(rs.randint(2 ** 31 - 1)), verbose=False), X.shape[1], None
        out.append(("learnspn", cfg, f, False))
    # more clusters requested than there are distinct rows: a clusterer may leave cluster ids unused
    for i in range(36 if tier == "quick" else 180):
        nd = int(rs.choice([2, 3, 4]))
        cfg = dict(kind=["bin", "cont", "cat", "bin"][i % 4], rows=["gmm", "kmeans_mb", "gmm", "rdc", "kmeans", "gmm"][i % 6], cols="rdc", leaf="mle",
                   rows_n=nd + int(rs.choice([1, 2, 3])), n=int(rs.choice([24, 60, 120])), d=int(rs.randint(2, 5)),
                   distinct=nd, min_rows=int(rs.choice([2, 6])), min_cols=1, few_distinct=True)
        def f(cfg=cfg):
            X, dists, doms = c05.gen_data(rs, cfg["kind"], cfg["n"], cfg["d"], offsets=True)
            X = X[rs.randint(0, cfg["distinct"], size=cfg["n"])]
            from deeprob.spn.learning.learnspn import learn_spn
            DECL["doms"] = doms
            return learn_spn(X, dists, doms, learn_leaf="mle", split_rows=cfg["rows"], split_cols=cfg["cols"],
                             min_rows_slice=cfg["min_rows"], min_cols_slice=1, split_rows_kwargs=dict(n=cfg["rows_n"]),
                             random_state=int(rs.randint(2 ** 31 - 1)), verbose=False), X.shape[1], None
        out.append(("learnspn", cfg, f, False))
    # a user-supplied row splitter (the documented extension point: any callable) whose label set has GAPS, e.g. {0, 2, 5}: what
    # some clusterers do on their own when a cluster ends up empty, here on every split
    for i in range(10 if tier == "quick" else 60):
        cfg = dict(kind=["bin", "cont", "cat", "mixed"][i % 4], rows="callable-with-gapped-labels", cols=["rdc", "gvs", "random"][i % 3], leaf="mle",
                   n=int(rs.choice([30, 80, 160])), d=int(rs.randint(2, 6)), min_rows=int(rs.choice([4, 10, 24])), min_cols=1,
                   labels=[[0, 2], [0, 2, 5], [1, 4], [-1, 1, 3]][i % 4])
        def f(cfg=cfg):
            X, dists, doms = c05.gen_data(rs, cfg["kind"], cfg["n"], cfg["d"], offsets=True)
            from deeprob.spn.learning.learnspn import learn_spn
            DECL["doms"] = doms
            labs = np.array(cfg["labels"])
            def gapped(data, distributions, domains, random_state, **kw):
                c = labs[rs.randint(0, len(labs), size=len(data))]
                c[0] = labs[0]; c[-1] = labs[-1]
                return c
            return learn_spn(X, dists, doms, learn_leaf="mle", split_rows=gapped, split_cols=cfg["cols"],
                             min_rows_slice=cfg["min_rows"], min_cols_slice=1, random_state=int(rs.randint(2 ** 31 - 1)), verbose=False), X.shape[1], None
        out.append(("learnspn", cfg, f, False))
    for i in range(8 if tier == "quick" else 60):
        cfg = dict(kind=["bin", "cat", "mixed"][i % 3], n=int(rs.choice([20, 80, 200])), d=int(rs.randint(3, 6)), wrapper=["estimator", "classifier"][i % 2],
                   min_rows=int(rs.choice([8, 32])))
        def f(cfg=cfg):
            X, dists, doms = c05.gen_data(rs, cfg["kind"], cfg["n"], cfg["d"], offsets=True)
            DECL["doms"] = doms if cfg["kind"] != "mixed" else None
            if cfg["wrapper"] == "estimator":
                return learn_estimator(X, dists, doms if cfg["kind"] != "mixed" else None, min_rows_slice=cfg["min_rows"],
                                       random_state=int(rs.randint(2 ** 31 - 1)), verbose=False), X.shape[1], None
            from deeprob.spn.structure.leaf import Categorical
            y = (rs.rand(len(X)) < 0.3).astype(np.float32) + (X[:, 0] > np.median(X[:, 0])).astype(np.float32)
            Xy = np.column_stack([X, y]); dists = dists + [Categorical]; doms = doms + [sorted(set(y.tolist()))]
            DECL["doms"] = doms
            root = learn_classifier(Xy, dists, doms, class_idx=-1, min_rows_slice=cfg["min_rows"], verbose=False,
                                    random_state=int(rs.randint(2 ** 31 - 1)))
            classes, counts = np.unique(y, return_counts=True)
            return root, Xy.shape[1], [float(c) / len(y) for c in counts]
        out.append(("wrapper", cfg, f, False))
    for i in range(16 if tier == "quick" else 300):
        cfg = dict(det=bool(i % 2), sd=bool((i // 2) % 2), conj_len=int(rs.choice([1, 2, 3])), arity=int(rs.choice([2, 3, 4])),
                   min_part_inst=int(rs.choice([5, 20, 60])), n=int(rs.choice([30, 120, 300])), d=int(rs.randint(3, 9)),
                   ensemble=bool(i % 4 == 3), seed=int(rs.randint(1000)), sd_level=int(i // 4 % 3))
        if cfg["ensemble"]:
            cfg["sd"] = cfg["sd_level"] == 2          # only a SD ensemble follows one variable tree as a whole
            if cfg["sd_level"] == 2 and cfg["conj_len"] == 1:
                cfg["conj_len"] = 2
        def f(cfg=cfg):
            z = rs.rand(cfg["n"], 1) < 0.5
            X = (rs.rand(cfg["n"], cfg["d"]) < np.where(z, 0.2, 0.75)).astype(np.float32)
            if rs.rand() < 0.3:
                X[:, 0] = 1.0                       # constant column
            if cfg["ensemble"]:
                root, _ = learn_expc(X, ensemble_dim=3, det=cfg["det"], sd_level=cfg["sd_level"], min_part_inst=cfg["min_part_inst"],
                                     conj_len=cfg["conj_len"], arity=cfg["arity"], random_seed=cfg["seed"])
            else:
                root, _ = learn_xpc(X, det=cfg["det"], sd=cfg["sd"], min_part_inst=cfg["min_part_inst"],
                                    conj_len=cfg["conj_len"], arity=cfg["arity"], random_seed=cfg["seed"])
            return root, X.shape[1], None
        out.append(("xpc", cfg, f, cfg["sd"]))
    # greedy variable ordering on data with EXACT ties in the pairwise scores (a column occurring three or more times, several
    # constant columns, very few rows), with and without Chow-Liu leaves
    for i in range(24 if tier == "quick" else 160):
        cfg = dict(det=bool(i % 4 == 3), sd=True, sd_level=2 if i % 3 == 2 else None, ensemble=bool(i % 3 == 2), conj_len=int(rs.choice([2, 3])),
                   arity=int(rs.choice([2, 3])), min_part_inst=int(rs.choice([5, 10, 20])), n=int(rs.choice([12, 20, 40, 120])), d=int(rs.randint(5, 9)),
                   seed=int(rs.randint(1000)), use_clt=bool(i % 2), ties=["copies", "constants", "few-rows"][i % 3], greedy=True)
        def f(cfg=cfg):
            z = rs.rand(cfg["n"], 1) < 0.5
            X = (rs.rand(cfg["n"], cfg["d"]) < np.where(z, 0.25, 0.7)).astype(np.float32)
            cols = rs.permutation(cfg["d"])
            if cfg["ties"] == "copies":
                for c in cols[1:1 + int(rs.choice([2, 3]))]:
                    X[:, c] = X[:, cols[0]]
            elif cfg["ties"] == "constants":
                for c in cols[:3]:
                    X[:, c] = float(rs.randint(2))
            if cfg["ensemble"]:
                root, _ = learn_expc(X, ensemble_dim=3, det=cfg["det"], sd_level=2, min_part_inst=cfg["min_part_inst"], conj_len=cfg["conj_len"],
                                     arity=cfg["arity"], use_clt=cfg["use_clt"], random_seed=cfg["seed"])
            else:
                root, _ = learn_xpc(X, det=cfg["det"], sd=True, min_part_inst=cfg["min_part_inst"], conj_len=cfg["conj_len"], arity=cfg["arity"],
                                    use_clt=cfg["use_clt"], use_greedy_ordering=True, random_seed=cfg["seed"])
            return root, X.shape[1], None
        out.append(("xpc", cfg, f, True))
    # wide data, few rows: the members of a structured-decomposable ensemble stop partitioning at different depths
    for i in range(10 if tier == "quick" else 60):
        cfg = dict(det=bool(i % 2), sd=True, sd_level=2, ensemble=True, conj_len=int(rs.choice([2, 2, 3])), arity=int(rs.choice([2, 3, 4])),
                   min_part_inst=int(rs.choice([30, 40, 60])), n=int(rs.choice([300, 400, 500])), d=int(rs.randint(11, 15)),
                   ensemble_dim=int(rs.choice([3, 5])), seed=int(rs.randint(1000)), wide=True)
        def f(cfg=cfg):
            z = rs.rand(cfg["n"], 3) < 0.5
            cols = []
            for j in range(cfg["d"]):
                flip = rs.rand(cfg["n"]) < (0.1 + 0.3 * rs.rand())
                cols.append(np.where(flip, ~z[:, j % 3], z[:, j % 3]))
            X = np.stack(cols, axis=1).astype(np.float32)
            root, _ = learn_expc(X, ensemble_dim=cfg["ensemble_dim"], det=cfg["det"], sd_level=2, min_part_inst=cfg["min_part_inst"],
                                 conj_len=cfg["conj_len"], arity=cfg["arity"], random_seed=cfg["seed"])
            return root, X.shape[1], None
        out.append(("xpc", cfg, f, True))
    # single structured-decomposable XPCs on data with constant columns and differently correlated row groups: a level of the
    # partition tree can be constant on its conjunction variables.  Many cheap runs, screened in Python (SCREEN tag): only the
    # runs whose product scopes cross, plus a sample, go through the certificate checker.
    for i in range(120 if tier == "quick" else 800):
        cfg = dict(det=bool(i % 2), sd=True, sd_level=None, ensemble=False, conj_len=int(rs.choice([1, 1, 2])), arity=int(rs.choice([2, 3])),
                   min_part_inst=int(rs.choice([20, 40, 60])), n=int(rs.choice([200, 400])), d=int(rs.randint(6, 10)),
                   seed=int(rs.randint(1000)), const_cols=int(rs.choice([1, 1, 2])), screen=True)
        def f(cfg=cfg):
            n, d = cfg["n"], cfg["d"]
            g = rs.randint(0, 4, size=n)                                   # four row groups with different chains
            X = np.zeros((n, d), dtype=np.float32)
            X[:, 0] = g // 2; X[:, 1] = g % 2
            rest = list(range(2, d))
            for gi in range(4):
                rows = np.where(g == gi)[0]
                order = list(rest) if gi % 2 == 0 else [rest[0]] + list(rs.permutation(rest[1:]))
                prev = (rs.rand(len(rows)) < 0.5)
                for v in order:
                    flip = rs.rand(len(rows)) < 0.15
                    prev = np.where(flip, ~prev, prev); X[rows, v] = prev
            X = X[:, rs.permutation(d)]
            for c in rs.choice(d, size=cfg["const_cols"], replace=False):
                X[:, c] = float(rs.randint(2))
            root, _ = learn_xpc(X, det=cfg["det"], sd=True, min_part_inst=cfg["min_part_inst"], conj_len=cfg["conj_len"],
                                arity=cfg["arity"], use_greedy_ordering=bool(rs.rand() < 0.5), random_seed=cfg["seed"])
            return root, X.shape[1], None
        out.append(("xpc", cfg, f, True))
    # tall tables in other storage types (round 8): 70-160 thousand binary rows held as float16 / float64 column-major / uint8.
    # A column then has more ones than float16 can count (65504): every statistic a learner takes has to be accumulated in a type
    # that holds it.  Splitters that do not depend on distances; a slice threshold around the row count keeps the circuits small.
    rs0, rs = rs, np.random.RandomState((int(rs.get_state()[1][0]) ^ 0x5EED) % (2 ** 31))   # own stream: the earlier families keep their draws
    for i in range(4 if tier == "quick" else 16):
        n = int(rs.choice([70000, 90000, 130000]))
        storage = ["float16", "float64-column-major", "uint8", "float16"][i % 4]
        if storage == "float16":      # every leaf slice (the whole table, or one class of it) must hold more ones than float16 counts
            n = 160000
        cfg = dict(kind="bin", tall=True, storage=storage, n=n, d=int(rs.randint(3, 5)),
                   rows="random", cols="random", leaf="mle", min_rows=int(n * (2.0 if storage == "float16" else [0.9, 2.0][(i // 4 + i) % 2])), min_cols=1,
                   entry=["learn_spn", "learn_estimator", "learn_spn", "learn_classifier"][i % 4])
        def f(cfg=cfg):
            n, d = cfg["n"], cfg["d"]
            z = rs.rand(n, 1) < 0.5
            pr = np.where(z, rs.uniform(0.86, 0.96, size=d), rs.uniform(0.86 if cfg["storage"] == "float16" else 0.6, 0.93, size=d))
            B = rs.rand(n, d) < pr
            X = {"float16": lambda: B.astype(np.float16), "float64-column-major": lambda: np.asfortranarray(B.astype(np.float64)),
                 "uint8": lambda: B.astype(np.uint8)}[cfg["storage"]]()
            dists, doms = [Bernoulli] * d, [[0, 1]] * d
            DECL["doms"] = doms
            kw = dict(split_rows="random", split_cols="random", min_rows_slice=cfg["min_rows"], min_cols_slice=1,
                      random_state=int(rs.randint(2 ** 31 - 1)), verbose=False)
            if cfg["entry"] == "learn_spn":
                from deeprob.spn.learning.learnspn import learn_spn
                return learn_spn(X, dists, doms, learn_leaf="mle", **kw), d, None
            if cfg["entry"] == "learn_estimator":
                return learn_estimator(X, dists, doms, learn_leaf="mle", **kw), d, None
            return learn_classifier(X, dists, doms, class_idx=d - 1, learn_leaf="mle", **kw), d, None
        out.append(("learnspn" if cfg["entry"] == "learn_spn" else "wrapper", cfg, f, False))
    return out


def main(tier, seed, replay=None):
    rep = C.Report(PID, tier, seed)
    rs = np.random.RandomState(seed % (2 ** 31))
    C.proof_stage(rep, PID)
    rep.cov["trusted_base"] += ["harness/circuits.py object->table mapping with exact re-normalisation of float32 parameter vectors (last entry := 1 - sum of the others; adjustment bounded by 2e-6 per entry, larger adjustments are reported as violations)",
                                "scikit-learn / SciPy machinery inside the learners is not modelled: the returned artefact is certificate-checked per run",
                                "termination of the learners is observed, not proved; configurations on which a learner raises are allowed by the property and listed in the evidence"]
    cases = []; raised = []
    dist = dict(learnspn=0, wrapper=0, xpc=0, raised=0, nodes=0, clt_leaves=0, cont_leaves=0)
    for tag, cfg, f, sd in learned_stream(rs, tier):
        DECL["doms"] = None
        try:
            import io, contextlib
            with warnings.catch_warnings(), contextlib.redirect_stdout(io.StringIO()):
                warnings.simplefilter("ignore")
                root, ncols, priors = f()
        except Exception as e:
            dist["raised"] += 1; raised.append(dict(tag=tag, cfg=cfg, error=f"{type(e).__name__}: {e}"[:200])); continue
        try:
            tab = G.Table(root, {}, renorm=True)
        except Exception as e:
            rep.violation(dict(kind="returned-object-not-a-circuit", tag=tag, cfg=cfg, error=f"{type(e).__name__}: {e}"), True); continue
        if cfg.get("screen"):
            dist["screened"] = dist.get("screened", 0) + 1
            scs = [frozenset(n["scope"]) for n in tab.nodes if n["kind"] == "prod"] + \
                  [frozenset(x) for n in tab.nodes if n["kind"] == "clt" for x in clt_subtree_scopes(n)]
            crossing = any(a & b and not (a <= b or b <= a) for ii, a in enumerate(scs) for b in scs[ii + 1:])
            if not crossing and dist["screened"] % 12 != 0:
                continue                          # not suspicious and not in the sample: skipped (counted in `screened`)
        bad = None
        nvec = max(len(n.get("ws", [])) for n in tab.nodes) if tab.nodes else 1
        if float(tab.max_adjust) > 2e-6 * max(nvec, 2):
            bad = dict(what="a weight vector / probability table is not normalised", max_adjustment=float(tab.max_adjust))
        if priors is not None and not bad:
            w = [float(x) for x in root.weights]
            if len(w) != len(priors) or max(abs(a - b) for a, b in zip(w, priors)) > 1e-6:
                bad = dict(what="classifier root weights are not the class frequencies", weights=w, class_frequencies=priors)
        if not bad:
            bad = mass_oracle(root, tab)
        if not bad:
            bad = cont_leaf_oracle(root)
        cont = sorted({n["var"] for n in tab.nodes if n.get("cont")})
        decl = DECL["doms"]
        cases.append(dict(tag=tag, cfg=cfg, tab=tab, ncols=ncols, sd=sd, cont=cont, oracle=bad, decl=decl,
                          clt_scopes=[s for n in tab.nodes if n["kind"] == "clt" for s in clt_subtree_scopes(n)]))
        dist[tag] += 1; dist["nodes"] += len(tab.nodes)
        dist["clt_leaves"] += sum(1 for n in tab.nodes if n["kind"] == "clt"); dist["cont_leaves"] += sum(1 for n in tab.nodes if n.get("cont"))
    rep.cov["input_distribution"] = dist
    rep.cov["learner_errors_allowed_by_the_property"] = raised[:8] + [r for r in raised if r["tag"] != "learnspn"][:6]
    shard = 8
    files = []
    for s in range(0, len(cases), shard):
        body = list(HEADER); names = []
        for i, cs in enumerate(cases[s:s + shard]):
            nm = f"c{s + i}"
            dom = cs["tab"].domains()
            if cs["decl"] is not None:      # the DECLARED discrete domains, not the ones the leaves happen to carry
                for v, d in enumerate(cs["decl"]):
                    if isinstance(d, list) and v not in cs["cont"]:
                        dom[v] = [int(x) for x in d]
            body.append(f"Definition {nm}_t : qtable :=\n  {cs['tab'].coq()}.\n"
                        f"Definition {nm} := run_vcase (Build_vcase {nm}_t {c01.doms_coq(dom)} {C.natlist(cs['cont'])} {cs['ncols']}%nat "
                        f"{'true' if cs['sd'] else 'false'} {C.coq_list([C.natlist(x) for x in cs['clt_scopes']])}).")
            names.append(nm)
        body.append("Eval vm_compute in [" + "; ".join(names) + "].")
        files.append((f"cases_{s // shard}", "\n".join(body)))
    res = C.run_case_files(PID, files)
    nviol = 0
    for (name, rc, ints, raw), s in zip(res, range(0, len(cases), shard)):
        if rc != 0 or ints is None or len(ints) != len(cases[s:s + shard]):
            rep.obligation(False); rep.violation(dict(kind="correspondence-shard-failed", shard=name, log=raw), False); continue
        rep.obligation(True)
        for cs, code in zip(cases[s:s + shard], ints):
            rep.count(dict(tag=cs["tag"], cfg=cs["cfg"], t=cs["tab"].brief()), nontrivial=len(cs["tab"].nodes) > 1)
            if code or cs["oracle"]:
                nviol += 1
                if nviol <= 5:
                    rep.violation(dict(kind="certificate-failed" if code else "property-oracle-failed", flags=code, tag=cs["tag"], cfg=cs["cfg"],
                                       seed=seed, circuit=cs["tab"].brief(), oracle=cs["oracle"],
                                       note="flags: 1 not valid/normalised, 2 root scope <> all columns, 4 not structured decomposable, 8 non-positive weight"), True)
    for cs in [c for c in cases if c["tag"] == "learnspn"][:1] + [c for c in cases if c["tag"] == "xpc"][:1]:
        rep.sample(dict(tag=cs["tag"], cfg=cs["cfg"], circuit=cs["tab"].brief()[:12]))
    if replay:
        print(open(replay).read()[:3000])
    rep.cov["rule"] = ("learn_spn over all built-in row splitters (kmeans,gmm,rdc,random,kmeans_mb,dbscan,wald) x column splitters (gvs,rgvs,wrgvs,ebvs,gbvs,rdc,random) "
                       "x leaf learners (mle,isotonic,binary-clt) x thresholds on binary/categorical/continuous/mixed data with constant, duplicated and cluster-wise constant columns, "
                       "5-150(300) rows; tall binary tables (70-160 thousand rows) stored as float16 / column-major float64 / uint8; learn_estimator / learn_classifier; learn_xpc / learn_expc over det x sd x conj_len x arity x min_part_inst x seeds; "
                       "one evaluation = one returned circuit checked by the verified checker inside Coq; non-trivial = more than one node; distinct by configuration + circuit hash")
    C.clean_gen(PID)
    return rep.finish("proof")
