"""C01 / C02 — evaluation of circuits on complete rows (C01) and on rows with missing cells (C02).
Proof: Properties/C01.v, Properties/C02.v.  Tie: random valid DAGs (every leaf family, CLT leaves,
shared sub-circuits, non-contiguous scopes), implementation `likelihood` / `log_likelihood`
against the Gallina model evaluated by vm_compute at exact rationals (engine E1)."""
import os, json, itertools, math
from fractions import Fraction
import numpy as np
from . import common as C
from . import circuits as G

HEADER = ["From Coq Require Import List ZArith QArith Qcanon.",
          "From DV Require Import Model.Core Model.Clt Model.Leaves Model.QcInst Model.Run.",
          "Import ListNotations. Open Scope Z_scope."]


def make_points(root, rs):
    """test points per continuous variable, shared by all leaves on that variable; points closer
    than 1e-3 to a discontinuity of ANY leaf on the variable are dropped (property excludes them)."""
    from deeprob.spn.structure.leaf import Gaussian, Uniform, Isotonic
    leaves = {}
    for o in G.post_order(root):
        if isinstance(o, (Gaussian, Uniform, Isotonic)):
            leaves.setdefault(int(o.scope[0]), []).append(o)
    points = {}
    for v, ls in leaves.items():
        cand = []
        for lf in ls[:3]:
            cand += G.cont_points(lf, rs)
        disc = []
        for lf in ls:
            if isinstance(lf, Uniform):
                disc += [float(lf.start), float(lf.start + lf.width)]
            if isinstance(lf, Isotonic):
                disc += [float(b) for b in lf.breaks]
        pts = []
        for x in cand:
            x = float(np.float32(x))
            if all(abs(x - d) > 1e-3 for d in disc) and x not in pts:
                pts.append(x)
        points[v] = pts[:4] if pts else [float(ls[0].scope[0]) + 0.123]
    return points


def gen_circuit(rs, idx, tier, kinds=None, clt=0.25):
    from deeprob.spn.structure.node import assign_ids
    nv = int(rs.randint(1, 6 if tier == "quick" else 8))
    scope = G.rand_scope(rs, nv, spread=3)
    if kinds is None:
        kinds = [("bern",), ("bern", "cat"), ("bern", "cat", "gauss", "unif", "iso"), ("bern",),
                 ("gauss", "unif", "iso", "bern")][idx % 5]
    root = G.rand_circuit(rs, scope, kinds=kinds, clt=clt, share=0.3)
    if idx % 7 == 3:
        G.skew_params(root, rs)   # exact-zero weights, extreme / deterministic leaf parameters
    assign_ids(root)
    if rs.rand() < 0.5:
        relabel_ids(root, rs)
    if rs.rand() < 0.3:
        G.second_hand(root, rs)     # a used object: queried under other parameter values, which were then restored in place
    return root


def relabel_ids(root, rs):
    """a random non-topological but valid id labelling (ids unique, consecutive from 0)."""
    objs = G.post_order(root)
    perm = rs.permutation(len(objs))
    for o, i in zip(objs, perm):
        o.id = int(i)


def impl_eval(root, X):
    from deeprob.spn.algorithms.inference import likelihood, log_likelihood
    with np.errstate(all="ignore"):
        L = likelihood(root, X).reshape(-1).astype(np.float64)
        LL = log_likelihood(root, X).reshape(-1).astype(np.float64)
    E = np.where(LL <= -1e30, 0.0, np.exp(np.clip(LL, -700, 700)))
    return L, LL, E


def boundary_agreement(root, tab, points, width, rs):
    from deeprob.spn.structure.leaf import Uniform, Isotonic
    edges = {}
    for o in tab.objs:
        if isinstance(o, Uniform):
            edges.setdefault(int(o.scope[0]), []).extend([float(o.start), float(o.start + o.width)])
        if isinstance(o, Isotonic):
            edges.setdefault(int(o.scope[0]), []).extend(float(b) for b in o.breaks)
    if not edges:
        return None, 0
    dom = tab.domains(); scope = sorted(tab.root_scope())
    rows = []
    for v, es in edges.items():
        for e in es[:8]:
            base = {u: int(rs.choice(dom[u])) for u in scope}
            x = G.np_row(base, width, points)
            x[v] = np.float32(e)
            rows.append(x)
    X = np.array(rows, dtype=np.float32)
    L, LL, E = impl_eval(root, X)
    ok = np.abs(L - E) <= 1e-3 * np.maximum(np.abs(L), np.abs(E)) + 1e-30
    if ok.all():
        return None, len(rows)
    i = int(np.argmin(ok))
    return dict(row=[float(t) for t in X[i]], likelihood=float(L[i]), log_likelihood=float(LL[i]), exp_log_likelihood=float(E[i])), len(rows)


def wide_evidence(root, tab, points, width, rs):
    """evidence stored in float64 / int64 that single precision cannot hold: values a hair (1e-9 relative) inside and outside
    every support edge and histogram break, compared with an independent float64 evaluation of the circuit's semantics
    (harness/circuits.py:py_likelihood).  The query must be answered at the assignment supplied, not at a rounded one."""
    from deeprob.spn.structure.leaf import Uniform, Isotonic
    edges = {}
    for o in tab.objs:
        if isinstance(o, Uniform):
            edges.setdefault(int(o.scope[0]), []).extend([float(o.start), float(o.start + o.width)])
        if isinstance(o, Isotonic):
            edges.setdefault(int(o.scope[0]), []).extend(float(b) for b in o.breaks)
    if not edges:
        return None, 0
    dom = tab.domains(); scope = sorted(tab.root_scope())
    rows = []
    for v, es in edges.items():
        for e in sorted(set(es))[:6]:
            for sgn in (-1.0, 1.0):
                base = {u: int(rs.choice(dom[u])) for u in scope}
                x = np.array(G.np_row(base, width, points), dtype=np.float64)
                x[v] = e + sgn * 1e-9 * max(1.0, abs(e))
                rows.append(x)
    X = np.array(rows, dtype=np.float64)
    L, LL, E = impl_eval(root, X)
    ref = np.array([G.py_likelihood(root, x) for x in X])
    for name, got in (("likelihood", L), ("exp(log_likelihood)", E)):
        ok = np.abs(got - ref) <= 1e-3 * np.maximum(np.abs(got), np.abs(ref)) + 1e-6
        if not ok.all():
            i = int(np.argmin(ok))
            return dict(query=name, row_float64=[repr(float(t)) for t in X[i]], returned=float(got[i]), circuit_semantics=float(ref[i])), len(rows)
    return None, len(rows)


def far_tail(root, tab, points, width, rs):
    """one batch holding an ordinary row and a row 42-55 standard deviations out on every Gaussian variable (log-likelihood
    around -1000: no linear-domain number holds it, the log-domain query must): both against an independent log-domain
    evaluation, and the far row alone must get the value it gets in the batch."""
    from deeprob.spn.structure.leaf import Gaussian
    from deeprob.spn.algorithms.inference import log_likelihood
    gl = {}
    for o in tab.objs:
        if isinstance(o, Gaussian):
            gl.setdefault(int(o.scope[0]), o)
    if not gl:
        return None, 0
    dom = tab.domains(); scope = sorted(tab.root_scope())
    base = {u: int(rs.choice(dom[u])) for u in scope}
    near = np.array(G.np_row(base, width, points), dtype=np.float64); far = near.copy()
    for v, o in gl.items():
        far[v] = float(o.mean) + float(rs.choice([-1.0, 1.0])) * float(rs.uniform(42.0, 55.0)) * float(o.stddev)
    X = np.array([near, far], dtype=np.float32)
    with np.errstate(all="ignore"):
        LLb = log_likelihood(root, X).reshape(-1).astype(np.float64)
        LLs = log_likelihood(root, X[1:2]).reshape(-1).astype(np.float64)
    ref = np.array([G.py_log_likelihood(root, X[0].astype(np.float64)), G.py_log_likelihood(root, X[1].astype(np.float64))])
    if not np.all(np.isfinite(ref)):
        return None, 0
    for name, got, want in (("in the batch", LLb, ref), ("alone", LLs, ref[1:2])):
        ok = np.abs(got - want) <= 1e-3 * np.abs(want) + 1e-3
        if not ok.all():
            i = int(np.argmin(ok))
            return dict(query=f"log_likelihood, far row {name}", rows=[[float(t) for t in r] for r in X], returned=[float(t) for t in got],
                        circuit_semantics_log_domain=[float(t) for t in want]), 2
    return None, 2


def doms_coq(dom):
    return C.coq_list([f"({v}%nat, " + C.coq_list([C.zlit(x) for x in d]) + ")" for v, d in sorted(dom.items())])


def case_coq(name, tab, dom, width, rows, L, E, exh, cont=()):
    rws = []
    for codes, l, e in zip(rows, L, E):
        rws.append(f"({G.row_coq(codes, width)}, ({C.qlit(fin(l))}, {C.qlit(fin(e))}))")
    return (f"Definition {name}_t : qtable :=\n  {tab.coq()}.\n"
            f"Definition {name} : lcase := Build_lcase {name}_t {doms_coq(dom)} {C.natlist(sorted(cont))} {'true' if exh else 'false'}\n  "
            + C.coq_list(rws) + ".\n")


def fin(x):
    """likelihoods sent to Coq: +inf / NaN can never be a likelihood and must not look like one (-1 is never close to a model value)."""
    return float(x) if math.isfinite(x) else -1.0


def missing_rows(rs, scope, dom, tier):
    """rows with every subset of variables missing (<= 6 vars) x sampled observed values, shuffled
    so that complete and incomplete rows are evaluated in one batch."""
    rows = []
    n = len(scope)
    subsets = list(itertools.product([0, 1], repeat=n)) if n <= 6 else \
        [tuple(int(b) for b in rs.randint(0, 2, size=n)) for _ in range(64)]
    reps = 2 if tier == "quick" else 4
    for mask in subsets:
        for _ in range(reps if any(mask) and not all(mask) else 1):
            rows.append({v: (None if m else dom[v][rs.randint(len(dom[v]))]) for v, m in zip(scope, mask)})
    order = rs.permutation(len(rows))
    return [rows[i] for i in order]


def oracle_marginal(root, tab, dom, width, points, codes):
    """brute force: sum of the implementation's own complete-row likelihoods over all completions."""
    miss = [v for v in tab.root_scope() if codes.get(v) is None]
    if any(v in points for v in miss) or len(miss) > 12:
        return None
    from deeprob.spn.algorithms.inference import likelihood, log_likelihood
    comps = []
    for vals in itertools.product(*[dom[v] for v in miss]):
        c = dict(codes); c.update(dict(zip(miss, vals))); comps.append(c)
    X = np.array([G.np_row(c, width, points) for c in comps], dtype=np.float32)
    tot = float(likelihood(root, X).astype(np.float64).sum())
    x = np.array([G.np_row(codes, width, points)], dtype=np.float32)
    got = float(np.exp(log_likelihood(root, x).reshape(-1)[0]))
    if abs(got - tot) > 1e-3 * (abs(tot) + 1e-9) + 1e-9:
        return dict(what="marginal log-likelihood differs from the sum of the implementation's own complete-row likelihoods",
                    marginal=got, sum_over_completions=tot, n_completions=len(comps))
    return None


def run(pid, tier, seed, replay, mode):
    rep = C.Report(pid, tier, seed)
    rs = np.random.RandomState((seed + (1 if mode == "marg" else 0)) % (2 ** 31))
    C.proof_stage(rep, pid, search=None)
    rep.cov["trusted_base"] += [
        "harness/circuits.py: mapping deeprob objects -> model table (exact rationals of the float parameters); independent closed-form densities for Gaussian/Uniform/Isotonic at the run's test points",
        "float32 rounding absorbed by tolerance |impl-model| <= 2e-4*model + 1e-9 evaluated inside Coq",
        "scipy.stats pmf/pdf values of the leaves (tied per row, not proved); that continuous densities integrate to one (assumed)"]
    ncirc = (60 if tier == "quick" else 1500)
    G.CLT_DET = 0.35          # Chow-Liu leaves with exact 0/1 table entries (evidence can rule out every value of a variable)
    cases = []
    dist = dict(kinds={}, vars={}, nodes=0, rows=0, clt_leaves=0, missing_cells={})
    corpus_dir = os.path.join(C.ROOT, "corpus", pid)
    def stream():
        for i in range(ncirc):
            yield gen_circuit(rs, i, tier), False
        # Chow-Liu leaves whose scope is a block of ADJACENT variable ids listed in a non-ascending order (e.g. [2, 0, 1]), alone
        # under a product and as components of a mixture: columns must reach the leaf in the order of its scope list
        from deeprob.spn.structure.node import Sum as _Sum0, Product as _Prod0, assign_ids as _aid0
        from deeprob.spn.structure.leaf import Bernoulli as _Be0
        for _ in range(3 if tier == "quick" else 20):
            nv = int(rs.randint(2, 5)); lo = int(rs.randint(0, 3))
            def perm_block():
                while True:
                    sc_ = [lo + int(v) for v in rs.permutation(nv)]
                    if sc_ != sorted(sc_):
                        return sc_
            k_ = int(rs.randint(1, 3))
            leaves_ = [G.rand_clt(rs, perm_block(), permute=False) for _ in range(k_)]
            inner_ = leaves_[0] if k_ == 1 else _Sum0(children=leaves_, weights=np.array(G.dyadic_weights(rs, k_), dtype=np.float32))
            r0_ = _Prod0(children=[_Be0(lo + nv, float(rs.randint(1, 16) / 16.0)), inner_] if rs.rand() < 0.5 else [inner_, _Be0(lo + nv, float(rs.randint(1, 16) / 16.0))])
            _aid0(r0_)
            yield r0_, False
        if mode == "marg":
            # wide Chow-Liu trees (16-22 variables) as leaves of a small mixture: many NaN rows of one batch differ only in a few
            # positions, and 3^16 exceeds what single precision can count
            from deeprob.spn.structure.node import Sum as _Sum, Product as _Prod, assign_ids as _aid
            from deeprob.spn.structure.leaf import Bernoulli as _Be
            for _ in range(2 if tier == "quick" else 12):
                nv = int(rs.randint(16, 23)); sc = list(range(nv))
                mix = _Sum(children=[G.rand_clt(rs, sc), G.rand_clt(rs, sc)], weights=np.array(G.dyadic_weights(rs, 2), dtype=np.float32))
                r_ = _Prod(children=[mix, _Be(nv, float(rs.randint(1, 16) / 16.0))]); _aid(r_)
                yield r_, False
            # learned circuits (structured-decomposable XPCs and LearnSPN with Chow-Liu leaves): their leaves have been through
            # the learners' own sequence of constructor / fit calls
            from . import c10
            for r in c10.learned_circuits(rs, 8 if tier == "quick" else 32):
                yield r, True
            # densities above and below one that cancel (round 8): two components whose uniform leaves on one variable have
            # widths 2^-k and 2^k, so that with the other variable missing the children's log-values are +k log 2 and -k log 2 and
            # add up to exactly zero although neither is zero ("all zero" and "sum zero" are different tests)
            from deeprob.spn.structure.leaf import Uniform as _Un
            for _ in range(3 if tier == "quick" else 12):
                k_ = int(rs.randint(1, 3)); s_ = float(rs.randint(-2, 3))
                comps_ = [_Prod(children=[_Un(0, start=s_, width=2.0 ** (-k_)), _Be(1, float(rs.randint(1, 16) / 16.0))]),
                          _Prod(children=[_Un(0, start=s_, width=2.0 ** k_), _Be(1, float(rs.randint(1, 16) / 16.0))])]
                r_ = _Sum(children=comps_, weights=np.array(G.dyadic_weights(rs, 2), dtype=np.float32)); _aid(r_)
                yield r_, False
    for root, learned in stream():
        points = make_points(root, rs)
        tab = G.Table(root, points, renorm=learned)      # learned float32 vectors sum to one up to rounding: re-normalised exactly (bounded)
        if learned and float(tab.max_adjust) > 1e-5:
            rep.violation(dict(kind="learned-parameters-not-normalised", max_adjustment=float(tab.max_adjust), circuit=tab.brief()), True)
        dom = tab.domains()
        scope = sorted(tab.root_scope())
        width = max(scope) + 1
        if mode == "full":
            limit = 128 if tier == "quick" else 512
            total = 1
            for v in scope:
                total *= len(dom[v])
            rows = list(G.assignments(scope, dom, limit=limit, rs=rs))
            exh = total <= limit and not points
        else:
            rows = missing_rows(rs, scope, dom, tier)
            exh = False
        X = np.array([G.np_row(c, width, points) for c in rows], dtype=np.float32)
        fp0 = G.fingerprint(root)
        try:
            L, LL, E = impl_eval(root, X)
            if dist.get("purity_viol", 0) < 2 and not G.unchanged(root, fp0, "likelihood / log_likelihood", rep):
                dist["purity_viol"] = dist.get("purity_viol", 0) + 1
        except Exception as e:      # a valid circuit and rows of in-domain / out-of-support values: inference must not raise
            bad_row = None
            for x in X:
                try:
                    impl_eval(root, x[None, :])
                except Exception:
                    bad_row = [None if np.isnan(t) else float(t) for t in x]; break
            nraise = dist.get("inference_raised", 0); dist["inference_raised"] = nraise + 1
            if nraise < 3:
                rep.violation(dict(kind="inference-raised-on-a-valid-circuit", circuit=tab.brief(), row=bad_row,
                                   error=f"{type(e).__name__}: {e}"), True)
            continue
        # batch composition must not matter: a sample of rows evaluated one at a time gives the batch's values
        for j in rs.choice(len(X), size=min(len(X), 6 if mode == "full" else 20), replace=False):
            try:
                l1, ll1, e1 = impl_eval(root, X[j:j + 1])
            except Exception as e:
                l1 = e1 = np.array([np.nan]); ll1 = np.array([np.nan])
            okb = (np.isclose(l1[0], L[j], rtol=1e-5, atol=1e-12, equal_nan=True) and np.isclose(e1[0], E[j], rtol=1e-5, atol=1e-12, equal_nan=True))
            dist["single_row_evaluations"] = dist.get("single_row_evaluations", 0) + 1
            if not okb and dist.get("batch_viol", 0) < 3:
                dist["batch_viol"] = dist.get("batch_viol", 0) + 1
                rep.violation(dict(kind="value-of-a-row-depends-on-the-batch-it-is-evaluated-in", circuit=tab.brief(),
                                   row=[None if np.isnan(t) else float(t) for t in X[j]],
                                   in_batch=dict(likelihood=float(L[j]), exp_loglik=float(E[j])),
                                   alone=dict(likelihood=float(l1[0]), exp_loglik=float(e1[0]))), True)
        # ... nor how the cells are stored: float64 always; integers when the batch is complete and discrete
        # ... nor the memory layout: column-major, a strided view of a wider array, a read-only buffer
        def _strided(a):
            big = np.full((a.shape[0], 2 * a.shape[1] + 1), 7.0, dtype=a.dtype); big[:, 1::2] = a
            return big[:, 1::2]
        def _readonly(a):
            b = a.copy(); b.setflags(write=False); return b
        alts = [np.float64] + ([np.int64] if (not points and not np.isnan(X).any()) else []) + ["F-order", "strided-view", "read-only"]
        for dt in alts:
            try:
                Xalt = (np.asfortranarray(X) if dt == "F-order" else _strided(X) if dt == "strided-view" else _readonly(X) if dt == "read-only"
                        else X.astype(dt))
                l2, ll2, e2 = impl_eval(root, Xalt)
                okd = np.allclose(l2, L, rtol=1e-5, atol=1e-12, equal_nan=True) and np.allclose(e2, E, rtol=1e-5, atol=1e-12, equal_nan=True)
                err = None
            except Exception as e:
                okd = False; err = f"{type(e).__name__}: {e}"; l2 = e2 = None
            if not okd and dist.get("dtype_viol", 0) < 3:
                dist["dtype_viol"] = dist.get("dtype_viol", 0) + 1
                j = 0 if l2 is None else int(np.argmax(np.abs(np.nan_to_num(l2 - L))))
                rep.violation(dict(kind="value-depends-on-the-dtype-the-rows-are-stored-in", dtype=dt if isinstance(dt, str) else np.dtype(dt).name, circuit=tab.brief(),
                                   row=[None if np.isnan(t) else float(t) for t in X[j]], error=err,
                                   as_float32=float(L[j]), as_this_dtype=None if l2 is None else float(l2[j])), True)
        cases.append(dict(root=root, tab=tab, dom=dom, width=width, rows=rows, L=L, LL=LL, E=E, exh=exh, points=points))
        d = tab.describe()
        for k, v in d["kinds"].items():
            dist["kinds"][k] = dist["kinds"].get(k, 0) + v
        dist["vars"][len(scope)] = dist["vars"].get(len(scope), 0) + 1
        dist["nodes"] += d["nodes"]; dist["rows"] += len(rows)
        for c in rows:
            m = sum(1 for v in scope if c.get(v) is None)
            dist["missing_cells"][m] = dist["missing_cells"].get(m, 0) + 1
        # agreement clause ON the discontinuities of continuous leaves (support edges, histogram breaks): the model
        # is silent there (which side a float comparison falls on is not the property's business) but likelihood and
        # exp(log_likelihood) must still agree with EACH OTHER; rows are complete, other cells at ordinary points
        if mode == "full" and points:
            bad = boundary_agreement(root, tab, points, width, rs)
            dist["boundary_rows"] = dist.get("boundary_rows", 0) + bad[1]
            if bad[0] and dist.get("boundary_viol", 0) < 3:
                dist["boundary_viol"] = dist.get("boundary_viol", 0) + 1
                rep.violation(dict(kind="likelihood-and-log-likelihood-disagree-at-a-support-edge", circuit=tab.brief(), **bad[0]), True)
        if mode == "full" and points:
            bad = wide_evidence(root, tab, points, width, rs)
            dist["float64_edge_rows"] = dist.get("float64_edge_rows", 0) + bad[1]
            if bad[0] and dist.get("wide_viol", 0) < 3:
                dist["wide_viol"] = dist.get("wide_viol", 0) + 1
                rep.violation(dict(kind="float64-evidence-evaluated-at-a-rounded-assignment", circuit=tab.brief(), **bad[0]), True)
        if mode == "full" and points:
            bad = far_tail(root, tab, points, width, rs)
            dist["far_tail_rows"] = dist.get("far_tail_rows", 0) + bad[1]
            if bad[0] and dist.get("tail_viol", 0) < 3:
                dist["tail_viol"] = dist.get("tail_viol", 0) + 1
                rep.violation(dict(kind="log-likelihood-of-a-far-tail-row", circuit=tab.brief(), **bad[0]), True)
        # python-side clause of C02: a row with every variable missing has log-likelihood exactly 0
        if mode == "marg":
            for c, ll in zip(rows, LL):
                if all(c.get(v) is None for v in scope) and abs(ll) > 1e-5:
                    rep.violation(dict(kind="all-missing-row", circuit=tab.brief(), log_likelihood=float(ll)), True)
    rep.cov["input_distribution"] = dist
    shard = 6
    files = []
    for s in range(0, len(cases), shard):
        body = list(HEADER); names = []
        for i, cs in enumerate(cases[s:s + shard]):
            nm = f"c{s + i}"
            body.append(case_coq(nm, cs["tab"], cs["dom"], cs["width"], cs["rows"], cs["L"], cs["E"], cs["exh"], cs["points"].keys()))
            names.append(nm)
        body.append("Eval vm_compute in (concat (map (fun c => (-1)%Z :: run_lcase c) " + C.coq_list(names) + ")).")
        files.append((f"cases_{s // shard}", "\n".join(body)))
    res = C.run_case_files(pid, files)
    flagged = []
    for (name, rc, ints, raw), s in zip(res, range(0, len(cases), shard)):
        if rc != 0 or ints is None:
            rep.obligation(False)
            rep.violation(dict(kind="correspondence-shard-failed", shard=name, log=raw), False)
            continue
        rep.obligation(True)
        groups = []
        for z in ints:
            if z == -1:
                groups.append([])
            else:
                groups[-1].append(z)
        for cs, codes in zip(cases[s:s + shard], groups):
            hdr, body = codes[:2], codes[2:]
            if hdr[0] or hdr[1]:
                flagged.append((cs, None, hdr[0] + hdr[1]))
            for r, code in zip(cs["rows"], body):
                rep.count(dict(c=cs["tab"].brief(), r=sorted(r.items())),
                          nontrivial=len(cs["tab"].nodes) > 1)
                if code:
                    flagged.append((cs, r, code))
    for cs in cases[:2]:
        rep.sample(dict(circuit=cs["tab"].brief(), rows=[sorted(r.items()) for r in cs["rows"][:3]],
                        impl_likelihood=[float(x) for x in cs["L"][:3]], impl_loglik=[float(x) for x in cs["LL"][:3]]))
    seen = set()
    for cs, r, code in flagged:
        if id(cs) in seen or len(seen) >= 5:
            continue
        seen.add(id(cs))
        info = dict(kind="model-implementation-disagreement", flags=code, circuit=cs["tab"].brief(),
                    node_ids=[int(o.id) for o in cs["tab"].objs], points=cs["points"],
                    note="header flags: 64 circuit not valid/normalised by the certificate checker, 32 model total mass != 1; "
                         "row flags: 1 likelihood differs from the model, 2 exp(log_likelihood) differs, 4 model gather <> message passing")
        if r is not None:
            info["row"] = sorted(r.items())
            i = cs["rows"].index(r)
            info["impl"] = dict(likelihood=float(cs["L"][i]), log_likelihood=float(cs["LL"][i]))
            if mode == "marg":
                info["oracle"] = oracle_marginal(cs["root"], cs["tab"], cs["dom"], cs["width"], cs["points"], r)
        rep.violation(info, True)
    if replay:
        print(open(replay).read()[:3000])
    rep.cov["rule"] = ("random valid DAGs (1-5 vars quick / 1-7 thorough, non-contiguous labels, arity 1-4, sharing 0.3, "
                       "CLT leaves 0.25, leaf mixes over Bernoulli/Categorical/Gaussian/Uniform/Isotonic, random id relabelling); " +
                       ("rows = all complete assignments (<=128/512, exhaustive when fewer) incl. in/out-of-support points of continuous leaves"
                        if mode == "full" else
                        "rows = every subset of variables missing (<=6 vars) x sampled observed values, complete and incomplete rows mixed in one batch") +
                       "; one evaluation = one (circuit,row) compared inside Coq (likelihood and exp(log_likelihood) vs model); "
                       "non-trivial = circuit has more than one node; distinct by circuit+row hash")
    C.clean_gen(pid)
    G.CLT_DET = 0.0
    return rep.finish("proof")


def main(tier, seed, replay=None):
    return run("C01", tier, seed, replay, "full")
