#!/bin/bash
# tools/regress_lane.sh <property-id> : re-runs the check of one property against every seeded change kept for it
# (seeded/<id>, seeded/R2<id>, ... ), each applied in a private scratch worktree (VERIF_REPO), never touching /repo.
# Prints one line per seeded change: "<seed> exit=<rc> violations=<n>".  Lanes of different properties can run side by side.
P=$1
W=/tmp/wt/lane_$P
git -C /repo worktree remove --force $W >/dev/null 2>&1
git -C /repo worktree add --detach $W HEAD >/dev/null 2>&1 || { echo "$P: cannot create worktree"; exit 2; }
export OMP_NUM_THREADS=2 MKL_NUM_THREADS=2 OPENBLAS_NUM_THREADS=2
cd /verif
for S in $P R2$P R3$P R4$P R5$P R6$P R7$P; do
  [ -f seeded/$S/patch.diff ] || continue
  git -C $W checkout -- . ; git -C $W apply /verif/seeded/$S/patch.diff || { echo "$S patch-does-not-apply"; continue; }
  VERIF_REPO=$W ./check $P --tier quick > /tmp/wt/lane_$P.log 2>&1; RC=$?
  echo "$S exit=$RC violations=$(grep -c VIOLATION /tmp/wt/lane_$P.log) $(grep -m1 -o 'no-failing-input-found' /tmp/wt/lane_$P.log)"
done
git -C /repo worktree remove --force $W; git -C /repo worktree prune
