#!/bin/bash
# tools/allseeds.sh <tier> <seed>... : runs every claimed check with each seed, prints exit codes
TIER=$1; shift
cd "$(dirname "$0")/.."
/venv/bin/python -m harness.setup > /dev/null 2>&1 || echo "SETUP FAILED"
for s in "$@"; do
  for p in $(python3 -c "import json; print(' '.join(c['property_id'] for c in json.load(open('MANIFEST.json'))['checks']))"); do
    t0=$(date +%s)
    VERIF_SEED=$s ./check $p --tier $TIER > out_${p}_${s}.log 2>&1; rc=$?
    echo "seed=$s $p exit=$rc $(( $(date +%s) - t0 ))s $(grep -c VIOLATION out_${p}_${s}.log) violations"
  done
done
