#!/bin/bash
# tools/seedtest_wt.sh <seed-dir-name> <property-id>...   — like seedtest.sh, but applies the change in a scratch
# worktree (outside /repo and /verif) and points the checks at it with VERIF_REPO, so /repo is never touched.
# Used while other runs read /repo; the recorded results come from tools/seedtest.sh (git -C /repo apply / checkout).
S=/verif/seeded/$1; N=$1; shift
W=/tmp/wt/st_$N
git -C /repo worktree remove --force $W >/dev/null 2>&1
git -C /repo worktree add --detach $W HEAD >/dev/null 2>&1 || { echo "cannot create worktree"; exit 2; }
export OMP_NUM_THREADS=2 MKL_NUM_THREADS=2 OPENBLAS_NUM_THREADS=2
timeout 600 /venv/bin/python $S/demo.py /repo > /scratch/demo_clean_$N.log 2>&1; DC=$?
git -C $W apply $S/patch.diff || { echo "patch does not apply"; git -C /repo worktree remove --force $W; exit 2; }
timeout 600 /venv/bin/python $S/demo.py $W > /scratch/demo_patched_$N.log 2>&1; DP=$?
(cd $W && PYTHONPATH=$W timeout 1500 /venv/bin/python -m pytest -q -p no:cacheprovider --timeout=900 2>&1 | tail -1 > /scratch/suite_patched_$N.log)
echo "demo clean=$DC patched=$DP suite: $(cat /scratch/suite_patched_$N.log)"
cd /verif
for P in "$@"; do
  VERIF_REPO=$W ./check $P --tier quick > /scratch/check_${N}_$P.log 2>&1; RC=$?
  echo "check $P exit=$RC $(grep -c VIOLATION /scratch/check_${N}_$P.log) violation lines; first: $(grep -m1 VIOLATION /scratch/check_${N}_$P.log)"
  F=$(grep -m1 -o 'replay=[^ ]*' /scratch/check_${N}_$P.log | cut -d= -f2); [ -n "$F" ] && cp $F $S/replay_$P.json
done
git -C /repo worktree remove --force $W; git -C /repo worktree prune
