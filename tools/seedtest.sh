#!/bin/bash
# tools/seedtest.sh <seed-dir-name> <property-id> [more property ids...]
# verifies a seeded change (demo passes clean / fails patched, suite unchanged) and runs the checks on it
S=/verif/seeded/$1; shift
cd /repo && git diff --quiet || { echo "repo dirty"; exit 2; }
export OMP_NUM_THREADS=2 MKL_NUM_THREADS=2 OPENBLAS_NUM_THREADS=2
timeout 600 /venv/bin/python $S/demo.py /repo > /scratch/demo_clean.log 2>&1; DC=$?
git apply $S/patch.diff || { echo "patch does not apply"; exit 2; }
timeout 600 /venv/bin/python $S/demo.py /repo > /scratch/demo_patched.log 2>&1; DP=$?
PYTHONPATH=/repo timeout 1500 /venv/bin/python -m pytest -q -p no:cacheprovider --timeout=900 2>&1 | tail -1 > /scratch/suite_patched.log
echo "demo clean=$DC patched=$DP suite: $(cat /scratch/suite_patched.log)"
cd /verif
for P in "$@"; do
  ./check $P --tier quick > /scratch/check_$P.log 2>&1; RC=$?
  echo "check $P exit=$RC $(grep -c VIOLATION /scratch/check_$P.log) violation lines; first: $(grep -m1 VIOLATION /scratch/check_$P.log)"
  F=$(grep -m1 -o 'replay=[^ ]*' /scratch/check_$P.log | cut -d= -f2); [ -n "$F" ] && cp $F $S/replay_$P.json
done
git -C /repo checkout -- .
